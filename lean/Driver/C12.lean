import Driver.MichIO
import PytezosModel.Michelson.PyObj
open Driver Impl.PyConv

/-! line protocol (tokens separated by single spaces)
  ann   ::= `<field>,<type>` each `-` | `+<hex utf8>`
  type  ::= `s <ann> <scalar>` | `p <ann> <type> <type>` | `o <ann> <type> <type>` | `O <ann> <type>` (option)
          | `l <ann> <type>` | `S <ann> <type>` | `m <ann> <type> <type>` | `b <ann> <type> <type>`
  value ::= `U` | `T` | `F` | `I<int>` | `s<hex|->` | `x<hex|->` | `P <v> <v>` | `L <v>` | `R <v>` | `N` | `J <v>`
          | `l<n> <v>…` | `S<n> <v>…` | `m<n> <k> <v>…` | `b<n> <k> <v>…` | `B<id>`
  pyobj ::= `n` | `u` | `T` | `F` | `I<int>` | `s<hex|->` | `x<hex|->` | `t<n> <o>…` | `l<n> <o>…`
          | `d<n> (<o> <o>)…`   (a record is a dict with `s…` keys)
  `topy <type> <value>` / `topyc <type> <value>` (comparable) → pyobj | `err:<kind>`
  `ofpy <type> <pyobj>` → value | `err:<kind>`
  `layout <type>` → `<mode> <path>=<namehex> …` (mode `dict`/`tuple`; pair or union node)
  `inv <type>` → `true` | `false`
extension: scalars `address key_hash key signature chain_id bls12_381_fr bls12_381_g1 bls12_381_g2 never`;
  type `c <ann> <type>` (contract); pyobj `D<+|-><coef>e<exp>` (finite Decimal) | `Dnan` | `Dinf`;
  any line may end with ` | <texthex>:<mask>:<rawhex|-> …`: what the real library says about the strings of the line —
  mask = five binary digits `is_address is_pkh is_public_key is_sig is_chain_id`, raw = `base58_decode` (`-` if it
  raises).  That table is the `valid` / `raw` parameter of the model for this line (base58 is C09's).
try_unpack: `topyu <type> <value>` = `to_python_object(try_unpack=True)`; `unpack <hex|->` = `blind_unpack`; the table
  may then hold `e:<prefixhex>:<payloadhex|->:<texthex>` (`base58_encode(payload, prefix)`) and
  `u:<datahex|->:<pyobj tokens joined by ~>` (`micheline_value_to_python_object(unforge_micheline(data))`, absent when
  that raises) — the `b58` / `unpackMich` parameters.
ticket / lambda: types `k <ann> <type>` (ticket) and `f <ann> <type> <type>` (lambda); values `K<ticketerhex> <v> I<amount>`
  and `f<codehex>` (code = the canonical JSON text of the body's Micheline); table entries `c:<codehex>:<texthex>`
  (`micheline_to_michelson(code)`) and `p:<texthex>:<codehex>` (what the text parses and normalises to; absent when that
  raises) — the `codeText` / `codeOfText` parameters. -/

def readOpt (t : String) : Option (Option String) :=
  if t = "-" then some none
  else if t.startsWith "+" then
    let h := (t.drop 1).toString
    if h = "" then some (some "") else (hexToString h).map some
  else none

def readAnn (t : String) : Option Ann :=
  match t.splitOn "," with
  | [f, ty] => do
    let f ← readOpt f
    let ty ← readOpt ty
    pure ⟨f, ty⟩
  | _ => none

def readScalar : String → Option Scalar
  | "unit" => some .unit | "bool" => some .bool | "nat" => some .nat | "int" => some .int
  | "mutez" => some .mutez | "timestamp" => some .timestamp | "string" => some .string | "bytes" => some .bytes
  | "address" => some .address | "key_hash" => some .keyHash | "key" => some .key | "signature" => some .signature
  | "chain_id" => some .chainId | "bls12_381_fr" => some .blsFr | "bls12_381_g1" => some .blsG1
  | "bls12_381_g2" => some .blsG2 | "never" => some .never
  | _ => none

partial def readTy : List String → Option (Ty × List String)
  | "s" :: a :: sc :: rest => do
    let a ← readAnn a
    let sc ← readScalar sc
    pure (.scalar a sc, rest)
  | k :: a :: rest => do
    let a ← readAnn a
    if k = "O" || k = "l" || k = "S" || k = "c" || k = "k" then
      let (t, r) ← readTy rest
      match k with
      | "O" => pure (.option a t, r)
      | "l" => pure (.list a t, r)
      | "c" => pure (.contract a t, r)
      | "k" => pure (.ticket a t, r)
      | _ => pure (.set a t, r)
    else
      let (l, r1) ← readTy rest
      let (r, r2) ← readTy r1
      match k with
      | "p" => pure (.pair a l r, r2)
      | "o" => pure (.or a l r, r2)
      | "m" => pure (.map a l r, r2)
      | "b" => pure (.bigMap a l r, r2)
      | "f" => pure (.lambda a l r, r2)
      | _ => none
  | _ => none

def hexStr (h : String) : Option String := if h = "-" then some "" else hexToString h
def strHex (s : String) : String := if s = "" then "-" else stringToHex s

mutual
  partial def readVal : List String → Option (Val × List String)
    | [] => none
    | t :: rest =>
      let body := (t.drop 1).toString
      match t.front with
      | 'U' => some (.unit, rest)
      | 'T' => some (.bool true, rest)
      | 'F' => some (.bool false, rest)
      | 'N' => some (.none, rest)
      | 'I' => (parseInt body).map fun n => (.int n, rest)
      | 'B' => (parseInt body).map fun n => (.bigMapId n, rest)
      | 's' => (hexStr body).map fun s => (.str s, rest)
      | 'x' => (parseHex body).map fun b => (.bytes b, rest)
      | 'P' => do
        let (a, r1) ← readVal rest
        let (b, r2) ← readVal r1
        pure (.pair a b, r2)
      | 'K' => do
        let tk ← hexStr body
        let (x, r1) ← readVal rest
        match readVal r1 with
        | some (.int n, r2) => pure (.ticket tk x n, r2)
        | _ => none
      | 'f' => (hexStr body).map fun code => (.lambda code, rest)
      | 'L' => do
        let (a, r1) ← readVal rest
        pure (.left a, r1)
      | 'R' => do
        let (a, r1) ← readVal rest
        pure (.right a, r1)
      | 'J' => do
        let (a, r1) ← readVal rest
        pure (.some a, r1)
      | 'l' => do
        let n ← body.toNat?
        let (xs, r) ← readVals n rest
        pure (.list xs, r)
      | 'S' => do
        let n ← body.toNat?
        let (xs, r) ← readVals n rest
        pure (.set xs, r)
      | 'm' => do
        let n ← body.toNat?
        let (xs, r) ← readVals (2 * n) rest
        pure (.map (pairUp xs), r)
      | 'b' => do
        let n ← body.toNat?
        let (xs, r) ← readVals (2 * n) rest
        pure (.bigMap (pairUp xs), r)
      | _ => none
  partial def readVals : Nat → List String → Option (List Val × List String)
    | 0, ts => some ([], ts)
    | n + 1, ts => do
      let (x, r) ← readVal ts
      let (xs, r') ← readVals n r
      pure (x :: xs, r')
  partial def pairUp : List Val → List (Val × Val)
    | a :: b :: rest => (a, b) :: pairUp rest
    | _ => []
end

mutual
  partial def readPy : List String → Option (PyObj × List String)
    | [] => none
    | t :: rest =>
      let body := (t.drop 1).toString
      match t.front with
      | 'n' => some (.none, rest)
      | 'u' => some (.unit, rest)
      | 'T' => some (.bool true, rest)
      | 'F' => some (.bool false, rest)
      | 'I' => (parseInt body).map fun n => (.int n, rest)
      | 's' => (hexStr body).map fun s => (.str s, rest)
      | 'x' => (parseHex body).map fun b => (.bytes b, rest)
      | 'D' =>
        if body = "nan" then some (.decimalSpecial false, rest)
        else if body = "inf" then some (.decimalSpecial true, rest)
        else
          match (body.drop 1).toString.splitOn "e" with
          | [cf, ex] => do
            let cf ← cf.toNat?
            let ex ← parseInt ex
            pure (.decimal (body.front == '-') cf ex, rest)
          | _ => none
      | 't' => do
        let n ← body.toNat?
        let (xs, r) ← readPys n rest
        pure (.tuple xs, r)
      | 'l' => do
        let n ← body.toNat?
        let (xs, r) ← readPys n rest
        pure (.list xs, r)
      | 'd' => do
        let n ← body.toNat?
        let (xs, r) ← readPys (2 * n) rest
        pure (.dict (pairUpPy xs), r)
      | _ => none
  partial def readPys : Nat → List String → Option (List PyObj × List String)
    | 0, ts => some ([], ts)
    | n + 1, ts => do
      let (x, r) ← readPy ts
      let (xs, r') ← readPys n r
      pure (x :: xs, r')
  partial def pairUpPy : List PyObj → List (PyObj × PyObj)
    | a :: b :: rest => (a, b) :: pairUpPy rest
    | _ => []
end

mutual
  partial def showVal : Val → List String
    | .unit => ["U"]
    | .bool b => [if b then "T" else "F"]
    | .int n => ["I" ++ toString n]
    | .str s => ["s" ++ strHex s]
    | .bytes b => ["x" ++ toHex b]
    | .pair a b => "P" :: (showVal a ++ showVal b)
    | .left a => "L" :: showVal a
    | .right a => "R" :: showVal a
    | .none => ["N"]
    | .some a => "J" :: showVal a
    | .list xs => ("l" ++ toString xs.length) :: showVals xs
    | .set xs => ("S" ++ toString xs.length) :: showVals xs
    | .map kvs => ("m" ++ toString kvs.length) :: showKvs kvs
    | .bigMap kvs => ("b" ++ toString kvs.length) :: showKvs kvs
    | .bigMapId n => ["B" ++ toString n]
    | .ticket tk x n => ("K" ++ strHex tk) :: (showVal x ++ ["I" ++ toString n])
    | .lambda code => ["f" ++ strHex code]
  partial def showVals : List Val → List String
    | [] => []
    | x :: xs => showVal x ++ showVals xs
  partial def showKvs : List (Val × Val) → List String
    | [] => []
    | (k, v) :: xs => showVal k ++ showVal v ++ showKvs xs
end

mutual
  partial def showPy : PyObj → List String
    | .none => ["n"]
    | .unit => ["u"]
    | .bool b => [if b then "T" else "F"]
    | .int n => ["I" ++ toString n]
    | .str s => ["s" ++ strHex s]
    | .bytes b => ["x" ++ toHex b]
    | .decimal n cf ex => ["D" ++ (if n then "-" else "+") ++ toString cf ++ "e" ++ toString ex]
    | .decimalSpecial inf => [if inf then "Dinf" else "Dnan"]
    | .tuple xs => ("t" ++ toString xs.length) :: showPys xs
    | .list xs => ("l" ++ toString xs.length) :: showPys xs
    | .record fs => ("d" ++ toString fs.length) :: showFields fs
    | .dict items => ("d" ++ toString items.length) :: showItems items
  partial def showPys : List PyObj → List String
    | [] => []
    | x :: xs => showPy x ++ showPys xs
  partial def showFields : List (String × PyObj) → List String
    | [] => []
    | (k, v) :: xs => ("s" ++ strHex k) :: (showPy v ++ showFields xs)
  partial def showItems : List (PyObj × PyObj) → List String
    | [] => []
    | (k, v) :: xs => showPy k ++ showPy v ++ showItems xs
end

def showErr : Err → String
  | .key => "err:key"
  | .type => "err:type"
  | .assertion => "err:assert"
  | .overflow => "err:overflow"
  | .unmodelled => "unmodelled"
  | .unrecognised => "unrecognised-source"

def showPath (p : Path) : String := if p.isEmpty then "." else String.ofList (p.map fun b => if b then '1' else '0')

def showLayout (lay : Layout) : String :=
  match lay.pathToKey with
  | some p2k => joinWith " " ("dict" :: p2k.map fun e => showPath e.1 ++ "=" ++ strHex e.2)
  | none => joinWith " " ("tuple" :: lay.idxToPath.map showPath)

def handleWith (c : Cfg) (line : String) : String :=
  match words line with
  | "topy" :: ts | "topyc" :: ts =>
    let cmp := (words line).head? == some "topyc"
    match readTy ts with
    | some (τ, r) => match readVal r with
      | some (v, []) => match toPy c cmp τ v with
        | .ok py => joinWith " " (showPy py)
        | .error e => showErr e
      | _ => "bad-op"
    | none => "bad-op"
  | "ofpy" :: ts =>
    match readTy ts with
    | some (τ, r) => match readPy r with
      | some (py, []) => match ofPy c τ py with
        | .ok v => joinWith " " (showVal v)
        | .error e => showErr e
      | _ => "bad-op"
    | none => "bad-op"
  | "layout" :: ts =>
    match readTy ts with
    | some (.pair a l r, []) => showLayout (pairLayout (.pair a l r))
    | some (.or a l r, []) => showLayout (orLayout (.or a l r))
    | _ => "bad-op"
  | "inv" :: ts =>
    match readTy ts with
    | some (τ, []) => toString (Spec.PyConv.inv c false τ)
    | _ => "bad-op"
  | _ => "bad-op"

inductive Fact where
  | text (s : String) (mask : List Bool) (raw : List Nat)
  | enc (pre : String) (payload : List Nat) (text : String)
  | unpacked (data : List Nat) (o : PyObj)
  | codeText (code text : String)
  | codeParse (text code : String)

def hexBytes (h : String) : Option (List Nat) := if h = "-" then some [] else parseHex h

/-- `<texthex>:<mask>:<rawhex|->` | `e:<prefixhex>:<payloadhex|->:<texthex>` | `u:<datahex|->:<tok~tok…>` -/
def readFact (t : String) : Option Fact :=
  match t.splitOn ":" with
  | ["c", cd, tx] => do
    let cd ← hexStr cd
    let tx ← hexStr tx
    pure (.codeText cd tx)
  | ["p", tx, cd] => do
    let tx ← hexStr tx
    let cd ← hexStr cd
    pure (.codeParse tx cd)
  | ["e", p, pl, tx] => do
    let p ← hexStr p
    let pl ← hexBytes pl
    let tx ← hexStr tx
    pure (.enc p pl tx)
  | ["u", d, toks] => do
    let d ← hexBytes d
    match readPy (toks.splitOn "~") with
    | some (o, []) => pure (.unpacked d o)
    | _ => none
  | [h, m, r] => do
    let s ← hexStr h
    let raw ← hexBytes r
    pure (.text s (m.toList.map (· == '1')) raw)
  | _ => none

def domIdx : Dom → Nat
  | .address => 0 | .keyHash => 1 | .key => 2 | .signature => 3 | .chainId => 4

/-- `get_originated_address(0)` (compared with the real function by the harness) -/
def originated0 : String := "KT1BEqzn5Wx8uJrZNvuS9DVHmLvG9td3fDLi"

def mkCfg (f : Flags) (facts : List Fact) (unpack : Bool) : Cfg :=
  { toFlags := f
    valid := fun d s => (facts.findSome? fun
      | .text s' m _ => if s' == s then some (m.getD (domIdx d) false) else none
      | _ => none).getD false
    raw := fun s => (facts.findSome? fun
      | .text s' _ r => if s' == s then some r else none
      | _ => none).getD []
    originated0 := originated0
    tryUnpack := unpack
    b58 := fun p pl => (facts.findSome? fun
      | .enc p' pl' tx => if p' == p && pl' == pl then some tx else none
      | _ => none).getD "?"
    unpackMich := fun d => facts.findSome? fun
      | .unpacked d' o => if d' == d then some o else none
      | _ => none
    codeText := fun cd => (facts.findSome? fun
      | .codeText cd' tx => if cd' == cd then some tx else none
      | _ => none).getD "?"
    codeOfText := fun tx => facts.findSome? fun
      | .codeParse tx' cd => if tx' == tx then some cd else none
      | _ => none
    codeOk := fun _ => true }

def handleUnpack (f : Flags) (facts : List Fact) (l : String) : Option String :=
  match words l with
  | ["unpack", h] => (hexBytes h).map fun d => joinWith " " (showPy (blindUnpack (mkCfg f facts true) d))
  | "topyu" :: ts =>
    match readTy ts with
    | some (τ, r) => match readVal r with
      | some (v, []) => some (match toPy (mkCfg f facts true) false τ v with
        | .ok py => joinWith " " (showPy py)
        | .error e => showErr e)
      | _ => some "bad-op"
    | none => some "bad-op"
  | _ => none

def handle (line : String) : String :=
  match cfg? with
  | some f =>
    let run (l : String) (facts : List Fact) : String :=
      match handleUnpack f facts l with
      | some out => out
      | none => handleWith (mkCfg f facts false) l
    match line.splitOn " | " with
    | [l] => run l []
    | [l, tbl] =>
      match (words tbl).mapM readFact with
      | some facts => run l facts
      | none => "bad-op"
    | _ => "bad-op"
  | none => "unrecognised-source"

def main : IO Unit := mainWith handle
