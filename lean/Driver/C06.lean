import Driver.MichIO
import PytezosModel.Client.OpForge
/-! C06 line protocol.

    forge  <branch-hex> <n> { <kind> <m> { <name> <value> }^m }^n      →  hex | err
    canon  <same as forge>                                              →  hex | err        (Spec.Op.writeGroup)
    decode <hex>                                                        →  <branch-hex> <n> {…same shape…} | err
    entrypoint <name-hex>                                               →  hex | err        (forge_entrypoint)

values:  `N<decimal>` · `H<hex|->` (raw bytes) · `A<prefix>:<hex>` (address / key hash) · `K<prefix>:<hex>` (public key)
· `E<hex>` (entrypoint name, UTF-8) · `L<k> <hex>^k` · `M <micheline tokens>` (Driver/MichIO) ·
`O<k> { <name> <value> }^k` (a present optional group; an absent one is simply not listed).
Fields are looked up by name, in the order of the layout, exactly as the Python body reads `content[name]`. -/
open Driver OpLayout
open Generated.C06 (Codec Cond Field)

inductive Tok where
  | val (v : Val)
  | group (kvs : List (String × Val))

def splitColon (s : String) : Option (String × String) :=
  match s.splitOn ":" with
  | [a, b] => some (a, b)
  | _ => none

def readVal : List String → Option (Val × List String)
  | [] => none
  | t :: rest =>
    let body := (t.drop 1).toString
    match t.front with
    | 'N' => body.toNat?.map fun n => (.nat n, rest)
    | 'H' => (parseHex body).map fun b => (.raw b, rest)
    | 'A' => do
      let (p, h) ← splitColon body
      let b ← parseHex h
      pure (.addr p b, rest)
    | 'K' => do
      let (p, h) ← splitColon body
      let b ← parseHex h
      pure (.pubkey p b, rest)
    | 'E' => (parseHex body).map fun b => (.ep b, rest)
    | 'L' => do
      let k ← body.toNat?
      let hs := rest.take k
      if hs.length ≠ k then none
      let xs ← hs.mapM parseHex
      pure (.list xs, rest.drop k)
    | 'M' => do
      let (m, r) ← readMich rest
      -- an unknown primitive is a KeyError in `forge_micheline`: reported as `err` by the caller
      match Impl.Lower.lower m with
      | some e => pure (.mich e, r)
      | none => pure (.raw [], r)
    | _ => none

def readKVs : Nat → List String → Option (List (String × Val) × List String)
  | 0, ts => some ([], ts)
  | k + 1, ts =>
    match ts with
    | name :: r0 => do
      let (v, r1) ← readVal r0
      let (kvs, r2) ← readKVs k r1
      pure ((name, v) :: kvs, r2)
    | [] => none

def readToks : Nat → List String → Option (List (String × Tok) × List String)
  | 0, ts => some ([], ts)
  | k + 1, ts =>
    match ts with
    | name :: t :: r0 =>
      if t.front == 'O' then do
        let n ← (t.drop 1).toString.toNat?
        let (kvs, r1) ← readKVs n r0
        let (more, r2) ← readToks k r1
        pure ((name, .group kvs) :: more, r2)
      else do
        let (v, r1) ← readVal (t :: r0)
        let (more, r2) ← readToks k r1
        pure ((name, .val v) :: more, r2)
    | _ => none

def findTok (kvs : List (String × Tok)) (n : String) : Option Tok := (kvs.find? (·.1 == n)).map (·.2)

/-- `content[name]` for every name the layout reads, in layout order (`none` = KeyError) -/
def recordOf (l : List Field) (kvs : List (String × Tok)) : Option Record :=
  l.mapM fun f =>
    match f with
    | .req n _ => match findTok kvs n with
      | some (.val v) => some (.req v)
      | _ => none
    | .opt n _ fs => match findTok kvs n with
      | none => some (.opt none)
      | some (.group g) => (fs.mapM fun (p : String × Codec) => lookup g p.1).map fun vs => .opt (some vs)
      | some (.val _) => none

def readContents : Nat → List String → Option (List Content × List String)
  | 0, ts => some ([], ts)
  | k + 1, ts =>
    match ts with
    | kind :: m :: r0 => do
      let m ← m.toNat?
      let (kvs, r1) ← readToks m r0
      -- an unknown kind has no layout: forging fails later (NotImplementedError)
      let fields := (Impl.OpForge.layoutOf kind).bind fun l => recordOf l kvs
      let c : Content := match fields with
        | some r => ⟨kind, r⟩
        | none => ⟨"", []⟩
      let (cs, r2) ← readContents k r1
      pure (c :: cs, r2)
    | _ => none

def showVal : Val → List String
  | .nat n => ["N" ++ toString n]
  | .raw b => ["H" ++ toHex b]
  | .addr p h => ["A" ++ p ++ ":" ++ toHex h]
  | .pubkey p k => ["K" ++ p ++ ":" ++ toHex k]
  | .ep n => ["E" ++ toHex n]
  | .list xs => ("L" ++ toString xs.length) :: xs.map toHex
  | .mich e => match Impl.Lower.raise e with
    | some m => "M" :: showMich m
    | none => ["M", "?"]

def showField : OpLayout.SField → FVal → List String
  | .req n _, .req v => n :: showVal v
  | .opt n _ fs, .opt (some vs) =>
    n :: ("O" ++ toString vs.length) :: ((fs.zip vs).flatMap fun (p : (String × OpLayout.SCodec) × Val) => p.1.1 :: showVal p.2)
  | _, _ => []

def showContent (c : Content) : List String :=
  match Spec.Op.rowOfKind c.kind with
  | none => ["?"]
  | some row =>
    let present := c.fields.filter fun v => match v with
      | .opt none => false
      | _ => true
    c.kind :: toString present.length :: ((row.layout.zip c.fields).flatMap fun (p : OpLayout.SField × FVal) => showField p.1 p.2)

def handle (line : String) : String :=
  match words line with
  | "forge" :: b :: n :: ts =>
    match parseHex b, n.toNat? with
    | some branch, some n =>
      match readContents n ts with
      | some (cs, []) =>
        match Impl.OpForge.forgeGroup ⟨branch, cs⟩ with
        | some bs => toHex bs
        | none => "err"
      | _ => "bad-op"
    | _, _ => "bad-op"
  | "canon" :: b :: n :: ts =>
    match parseHex b, n.toNat? with
    | some branch, some n =>
      match readContents n ts with
      | some (cs, []) =>
        match Spec.Op.writeGroup ⟨branch, cs⟩ with
        | some bs => toHex bs
        | none => "err"
      | _ => "bad-op"
    | _, _ => "bad-op"
  | ["decode", h] =>
    match parseHex h with
    | some bs =>
      match Spec.Op.decodeGroup bs with
      | some g => joinWith " " (toHex g.branch :: toString g.contents.length :: g.contents.flatMap showContent)
      | none => "err"
    | none => "bad-op"
  | ["entrypoint", h] =>
    match parseHex h with
    | some n => match Impl.OpForge.forgeEntrypoint n with
      | some bs => toHex bs
      | none => "err"
    | none => "bad-op"
  | _ => "bad-op"

def main : IO Unit := mainWith handle
