import Driver.InterpIO
import PytezosModel.Michelson.Interp.Impl
import PytezosModel.Michelson.Interp.Spec
open Driver Interp

namespace InterpDriver
def splitBar (ws : List String) : List (List String) :=
  ws.foldr (fun w acc => if w == "|" then [] :: acc else match acc with
    | [] => [[w]]
    | a :: rest => (w :: a) :: rest) [[]]

def showStack (st : List Val) : String :=
  joinWith " | " ("ok" :: st.map fun v => michToLine (tyToMich (typeOf v)) ++ " ; " ++ michToLine (valToMich v))

def showRes (r : Res (List Val)) : String :=
  match r with
  | .ok st => showStack st
  | .failed v => "failed | " ++ michToLine (tyToMich (typeOf v)) ++ " ; " ++ michToLine (valToMich v)
  | .err => "err"

def parseEnv : List String → Option Env
  | [a, b, n, l, snd, src, slf, cid] => do
    pure { amount := ← parseInt a, balance := ← parseInt b, now := ← parseInt n, level := ← parseInt l,
           sender := codes (← hexToString snd), source := codes (← hexToString src),
           self := codes (← hexToString slf), chainId := codes (← hexToString cid) }
  | _ => none

/-- `impl|spec <fuel> | <amount balance now level sender source self chain_id> | <program>` -/
def handle (line : String) : String :=
  match splitBar (words line) with
  | [[cmd, fuel], envw, prog] =>
    match fuel.toNat?, parseEnv envw, (parseMichTokens prog).bind instrOfMich with
    | some fuel, some env, some i =>
      if cmd == "impl" then showRes (Impl.run env fuel i [])
      else if cmd == "spec" then showRes (Spec.eval false env fuel i [])
      else if cmd == "specg" then showRes (Spec.eval true env fuel i [])
      else if cmd == "type" then
        match Typing.typeInstr false i [] with
        | some (.ok ts) => joinWith " | " ("ok" :: ts.map fun t => michToLine (tyToMich t))
        | some .failed => "failed"
        | none => "ill-typed"
      else "bad-op"
    | _, _, _ => "bad-op"
  | _ => "bad-op"


end InterpDriver
