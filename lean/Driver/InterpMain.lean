import Driver.InterpIO
import PytezosModel.Michelson.Interp.Impl
import PytezosModel.Michelson.Interp.Spec
import PytezosModel.Core.HashKeccak
import PytezosModel.Crypto.RealHash
import PytezosModel.Core.Base58
open Driver Interp

namespace InterpDriver
def splitBar (ws : List String) : List (List String) :=
  ws.foldr (fun w acc => if w == "|" then [] :: acc else match acc with
    | [] => [[w]]
    | a :: rest => (w :: a) :: rest) [[]]

def showStack (st : List Val) : String :=
  joinWith " | " ("ok" :: st.map fun v => michToLine (tyToMich (typeOf v)) ++ " ; " ++ michToLine (valToMich v))

def showRes (r : Res (List Val)) : String :=
  match r with
  | .ok st => showStack st
  | .failed v => "failed | " ++ michToLine (tyToMich (typeOf v)) ++ " ; " ++ michToLine (valToMich v)
  | .rtfail => "rtfail"
  | .oof => "oof"
  | .stuck => "stuck"
  | .offguard => "offguard"

/-- `PUSH` parses its literal with `from_micheline_value`, which runs `check_constraints` (no duplicates, `keys ==
sorted(keys)`) on every set / map literal; mirrored here, at the boundary, with the runtime `__eq__` / `__lt__` of the
modelled key classes (literals over other key classes are taken as given) -/
partial def implLitOk : Val → Bool
  | .pair a b => implLitOk a && implLitOk b
  | .some v => implLitOk v
  | .left v _ => implLitOk v
  | .right _ v => implLitOk v
  | .list _ xs => xs.all implLitOk
  | .set t xs =>
    (!Impl.keyModelled t || (_root_.Impl.Coll.checkConstraints Impl.valEq Impl.valLt xs).isOk) && xs.all implLitOk
  | .map k _ xs =>
    (!Impl.keyModelled k || (_root_.Impl.Coll.checkConstraints Impl.valEq Impl.valLt (xs.map fun e => (Impl.toKV e).1)).isOk)
      && xs.all implLitOk
  | _ => true

/-- the literals `PUSH`ed by the instructions of the top-level sequence (they are executed; the ones inside lambdas
and branches are parsed only when reached) -/
def topPushesOk : Instr → Bool
  | .seq is => is.all fun i => match i with
    | .PUSH _ v => implLitOk v
    | _ => true
  | .PUSH _ v => implLitOk v
  | _ => true

/-- HASH_KEY's function, executable: `Key.from_encoded_key(k).public_key_hash()` — Base58Check decoding of the key
(`edpk` / `sppk` / `p2pk`), BLAKE2b with a 20-byte digest of the public point, Base58Check encoding under `tz1` / `tz2` /
`tz3` (cross-checked against pytezos by the `hash hashkey` lines; `[]`: not a key of these curves) -/
def hashKeyImpl (k : List Nat) : List Nat :=
  match Base58.b58decCheck RealHash.cks k with
  | .ok body =>
    let pk := body.drop 4
    let out (p : List Nat) : List Nat := Base58.b58encCheck RealHash.cks (p ++ Core.Hash.blake2b 20 pk)
    if body.take 4 = [13, 15, 37, 217] then out [6, 161, 159]
    else if body.take 4 = [3, 254, 226, 86] then out [6, 161, 161]
    else if body.take 4 = [3, 178, 139, 127] then out [6, 161, 164]
    else []
  | .error _ => []

/-- the executable hash functions the driver plugs into the model (cross-checked against `hashlib` by the `hash` lines) -/
def execHashes : Hashes :=
  { blake2b := Core.Hash.blake2b32, sha256 := Core.Hash.sha256, sha512 := Core.Hash.sha512,
    keccak := Core.Hash.keccak256, sha3 := Core.Hash.sha3_256, hashKey := hashKeyImpl }

/-- `-` or `hex(key_hash):power,…`: the table behind `context.get_voting_power` (0 for a delegate that is not listed) -/
def parseVotingPower (w : String) : Option (List (List Nat × Int)) :=
  if w == "-" then some []
  else (w.splitOn ",").mapM fun e =>
    match e.splitOn ":" with
    | [k, v] => do pure (codes (← hexToString k), ← parseInt v)
    | _ => none

def lookupPower (tbl : List (List Nat × Int)) (k : List Nat) : Int :=
  match tbl.find? (fun e => e.1 == k) with
  | some e => e.2
  | none => 0

/-- `-` or `hex(text bytes):seconds|x,…`: what `optimize_timestamp` answers on the texts that occur in the program (`x`: it
raises) — the instance of the model's parameter `Env.readTimestamp` for this run; a text that is not listed reads as "not a
timestamp" -/
def parseTimestamps (w : String) : Option (List (List Nat × Option Int)) :=
  if w == "-" then some []
  else (w.splitOn ",").mapM fun e =>
    match e.splitOn ":" with
    | [k, v] => do
      let key ← (if k == "" then some [] else parseHex k)
      if v == "x" then pure (key, none) else pure (key, some (← parseInt v))
    | _ => none

def lookupTimestamp (tbl : List (List Nat × Option Int)) (k : List Nat) : Option Int :=
  match tbl.find? (fun e => e.1 == k) with
  | some e => e.2
  | none => none

/-- `-` or `hex(key text):hex(signature text):hex(message):0|1,…`: what `Key.from_encoded_key(k).verify(s, m)` answers on the
triples that occur in the program (1: it returns, 0: it raises `ValueError`) — the instance of the model's parameter
`Hashes.checkSig` for this run; a triple that is not listed does not verify -/
def parseSignatures (w : String) : Option (List ((List Nat × List Nat × List Nat) × Bool)) :=
  if w == "-" then some []
  else (w.splitOn ",").mapM fun e =>
    match e.splitOn ":" with
    | [k, s, m, v] => do
      let key ← hexToString k
      let sig ← hexToString s
      let msg ← parseHex m
      pure ((codes key, codes sig, msg), v == "1")
    | _ => none

def lookupSignature (tbl : List ((List Nat × List Nat × List Nat) × Bool)) (k s m : List Nat) : Bool :=
  match tbl.find? (fun e => e.1 == (k, s, m)) with
  | some e => e.2
  | none => false

def parseEnv13 : List String → Option Env
  | [a, b, n, l, snd, src, slf, cid, tvp, mbt, vp, ts, sg] => do
    let tbl ← parseVotingPower vp
    let tst ← parseTimestamps ts
    let sgt ← parseSignatures sg
    pure { amount := ← parseInt a, balance := ← parseInt b, now := ← parseInt n, level := ← parseInt l,
           sender := codes (← hexToString snd), source := codes (← hexToString src),
           self := codes (← hexToString slf), chainId := codes (← hexToString cid),
           totalVotingPower := ← parseInt tvp, minBlockTime := ← parseInt mbt, votingPower := lookupPower tbl,
           readTimestamp := lookupTimestamp tst, hashes := { execHashes with checkSig := lookupSignature sgt } }
  | _ => none

def parseEnv (ws : List String) : Option Env :=
  parseEnv13 (ws ++ List.replicate (13 - ws.length) "-")

/-- `hash <blake2b|sha256|sha512|keccak|sha3> <hex>` -/
def handleHash : List String → String
  | [algo, hx] =>
    match parseHex hx with
    | some b =>
      if algo == "blake2b" then toHex (Core.Hash.blake2b32 b)
      else if algo == "sha256" then toHex (Core.Hash.sha256 b)
      else if algo == "sha512" then toHex (Core.Hash.sha512 b)
      else if algo == "keccak" then toHex (Core.Hash.keccak256 b)
      else if algo == "sha3" then toHex (Core.Hash.sha3_256 b)
      else if algo == "hashkey" then toHex (hashKeyImpl b)      -- text in, text out (both as hex of the ASCII codes)
      else "bad-op"
    | none => "bad-op"
  | _ => "bad-op"

/-- `impl|spec <fuel> | <amount balance now level sender source self chain_id total_voting_power min_block_time voting_power [timestamp_texts [signature_checks]]> | <program>` -/
def handle (line : String) : String :=
  match words line with
  | "hash" :: rest => handleHash rest
  | _ =>
  match splitBar (words line) with
  | [[cmd, fuel], envw, prog] =>
    match fuel.toNat?, parseEnv envw, (parseMichTokens prog).bind instrOfMich with
    | some fuel, some env, some i =>
      if cmd == "impl" then (if topPushesOk i then showRes (Impl.run env fuel i []) else "err")
      -- a program whose set / map literals are ill-formed is not well-typed: the reference says nothing about it
      else if cmd == "spec" then (if Typing.literalsOk i then showRes (Spec.eval false env fuel i []) else "err")
      else if cmd == "specg" then (if Typing.literalsOk i then showRes (Spec.eval true env fuel i []) else "err")
      else if cmd == "type" then
        match (if Typing.literalsOk i then Typing.typeInstr false i [] else none) with
        | some (.ok ts) => joinWith " | " ("ok" :: ts.map fun t => michToLine (tyToMich t))
        | some .failed => "failed"
        | none => "ill-typed"
      -- which typing accepts the program: `strict` (`typeInstr true`: the hypotheses of C01.strict_run_eq_reference are
      -- static and hold), `lax` (typed, but some MAP body changes the element type), `ill-typed`
      else if cmd == "stype" then
        (if !Typing.literalsOk i then "ill-typed"
         else if (Typing.typeInstr true i []).isSome then "strict"
         else if (Typing.typeInstr false i []).isSome then "lax" else "ill-typed")
      else "bad-op"
    | _, _, _ => "bad-op"
  | _ => "bad-op"


end InterpDriver
