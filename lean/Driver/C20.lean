import Driver.Util
import PytezosModel.Michelson.TicketsTyping
open Driver Impl.Tickets

/-! line protocol of C20.

types   `nat` `string` `address` `unit` `bool` `pair <a> <b>` `or <a> <b>` `option <t>` `list <t>` `set <t>` `map <k> <v>`
        `big_map <k> <v>` `ticket <t>` (`ticket_bare` only in output)
values  `N<dec>` `S<hex|->` `A<hex>` `U` `B0` `B1` `P <l> <r>` `none <ty>` `some <v>` `L<n> <ty> <v>…` `left <v> <rty>`
        `right <lty> <v>` `E<n> <ty> <atom>…` `M<n> <0|1> <kty> <vty> <k> <v>… R<m> <k>…`
        output only: `T <cls> <ticketer-hex> <contents> <amount>`
instrs  `TICKET` `READ_TICKET` `SPLIT_TICKET` `JOIN_TICKETS` `PAIR` `UNPAIR` `CAR` `CDR` `SOME` `NONE <ty>` `IF_NONE { … } { … }`
        `CONS` `NIL <ty>` `ITER { … }` `MAP { … }` `DUP` `DUPN:<n>` `SWAP` `DIG:<n>` `DUG:<n>` `DROP` `DIP { … }` `DIPN:<n> { … }`
        `PUSH <ty> <val>` `EMPTY_MAP <k> <v>` `EMPTY_BIG_MAP <k> <v>` `GET` `GET_AND_UPDATE` `UPDATE` `{ … }`
        `LEFT <ty>` `RIGHT <ty>` `IF_LEFT { … } { … }` `EMPTY_SET <ty>` `MEM` `LAMBDA <a> <b> { … }` `EXEC` `APPLY`
        (a lambda value is printed as `LAM <a> <b>`)
line    `seg <self-hex> { … } seg <self-hex> { … } …`   (segments run one after the other on the same stack, each with its
        own self address)
answer  `ok <typedStores 0|1> <static 0|1> <k> <val>…` (final stack, top first; `static` = every segment passed the type
        checker `wellTyped` against the stack it started on) | `err <segment>` | `unmodelled` | `fuel` -/

partial def readTy : List String → Option (Ty × List String)
  | "nat" :: r => some (.nat, r)
  | "string" :: r => some (.string, r)
  | "address" :: r => some (.address, r)
  | "unit" :: r => some (.unit, r)
  | "bool" :: r => some (.bool, r)
  | "pair" :: r => do
    let (a, r) ← readTy r
    let (b, r) ← readTy r
    pure (.pair a b, r)
  | "or" :: r => do
    let (a, r) ← readTy r
    let (b, r) ← readTy r
    pure (.or a b, r)
  | "set" :: r => (readTy r).map fun (t, r) => (.set t, r)
  | "lambda" :: r => do
    let (a, r) ← readTy r
    let (b, r) ← readTy r
    pure (.lambda a b, r)
  | "option" :: r => (readTy r).map fun (t, r) => (.option t, r)
  | "list" :: r => (readTy r).map fun (t, r) => (.list t, r)
  | "ticket" :: r => (readTy r).map fun (t, r) => (.ticket t, r)
  | "map" :: r => do
    let (a, r) ← readTy r
    let (b, r) ← readTy r
    pure (.map a b, r)
  | "big_map" :: r => do
    let (a, r) ← readTy r
    let (b, r) ← readTy r
    pure (.bigMap a b, r)
  | _ => none

def hexStr (h : String) : Option String := do
  let bs ← parseHex h
  String.fromUTF8? (ByteArray.mk (bs.map UInt8.ofNat).toArray)

def strHex (s : String) : String := toHex (s.toUTF8.data.toList.map UInt8.toNat)

def readAtom (t : String) : Option Atom :=
  let body := (t.drop 1).toString
  match t.front with
  | 'N' => body.toNat?.map .nat
  | 'S' => (hexStr body).map .str
  | 'A' => (hexStr body).map .addr
  | 'U' => if body == "" then some .unit else none
  | 'B' => if body == "1" then some (.bool true) else if body == "0" then some (.bool false) else none
  | _ => none

def readAtoms : Nat → List String → Option (List Atom × List String)
  | 0, ts => some ([], ts)
  | n + 1, t :: ts => do
    let a ← readAtom t
    let (as, r) ← readAtoms n ts
    pure (a :: as, r)
  | _, [] => none

mutual
  partial def readVal : List String → Option (Val × List String)
    | "U" :: r => some (.atom .unit, r)
    | "B0" :: r => some (.atom (.bool false), r)
    | "B1" :: r => some (.atom (.bool true), r)
    | "left" :: r => do
      let (v, r) ← readVal r
      let (t, r) ← readTy r
      pure (.left v t, r)
    | "right" :: r => do
      let (t, r) ← readTy r
      let (v, r) ← readVal r
      pure (.right t v, r)
    | "P" :: r => do
      let (a, r) ← readVal r
      let (b, r) ← readVal r
      pure (.pair a b, r)
    | "none" :: r => (readTy r).map fun (t, r) => (.none t, r)
    | "some" :: r => (readVal r).map fun (v, r) => (.some v, r)
    | t :: r =>
      let body := (t.drop 1).toString
      match t.front with
      | 'N' => body.toNat?.map fun n => (.atom (.nat n), r)
      | 'S' => (hexStr body).map fun s => (.atom (.str s), r)
      | 'A' => (hexStr body).map fun s => (.atom (.addr s), r)
      | 'L' => do
        let n ← body.toNat?
        let (ty, r) ← readTy r
        let (xs, r) ← readVals n r
        pure (.list ty xs, r)
      | 'E' => do
        let n ← body.toNat?
        let (ty, r) ← readTy r
        let (xs, r) ← readAtoms n r
        pure (.set ty xs, r)
      | 'M' => do
        let n ← body.toNat?
        match r with
        | b :: r =>
          let (kt, r) ← readTy r
          let (vt, r) ← readTy r
          let (kvs, r) ← readItems n r
          match r with
          | "R0" :: r => pure (.map (b == "1") kt vt (kvs.map (·.1)) (kvs.map (·.2)) [], r)
          | _ => none
        | [] => none
      | _ => none
    | [] => none
  partial def readItems : Nat → List String → Option (List (Atom × Val) × List String)
    | 0, ts => some ([], ts)
    | n + 1, t :: ts => do
      let k ← readAtom t
      let (v, r) ← readVal ts
      let (rest, r) ← readItems n r
      pure ((k, v) :: rest, r)
    | _, [] => none
  partial def readVals : Nat → List String → Option (List Val × List String)
    | 0, ts => some ([], ts)
    | n + 1, ts => do
      let (x, r) ← readVal ts
      let (xs, r) ← readVals n r
      pure (x :: xs, r)
end

mutual
  partial def readInstr : List String → Option (Instr × List String)
    | "{" :: r => (readBlockBody r).map fun (b, r) => (.seq b, r)
    | "NONE" :: r => (readTy r).map fun (t, r) => (.none t, r)
    | "NIL" :: r => (readTy r).map fun (t, r) => (.nil t, r)
    | "PUSH" :: r => do
      let (t, r) ← readTy r
      let (v, r) ← readVal r
      pure (.push t v, r)
    | "EMPTY_MAP" :: r => do
      let (k, r) ← readTy r
      let (v, r) ← readTy r
      pure (.emptyMap k v, r)
    | "EMPTY_BIG_MAP" :: r => do
      let (k, r) ← readTy r
      let (v, r) ← readTy r
      pure (.emptyBigMap k v, r)
    | "IF_NONE" :: r => do
      let (a, r) ← readBlock r
      let (b, r) ← readBlock r
      pure (.ifNone a b, r)
    | "IF_LEFT" :: r => do
      let (a, r) ← readBlock r
      let (b, r) ← readBlock r
      pure (.ifLeft a b, r)
    | "LEFT" :: r => (readTy r).map fun (t, r) => (.left t, r)
    | "RIGHT" :: r => (readTy r).map fun (t, r) => (.right t, r)
    | "EMPTY_SET" :: r => (readTy r).map fun (t, r) => (.emptySet t, r)
    | "LAMBDA" :: r => do
      let (a, r) ← readTy r
      let (b, r) ← readTy r
      let (body, r) ← readBlock r
      pure (.lambda a b body, r)
    | "ITER" :: r => (readBlock r).map fun (b, r) => (.iter b, r)
    | "MAP" :: r => (readBlock r).map fun (b, r) => (.map b, r)
    | "DIP" :: r => (readBlock r).map fun (b, r) => (.dip b, r)
    | t :: r =>
      match t.splitOn ":" with
      | ["DIPN", n] => do
        let n ← n.toNat?
        let (b, r) ← readBlock r
        pure (.dipN n b, r)
      | ["DUPN", n] => n.toNat?.map fun n => (.dupN n, r)
      | ["DIG", n] => n.toNat?.map fun n => (.dig n, r)
      | ["DUG", n] => n.toNat?.map fun n => (.dug n, r)
      | ["TICKET"] => some (.ticket, r)
      | ["READ_TICKET"] => some (.readTicket, r)
      | ["SPLIT_TICKET"] => some (.splitTicket, r)
      | ["JOIN_TICKETS"] => some (.joinTickets, r)
      | ["PAIR"] => some (.pair, r)
      | ["UNPAIR"] => some (.unpair, r)
      | ["CAR"] => some (.car, r)
      | ["CDR"] => some (.cdr, r)
      | ["SOME"] => some (.some, r)
      | ["CONS"] => some (.cons, r)
      | ["DUP"] => some (.dup, r)
      | ["SWAP"] => some (.swap, r)
      | ["DROP"] => some (.drop, r)
      | ["FAILWITH"] => some (.failwith, r)
      | ["GET"] => some (.get, r)
      | ["GET_AND_UPDATE"] => some (.getAndUpdate, r)
      | ["UPDATE"] => some (.update, r)
      | ["MEM"] => some (.mem, r)
      | ["EXEC"] => some (.exec, r)
      | ["APPLY"] => some (.apply, r)
      | _ => none
    | [] => none
  partial def readBlock : List String → Option (List Instr × List String)
    | "{" :: r => readBlockBody r
    | _ => none
  partial def readBlockBody : List String → Option (List Instr × List String)
    | "}" :: r => some ([], r)
    | ts => do
      let (i, r) ← readInstr ts
      let (is, r) ← readBlockBody r
      pure (i :: is, r)
end

partial def readSegs : List String → Option (List (String × List Instr))
  | [] => some []
  | "seg" :: a :: r => do
    let self ← hexStr a
    let (b, r) ← readBlock r
    let rest ← readSegs r
    pure ((self, b) :: rest)
  | _ => none

partial def showTy : Ty → List String
  | .nat => ["nat"] | .string => ["string"] | .address => ["address"] | .unit => ["unit"] | .bool => ["bool"]
  | .pair a b => "pair" :: showTy a ++ showTy b
  | .or a b => "or" :: showTy a ++ showTy b
  | .set t => "set" :: showTy t
  | .lambda a b => "lambda" :: showTy a ++ showTy b
  | .option t => "option" :: showTy t
  | .list t => "list" :: showTy t
  | .map k v => "map" :: showTy k ++ showTy v
  | .bigMap k v => "big_map" :: showTy k ++ showTy v
  | .ticket t => "ticket" :: showTy t
  | .ticketBare => ["ticket_bare"]

def showAtom : Atom → String
  | .nat n => "N" ++ toString n
  | .str s => "S" ++ strHex s
  | .addr s => "A" ++ strHex s
  | .unit => "U"
  | .bool b => if b then "B1" else "B0"

partial def showCmp : Cmp → List String
  | .atom a => [showAtom a]
  | .pair l r => "P" :: showCmp l ++ showCmp r

def insertSortedStr (x : String) : List String → List String
  | [] => [x]
  | y :: ys => if x ≤ y then x :: y :: ys else y :: insertSortedStr x ys

mutual
  partial def showVal : Val → List String
    | .atom a => [showAtom a]
    | .ticket cls tk ct a => "T" :: showTy cls ++ [strHex tk] ++ showCmp ct ++ [toString a]
    | .pair l r => "P" :: showVal l ++ showVal r
    | .none t => "none" :: showTy t
    | .some v => "some" :: showVal v
    | .list t xs => ("L" ++ toString xs.length) :: showTy t ++ showVals xs
    | .map big k v keys vals removed =>
      [("M" ++ toString keys.length), (if big then "1" else "0")] ++ showTy k ++ showTy v
        ++ showItems keys vals ++ [("R" ++ toString removed.length)] ++ (removed.map showAtom).foldr insertSortedStr []
    | .left v rt => "left" :: showVal v ++ showTy rt
    | .right lt v => "right" :: showTy lt ++ showVal v
    | .set t xs => ("E" ++ toString xs.length) :: showTy t ++ xs.map showAtom
    | .lam a b _ => "LAM" :: showTy a ++ showTy b          -- the code is observed through EXEC only
  partial def showVals : List Val → List String
    | [] => []
    | x :: xs => showVal x ++ showVals xs
  partial def showItems : List Atom → List Val → List String
    | k :: ks, v :: vs => showAtom k :: showVal v ++ showItems ks vs
    | _, _ => []
end

def fuelOf (prog : List String) : Nat := 50 * prog.length + 1000

partial def runSegs (fuel : Nat) (static : Bool) : Nat → List (String × List Instr) → State → String
  | _, [], s =>
    joinWith " " (["ok", (if s.typedStores then "1" else "0"), (if static then "1" else "0"), toString s.items.length] ++ showVals s.items)
  | j, (self, prog) :: rest, s =>
    match run cfg fuel prog { s with self := self, prot := 0 } with
    | .ok s' => runSegs fuel (static && wellTyped cfg prog s.items) (j + 1) rest s'
    | .error .fail => "err " ++ toString j
    | .error .unmodelled => "unmodelled"
    | .error .fuel => "fuel"

def handle (line : String) : String :=
  let ts := words line
  match readSegs ts with
  | some segs => runSegs (fuelOf ts) true 0 segs { items := [], prot := 0, self := "" }
  | none => "bad-op"

def main : IO Unit := mainWith handle
