import Driver.KeyIO
open Driver Driver.KeyIO Impl.Key

/-! `fse <curve> <secret hex> | …`                                   → `ok <curve> <pub> <sec>` | `err …`
    `import <key input> <passphrase hex|none> | …`                   → `ok <curve> <pub> <sec|none>` | `err …`
    `pk <curve> <pub> | …`  `pkh <curve> <pub> | …`                  → `ok <text hex>`
    `sk <curve> <pub> <sec|none> <passphrase hex|none> <edseed 0|1> <salt hex> | …` → `ok <text hex>` | `err …`
    `hashkey <text hex> | …`                                         → `ok <text hex>` | `err …`
    `mnemonic <i.i.i…>` (x = word not in the list, `-` = no words) | …  → `ok` | `err …`
    `fm <validate 0|1> <curve> <indices> <text hex> <passphrase hex> <email hex> | …` → key
    `tables` -/

def parseIdx (w : String) : Option (List (Option Nat)) :=
  if w = "-" then some []
  else (w.splitOn ".").mapM fun t => if t = "x" then some none else (t.toNat?).map some

def okText (r : Except Err Str) : String :=
  match r with
  | .ok s => s!"ok {toHex s}"
  | .error e => errStr e

def okKey (r : Except Err Key) : String :=
  match r with
  | .ok k => renderKey k
  | .error e => errStr e

def handle (line : String) : String :=
  let (ws, o) := splitLine line
  let P := mkPrims o
  let C := mkCodec o
  match ws with
  | ["fse", c, se] =>
    match parseCurve c, parseHex se with
    | some c, some se => okKey (fromSecretExponent P c se)
    | _, _ => "bad-op"
  | ["import", key, pass] =>
    match parsePyIn key, optHex pass with
    | some key, some pass => okKey (fromEncodedKey P C key pass)
    | _, _ => "bad-op"
  | ["pk", c, pub] =>
    match parseCurve c, parseHex pub with
    | some c, some pub => okText (publicKey C ⟨pub, none, c⟩)
    | _, _ => "bad-op"
  | ["pkh", c, pub] =>
    match parseCurve c, parseHex pub with
    | some c, some pub => okText (publicKeyHash P C ⟨pub, none, c⟩)
    | _, _ => "bad-op"
  | ["sk", c, pub, sec, pass, edseed, salt] =>
    match parseCurve c, parseHex pub, optHex sec, optHex pass, parseHex salt with
    | some c, some pub, some sec, some pass, some salt =>
      okText (secretKey P C ⟨pub, sec, c⟩ pass (edseed == "1") salt)
    | _, _, _, _, _ => "bad-op"
  | ["hashkey", a] =>
    match parseHex a with
    | some a => okText (hashKey P C a)
    | none => "bad-op"
  | ["mnemonic", idx] =>
    match parseIdx idx with
    | some ws =>
      match validateMnemonic P ws with
      | .ok _ => "ok"
      | .error e => errStr e
    | none => "bad-op"
  | ["fm", v, c, idx, text, pass, email] =>
    match parseCurve c, parseIdx idx, parseHex text, parseHex pass, parseHex email with
    | some c, some ws, some text, some pass, some email => okKey (fromMnemonic P ws text pass email (v == "1") c)
    | _, _, _, _, _ => "bad-op"
  | ["tables"] =>
    let rows (rs : List Row) := ",".intercalate (rs.map fun r => s!"{toHex r.human}/{r.encLen}/{toHex r.bin}/{r.dataLen}")
    s!"keyRows={rows keyRows} pkhRows={rows pkhRows} curves={repr Generated.C08.importCurves} lengths={repr Generated.C08.importLengths} importKdf={repr Generated.C08.importKdf} exportKdf={repr Generated.C08.exportKdf} mnemonic={repr Generated.C08.mnemonicLengths}"
  | _ => "bad-op"

def main : IO Unit := mainWith handle
