import Driver.Util
import PytezosModel.Michelson.AddressForge
open Driver Base58 Impl.Encoding Impl.AddrForge

/-! line protocol (strings and bytes in hex, `-` = empty); last word = `<cks>` (`key:check,…`, `-` for none):
the real double-SHA-256 checksums of the byte strings the call may need, computed by the harness.
  `fa <0|1> <value>`  forge_address(value, tz_only)      `ua <data>`   unforge_address
  `fc <value>`        forge_contract                     `uc <data>`   unforge_contract
  `fpk <value>`       forge_public_key                   `upk <data>`  unforge_public_key
  `fb58 <value>`      forge_base58                       `uci <data>` / `usig <data>`  unforge_chain_id / _signature
  `bu <data>`         the first four attempts of blind_unpack (chain id, address, public key, signature)
  `tw <type> <value>` Type.from_micheline_value({'string': value}).to_micheline_value('optimized')
  `tr <type> <data>`  Type.from_micheline_value({'bytes': data}).to_micheline_value('readable')
output `ok <hex>` | `err ValueError` | `err KeyError` | `other` | `err` (typed streams: any error).
A checksum that is needed but was not supplied is reported (`err cks-missing`), never defaulted. -/

def parsePairs (s : String) : Option (List (List Nat × List Nat)) :=
  if s = "-" then some [] else
  (s.splitOn ",").mapM fun kv =>
    match kv.splitOn ":" with
    | [k, c] => do let k ← parseHex k; let c ← parseHex c; pure (k, c)
    | _ => none

def cksOf (pairs : List (List Nat × List Nat)) (v : List Nat) : List Nat :=
  match pairs.find? (·.1 == v) with
  | some p => p.2
  | none => []

def hasKey (pairs : List (List Nat × List Nat)) (v : List Nat) : Bool := pairs.any (·.1 == v)

/-- the byte string whose checksum a Base58Check string carries -/
def bodyOf (s : List Nat) : Option (List Nat) :=
  (b58dec (rstrip s)).map fun r => r.take (r.length - 4)

/-- a value handed in: its checksum must have been supplied (if it decodes at all) -/
def inputCovered (pairs : List (List Nat × List Nat)) (s : List Nat) : Bool :=
  match bodyOf s with
  | none => true
  | some b => hasKey pairs b

def render (pairs : List (List Nat × List Nat)) : Except Impl.AddrForge.Err (List Nat) → Bool → String
  | .ok v, isString =>
    if isString && !(inputCovered pairs (v.takeWhile (· != 37))) then "err cks-missing" else s!"ok {toHex v}"
  | .error .unrecognisedSource, _ => "unrecognised-source"
  | .error .valueError, _ => "err ValueError"
  | .error .keyError, _ => "err KeyError"
  | .error .nonAscii, _ => "out-of-model"

/-- `blind_unpack`: `with suppress(ValueError)` / `(ValueError, KeyError)` around the four typed readers -/
def blindUnpack (cks : List Nat → List Nat) (data : List Nat) : Option (List Nat) :=
  match unforgeChainId cks data with
  | .ok s => some s
  | .error _ =>
    match unforgeAddress cks data with
    | .ok s => some s
    | .error _ =>
      match unforgePublicKey cks data with
      | .ok s => some s
      | .error _ =>
        match unforgeSignature cks data with
        | .ok s => some s
        | .error _ => none

def isK (cks : List Nat → List Nat) (name : String) (s : List Nat) : Bool := isKind cks name s == some true

/-- `is_address(v)`: `v.split('%')[0]` is a KT1, tz or sr1 string -/
def isAddress (cks : List Nat → List Nat) (v : List Nat) : Bool :=
  let a := v.takeWhile (· != 37)
  isK cks "is_kt" a || isK cks "is_pkh" a || isK cks "is_sr" a

def isTxrAddress (cks : List Nat → List Nat) (v : List Nat) : Bool := isK cks "is_l2_pkh" (v.takeWhile (· != 37))

def percentDefault : List Nat := 37 :: defaultName

/-- `from_value` of AddressType / TXRAddress: `address, _, entrypoint = value.partition('%')`, then
`if entrypoint == 'default': value = address` (only the exact name is the default entrypoint) -/
def normAddr (v : List Nat) : List Nat :=
  let address := v.takeWhile (· != 37)
  if v.drop address.length = percentDefault then address else v

/-- `Type.from_value` (normalise + assert), `none` = AssertionError -/
def fromValue (cks : List Nat → List Nat) (ty : String) (v : List Nat) : Option (List Nat) :=
  match ty with
  | "address" | "contract" => let v := normAddr v; if isAddress cks v then some v else none
  | "txr" => let v := normAddr v; if isTxrAddress cks v then some v else none
  | "key" => if isK cks "is_public_key" v then some v else none
  | "key_hash" => if isK cks "is_pkh" v then some v else none
  | "signature" => if isK cks "is_sig" v then some v else none
  | "chain_id" => if isK cks "is_chain_id" v then some v else none
  | _ => none

def typedWrite (cks : List Nat → List Nat) (ty : String) (v : List Nat) : Option (List Nat) :=
  match fromValue cks ty v with
  | none => none
  | some v =>
    let r := match ty with
      | "address" | "contract" | "txr" => forgeContract cks v
      | "key" => forgePublicKey cks v
      | "key_hash" => forgeAddress cks v true
      | _ => forgeBase58 cks v
    r.toOption

def typedRead (cks : List Nat → List Nat) (ty : String) (d : List Nat) : Option (Except Unit (List Nat)) :=
  let r := match ty with
    | "address" | "contract" | "txr" => unforgeContract cks d
    | "key" => unforgePublicKey cks d
    | "key_hash" => unforgeAddress cks d
    | "signature" => unforgeSignature cks d
    | _ => unforgeChainId cks d
  match r with
  | .error .nonAscii => none
  | .error _ => some (.error ())
  | .ok v => some (match fromValue cks ty v with | some v => .ok v | none => .error ())

def handle (line : String) : String :=
  let ws := words line
  match ws.getLast?, ws.dropLast with
  | some ps, op :: args =>
    match parsePairs ps with
    | none => "bad-op"
    | some pairs =>
      let cks := cksOf pairs
      match op, args with
      | "fa", [tz, v] =>
        match parseHex v with
        | some v => if !inputCovered pairs v then "err cks-missing" else render pairs (forgeAddress cks v (tz == "1")) false
        | none => "bad-op"
      | "fc", [v] =>
        match parseHex v with
        | some v =>
          if !inputCovered pairs (v.takeWhile (· != 37)) then "err cks-missing" else render pairs (forgeContract cks v) false
        | none => "bad-op"
      | "fpk", [v] =>
        match parseHex v with
        | some v => if !inputCovered pairs v then "err cks-missing" else render pairs (forgePublicKey cks v) false
        | none => "bad-op"
      | "fb58", [v] =>
        match parseHex v with
        | some v => if !inputCovered pairs v then "err cks-missing" else render pairs (forgeBase58 cks v) false
        | none => "bad-op"
      | "ua", [d] => match parseHex d with | some d => render pairs (unforgeAddress cks d) true | none => "bad-op"
      | "uc", [d] => match parseHex d with | some d => render pairs (unforgeContract cks d) true | none => "bad-op"
      | "upk", [d] => match parseHex d with | some d => render pairs (unforgePublicKey cks d) true | none => "bad-op"
      | "uci", [d] => match parseHex d with | some d => render pairs (unforgeChainId cks d) true | none => "bad-op"
      | "usig", [d] => match parseHex d with | some d => render pairs (unforgeSignature cks d) true | none => "bad-op"
      | "bu", [d] =>
        match parseHex d with
        | some d =>
          match blindUnpack cks d with
          | some s => if !inputCovered pairs s then "err cks-missing" else s!"ok {toHex s}"
          | none => "other"
        | none => "bad-op"
      | "tw", [ty, v] =>
        match parseHex v with
        | some v =>
          if !inputCovered pairs (v.takeWhile (· != 37)) then "err cks-missing" else
          match typedWrite cks ty v with
          | some b => s!"ok {toHex b}"
          | none => "err"
        | none => "bad-op"
      | "tr", [ty, d] =>
        match parseHex d with
        | some d =>
          match typedRead cks ty d with
          | none => "out-of-model"
          | some (.error _) => "err"
          | some (.ok s) => if !inputCovered pairs (s.takeWhile (· != 37)) then "err cks-missing" else s!"ok {toHex s}"
        | none => "bad-op"
      | "tables", [] =>
        joinWith " " (Generated.C10.forgeAddressChain.map fun e => s!"{toHex e.1}:{toHex e.2.1}:{toHex e.2.2}") ++ " | " ++
        joinWith " " (Generated.C10.keyTagOfPrefix.map fun e => s!"{toHex e.1}:{e.2}")
      | _, _ => "bad-op"
  | _, _ => "bad-op"

def main : IO Unit := mainWith handle
