import Driver.Util
import PytezosModel.Michelson.AddressForge
import PytezosModel.Crypto.RealHash
open Driver Base58 Impl.Encoding Impl.AddrForge

/-! line protocol (strings and bytes in hex, `-` = empty):
  `fa <0|1> <value>`  forge_address(value, tz_only)      `ua <data>`   unforge_address
  `fc <value>`        forge_contract                     `uc <data>`   unforge_contract
  `fpk <value>`       forge_public_key                   `upk <data>`  unforge_public_key
  `fb58 <value>`      forge_base58                       `uci <data>` / `usig <data>`  unforge_chain_id / _signature
  `bu <data>`         the first four attempts of blind_unpack (chain id, address, public key, signature)
  `tw <type> <value>` Type.from_micheline_value({'string': value}).to_micheline_value('optimized')
  `tr <type> <data>`  Type.from_micheline_value({'bytes': data}).to_micheline_value('readable')
output `ok <hex>` | `err ValueError` | `err KeyError` | `other` | `err` (typed streams: any error).
The Base58Check checksum is `RealHash.cks` (executable double SHA-256): the address / key / signature strings the
reading direction prints are computed entirely by the model, nothing is handed in by the harness. -/

def cks : List Nat → List Nat := RealHash.cks

def render : Except Impl.AddrForge.Err (List Nat) → String
  | .ok v => s!"ok {toHex v}"
  | .error .unrecognisedSource => "unrecognised-source"
  | .error .valueError => "err ValueError"
  | .error .keyError => "err KeyError"
  | .error .nonAscii => "out-of-model"

/-- `blind_unpack`: `with suppress(ValueError)` / `(ValueError, KeyError)` around the four typed readers -/
def blindUnpack (cks : List Nat → List Nat) (data : List Nat) : Option (List Nat) :=
  match unforgeChainId cks data with
  | .ok s => some s
  | .error _ =>
    match unforgeAddress cks data with
    | .ok s => some s
    | .error _ =>
      match unforgePublicKey cks data with
      | .ok s => some s
      | .error _ =>
        match unforgeSignature cks data with
        | .ok s => some s
        | .error _ => none

def isK (cks : List Nat → List Nat) (name : String) (s : List Nat) : Bool := isKind cks name s == some true

/-- `is_address(v)`: `v.split('%')[0]` is a KT1, tz or sr1 string -/
def isAddress (cks : List Nat → List Nat) (v : List Nat) : Bool :=
  let a := v.takeWhile (· != 37)
  isK cks "is_kt" a || isK cks "is_pkh" a || isK cks "is_sr" a

def isTxrAddress (cks : List Nat → List Nat) (v : List Nat) : Bool := isK cks "is_l2_pkh" (v.takeWhile (· != 37))

def percentDefault : List Nat := 37 :: defaultName

/-- `from_value` of AddressType / TXRAddress: `address, _, entrypoint = value.partition('%')`, then
`if entrypoint == 'default': value = address` (only the exact name is the default entrypoint) -/
def normAddr (v : List Nat) : List Nat :=
  let address := v.takeWhile (· != 37)
  if v.drop address.length = percentDefault then address else v

/-- `Type.from_value` (normalise + assert), `none` = AssertionError -/
def fromValue (cks : List Nat → List Nat) (ty : String) (v : List Nat) : Option (List Nat) :=
  match ty with
  | "address" | "contract" => let v := normAddr v; if isAddress cks v then some v else none
  | "txr" => let v := normAddr v; if isTxrAddress cks v then some v else none
  | "key" => if isK cks "is_public_key" v then some v else none
  | "key_hash" => if isK cks "is_pkh" v then some v else none
  | "signature" => if isK cks "is_sig" v then some v else none
  | "chain_id" => if isK cks "is_chain_id" v then some v else none
  | _ => none

def typedWrite (cks : List Nat → List Nat) (ty : String) (v : List Nat) : Option (List Nat) :=
  match fromValue cks ty v with
  | none => none
  | some v =>
    let r := match ty with
      | "address" | "contract" | "txr" => forgeContract cks v
      | "key" => forgePublicKey cks v
      | "key_hash" => forgeAddress cks v true
      | _ => forgeBase58 cks v
    r.toOption

def typedRead (cks : List Nat → List Nat) (ty : String) (d : List Nat) : Option (Except Unit (List Nat)) :=
  let r := match ty with
    | "address" | "contract" | "txr" => unforgeContract cks d
    | "key" => unforgePublicKey cks d
    | "key_hash" => unforgeAddress cks d
    | "signature" => unforgeSignature cks d
    | _ => unforgeChainId cks d
  match r with
  | .error .nonAscii => none
  | .error _ => some (.error ())
  | .ok v => some (match fromValue cks ty v with | some v => .ok v | none => .error ())

def withHex (h : String) (f : List Nat → String) : String :=
  match parseHex h with
  | some v => f v
  | none => "bad-op"

def handle (line : String) : String :=
  match words line with
  | ["fa", tz, v] => withHex v fun v => render (forgeAddress cks v (tz == "1"))
  | ["fc", v] => withHex v fun v => render (forgeContract cks v)
  | ["fpk", v] => withHex v fun v => render (forgePublicKey cks v)
  | ["fb58", v] => withHex v fun v => render (forgeBase58 cks v)
  | ["ua", d] => withHex d fun d => render (unforgeAddress cks d)
  | ["uc", d] => withHex d fun d => render (unforgeContract cks d)
  | ["upk", d] => withHex d fun d => render (unforgePublicKey cks d)
  | ["uci", d] => withHex d fun d => render (unforgeChainId cks d)
  | ["usig", d] => withHex d fun d => render (unforgeSignature cks d)
  | ["bu", d] => withHex d fun d =>
    match blindUnpack cks d with
    | some s => s!"ok {toHex s}"
    | none => "other"
  | ["tw", ty, v] => withHex v fun v =>
    match typedWrite cks ty v with
    | some b => s!"ok {toHex b}"
    | none => "err"
  | ["tr", ty, d] => withHex d fun d =>
    match typedRead cks ty d with
    | none => "out-of-model"
    | some (.error _) => "err"
    | some (.ok s) => s!"ok {toHex s}"
  | ["tables"] =>
    joinWith " " (Generated.C10.forgeAddressChain.map fun e => s!"{toHex e.1}:{toHex e.2.1}:{toHex e.2.2}") ++ " | " ++
    joinWith " " (Generated.C10.keyTagOfPrefix.map fun e => s!"{toHex e.1}:{e.2}")
  | _ => "bad-op"

def main : IO Unit := mainWith handle
