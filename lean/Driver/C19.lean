import Driver.MichIO
import PytezosModel.Michelson.Macros
import PytezosModel.Michelson.MacroSem
open Driver

/-! lines (tokens separated by one space; names and annotations hex-encoded utf8, Micheline as in MichIO):

* `X <name> <nannots> <annot>… <nargs> <arg>…`          →  `ok <expansion>` | `err <kind>`
* `E <name> <nannots> <annot>… <nargs> <arg>… <stack>`  →  the reference evaluator run on the model's expansion:
  `ok <stack>` | `failed <value>` | `err` | `xerr <kind>` (expansion rejected); `<stack>` is `L<n> <value>…`, top first.
  Values: ints, strings (opaque atoms), `Pair a b`, `Some v`, `None`, `Left v`, `Right v`, `True`, `False`, `Unit`. -/

def errName : Impl.Macros.Err → String
  | .assertion => "assertion"
  | .indexError => "indexError"
  | .unrecognised => "unrecognised-source"
  | .fuel => "fuel"

partial def valOfMich : Mich → Option Sem.Val
  | .int i => some (.int i)
  | .str s => some (.atom s)
  | .prim "Pair" [a, b] _ => do pure (.pair (← valOfMich a) (← valOfMich b))
  | .prim "Some" [a] _ => do pure (.some (← valOfMich a))
  | .prim "None" [] _ => some .none
  | .prim "Left" [a] _ => do pure (.left (← valOfMich a))
  | .prim "Right" [a] _ => do pure (.right (← valOfMich a))
  | .prim "True" [] _ => some (.bool true)
  | .prim "False" [] _ => some (.bool false)
  | .prim "Unit" [] _ => some .unit
  | _ => none

partial def michOfVal : Sem.Val → Mich
  | .int i => .int i
  | .atom s => .str s
  | .pair a b => .prim "Pair" [michOfVal a, michOfVal b] []
  | .some a => .prim "Some" [michOfVal a] []
  | .none => .prim "None" [] []
  | .left a => .prim "Left" [michOfVal a] []
  | .right a => .prim "Right" [michOfVal a] []
  | .bool true => .prim "True" [] []
  | .bool false => .prim "False" [] []
  | .unit => .prim "Unit" [] []

/-- the harness only uses `PUSH` besides the primitives the reference evaluator knows -/
def driverExt : Sem.Ext := fun p args _ S =>
  match p, args with
  | "PUSH", [_, v] => match valOfMich v with
    | some x => .ok (x :: S)
    | none => .err
  | _, _ => .err

structure Call where
  name : List Char
  annots : List String
  args : List Mich

def readCall : List String → Option (Call × List String)
  | name :: nn :: rest => do
    let name ← hexToString name
    let nn ← nn.toNat?
    let annHex := rest.take nn
    if annHex.length ≠ nn then none
    let annots ← annHex.mapM hexToString
    if annots.any (·.isEmpty) then none
    match rest.drop nn with
    | na :: rest => do
      let na ← na.toNat?
      let (args, rest) ← readMany na rest
      pure (⟨name.toList, annots, args⟩, rest)
    | [] => none
  | _ => none

def handle (line : String) : String :=
  match words line with
  | "X" :: rest =>
    match readCall rest with
    | some (c, []) =>
      match Impl.Macros.expandMacro c.name c.annots c.args with
      | .ok m => "ok " ++ michToLine m
      | .error e => "err " ++ errName e
    | _ => "bad-op"
  | "E" :: rest =>
    match readCall rest with
    | some (c, rest) =>
      match parseMichTokens rest with
      | some (.seq vs) =>
        match vs.mapM valOfMich with
        | some S =>
          match Impl.Macros.expandMacro c.name c.annots c.args with
          | .ok m =>
            match Sem.eval driverExt m S with
            | .ok S' => "ok " ++ michToLine (.seq (S'.map michOfVal))
            | .failed v => "failed " ++ michToLine (michOfVal v)
            | .err => "err"
          | .error e => "xerr " ++ errName e
        | none => "bad-op"
      | _ => "bad-op"
    | none => "bad-op"
  | _ => "bad-op"

def main : IO Unit := mainWith handle
