import Driver.Util
import PytezosModel.Michelson.Bls
/-! Line protocol for C21.  The `Impl` functions of `PytezosModel.Michelson.Bls` are run over two executable
instances of the abstract py_ecc interface:

* `realEnv` — projective arithmetic over `FQ` / `FQ2` written after `py_ecc.optimized_bls12_381`
  (`double`, `add`, `multiply`, `neg`, `normalize`, `is_inf`); used for ADD / MUL / NEG and the codec lines;
* `tableEnv` — the groups `k ↦ k·G1`, `k ↦ k·G2` and `GT` written additively as integers modulo `r` (the harness
  generates every point as a known multiple of the generator and sends `coordinates ↦ k`); used for PAIRING_CHECK,
  whose real Miller loop is far too slow for an interpreted driver.

lines                                         output
  CONST                                        q=<py_ecc field modulus of the model> r=<subgroup order> modulus=<Fr modulus read from the source>
  PUSHFR int:<z> | frb:<hex>                   fr:<int>:<hex32le> | err:…
  ADD <v> <v> | MUL <v> <v> | NEG <v> | INT <v>   g1:<hex> | g2:<hex> | fr:<int>:<hex> | int:<z> | nat:<n> | err:types | err:other
  ENC g1|g2 <k>                                hex of from_point(multiply(G, k))
  DEC g1|g2 <hex>                              affine coordinates of to_point(hex) (`inf` for the neutral element)
  PAIRING <g1hex>:<k>,<g2hex>:<k> …            bool:true | bool:false | bad-table
with <v> ::= g1:<hex> | g2:<hex> | fr:<z> | frb:<hex> | int:<z> | nat:<n>   (the first operand is the top of the stack). -/
open Driver Bls Core

namespace Curve

def powMod (b e m : Nat) : Nat := go 800 b e 1
where
  go : Nat → Nat → Nat → Nat → Nat
    | 0, _, _, acc => acc
    | fuel + 1, b, e, acc =>
      if e = 0 then acc else go fuel (b * b % m) (e / 2) (if e % 2 = 1 then acc * b % m else acc)

structure FieldOps where
  F : Type
  zero : F
  one : F
  add : F → F → F
  sub : F → F → F
  mul : F → F → F
  neg : F → F
  inv : F → F
  eq : F → F → Bool
  /-- the integer `n` as a field element -/
  small : Nat → F
  toNats : F → List Nat

@[reducible] def fq : FieldOps where
  F := Nat
  zero := 0
  one := 1
  add a b := (a + b) % q
  sub a b := (a + q - b) % q
  mul a b := a * b % q
  neg a := (q - a) % q
  inv a := powMod a (q - 2) q
  eq a b := a == b
  small n := n % q
  toNats a := [a]

@[reducible] def fq2 : FieldOps where
  F := Nat × Nat
  zero := (0, 0)
  one := (1, 0)
  add a b := ((a.1 + b.1) % q, (a.2 + b.2) % q)
  sub a b := ((a.1 + q - b.1) % q, (a.2 + q - b.2) % q)
  mul a b := ((a.1 * b.1 + (q * q - a.2 * b.2)) % q, (a.1 * b.2 + a.2 * b.1) % q)
  neg a := ((q - a.1) % q, (q - a.2) % q)
  inv a :=
    let n := powMod ((a.1 * a.1 + a.2 * a.2) % q) (q - 2) q
    (a.1 * n % q, (q - a.2) % q * n % q)
  eq a b := a == b
  small n := (n % q, 0)
  toNats a := [a.1, a.2]

variable (Fd : FieldOps)

abbrev Pt := Fd.F × Fd.F × Fd.F

def isInf (p : Pt Fd) : Bool := Fd.eq p.2.2 Fd.zero

/-- `optimized_curve.double` -/
def double (p : Pt Fd) : Pt Fd :=
  let (x, y, z) := p
  let m := Fd.mul
  let W := m (Fd.small 3) (m x x)
  let S := m y z
  let B := m (m x y) S
  let H := Fd.sub (m W W) (m (Fd.small 8) B)
  let S2 := m S S
  let newx := m (m (Fd.small 2) H) S
  let newy := Fd.sub (m W (Fd.sub (m (Fd.small 4) B) H)) (m (m (m (Fd.small 8) y) y) S2)
  let newz := m (m (Fd.small 8) S) S2
  (newx, newy, newz)

/-- `optimized_curve.add` -/
def add (p1 p2 : Pt Fd) : Pt Fd :=
  if isInf Fd p1 || isInf Fd p2 then (if isInf Fd p2 then p1 else p2)
  else
    let (x1, y1, z1) := p1
    let (x2, y2, z2) := p2
    let m := Fd.mul
    let U1 := m y2 z1
    let U2 := m y1 z2
    let V1 := m x2 z1
    let V2 := m x1 z2
    if Fd.eq V1 V2 && Fd.eq U1 U2 then double Fd p1
    else if Fd.eq V1 V2 then (Fd.one, Fd.one, Fd.zero)
    else
      let U := Fd.sub U1 U2
      let V := Fd.sub V1 V2
      let V2s := m V V
      let V2sV2 := m V2s V2
      let V3 := m V V2s
      let W := m z1 z2
      let A := Fd.sub (Fd.sub (m (m U U) W) V3) (m (Fd.small 2) V2sV2)
      (m V A, Fd.sub (m U (Fd.sub V2sV2 A)) (m V3 U2), m V3 W)

/-- `optimized_curve.multiply` (the recursion halves `n`; 600 levels cover every scalar below 2^600) -/
def multiply (p : Pt Fd) (n : Nat) : Pt Fd := go 600 p n
where
  go : Nat → Pt Fd → Nat → Pt Fd
    | 0, _, _ => (Fd.one, Fd.one, Fd.zero)
    | fuel + 1, p, n =>
      if n = 0 then (Fd.one, Fd.one, Fd.zero)
      else if n = 1 then p
      else if n % 2 = 0 then go fuel (double Fd p) (n / 2)
      else add Fd (go fuel (double Fd p) (n / 2)) p

def neg (p : Pt Fd) : Pt Fd := (p.1, Fd.neg p.2.1, p.2.2)

def normalize (p : Pt Fd) : List Nat :=
  let zi := Fd.inv p.2.2
  Fd.toNats (Fd.mul p.1 zi) ++ Fd.toNats (Fd.mul p.2.1 zi)

def ops (ofAffine : List Nat → Pt Fd) : CurveOps where
  G := Pt Fd
  zero := (Fd.one, Fd.one, Fd.zero)
  add := add Fd
  neg := neg Fd
  mul := multiply Fd
  isInf := isInf Fd
  normalize := normalize Fd
  ofAffine := ofAffine

end Curve

open Curve in
/-- `(FQ(x), FQ(y), FQ(1))` -/
def g1OfAffine (cs : List Nat) : Pt fq :=
  match cs with
  | [x, y] => (x % q, y % q, 1)
  | _ => (1, 1, 0)

open Curve in
/-- `(FQ2([x_re, x_im]), FQ2([y_re, y_im]), FQ2([1, 0]))` -/
def g2OfAffine (cs : List Nat) : Pt fq2 :=
  match cs with
  | [xr, xi, yr, yi] => ((xr % q, xi % q), (yr % q, yi % q), (1, 0))
  | _ => ((1, 0), (1, 0), (0, 0))

def gen1 : Curve.Pt Curve.fq :=
  (3685416753713387016781088315183077757961620795782546409894578378688607592378376318836054947676345821548104185464507,
   1339506544944476473020471379941921221584933875938349620426543736416511423956333506472724655353366534992391756441569, 1)

def gen2 : Curve.Pt Curve.fq2 :=
  ((352701069587466618187139116011060144890029952792775240219908644239793785735715026873347600343865175952761926303160,
    3059144344244213709971259814753781636986470325476647558659373206291635324768958432433509563104347017837885763365758),
   (1985150602287291935568054521177171638300868978215655730859378665066344726373823718423869104263333984641494340347905,
    927553665492332455747201965776037880757740193453592970025027978793976877002675564980949289727957565575433344219582),
   (1, 0))

/-- the target group is never used by the lines served with real curve arithmetic -/
def realEnv : Env where
  K1 := Curve.ops Curve.fq g1OfAffine
  K2 := Curve.ops Curve.fq2 g2OfAffine
  T := { GT := Unit, one := (), mul := fun _ _ => (), isOne := fun _ => true }
  pairing := fun _ _ => ()

/-- discrete-log instance: the point `k·G` is the integer `k` modulo `r`; coordinates are looked up in the table
the harness sends with the line -/
def tableOps (tbl : List (List Nat × Nat)) : CurveOps where
  G := Nat
  zero := 0
  add a b := (a + b) % r
  neg a := (r - a) % r
  mul a k := a * k % r
  isInf a := a == 0
  normalize a := match tbl.find? (·.2 == a) with | some row => row.1 | none => []
  ofAffine cs := match tbl.find? (·.1 == cs) with | some row => row.2 | none => 0

def tableEnv (t1 t2 : List (List Nat × Nat)) : Env where
  K1 := tableOps t1
  K2 := tableOps t2
  T := { GT := Nat, one := 0, mul := fun a b => (a + b) % r, isOne := fun a => a == 0 }
  pairing := fun (b : Nat) (a : Nat) => a * b % r

/-! ### protocol -/

def parseVal (s : String) : Option (R Val) :=
  match s.splitOn ":" with
  | ["g1", h] => (parseHex h).map fun b => .ok (.pt .g1 b)
  | ["g2", h] => (parseHex h).map fun b => .ok (.pt .g2 b)
  | ["fr", z] => z.toInt?.map pushFrInt
  | ["frb", h] => (parseHex h).map pushFrBytes
  | ["int", z] => z.toInt?.map fun v => .ok (.num .int v)
  | ["nat", z] => z.toNat?.map fun v => .ok (.num .nat v)
  | _ => none

def showErr : Err → String
  | .types => "err:types"
  | .unrecognisedSource => "unrecognised-source"
  | .notModelled => "not-modelled"
  | _ => "err:other"

def showVal (v : Val) : String :=
  match v with
  | .pt .g1 b => "g1:" ++ toHex b
  | .pt .g2 b => "g2:" ++ toHex b
  | .pt _ b => "bytes:" ++ toHex b
  | .num .fr z =>
    match frBytes v with
    | .ok b => s!"fr:{z}:{toHex b}"
    | .error _ => s!"fr:{z}:err"
  | .num .int z => s!"int:{z}"
  | .num .nat z => s!"nat:{z}"
  | .num _ z => s!"num:{z}"
  | .bool b => if b then "bool:true" else "bool:false"

def showR : R Val → String
  | .ok v => showVal v
  | .error e => showErr e

def un (f : Val → R Val) (a : String) : String :=
  match parseVal a with
  | some (.ok x) => showR (f x)
  | some (.error e) => showErr e
  | none => "bad-op"

def bin (f : Val → Val → R Val) (a b : String) : String :=
  match parseVal a, parseVal b with
  | some (.ok x), some (.ok y) => showR (f x y)
  | some (.error e), some _ => showErr e
  | some _, some (.error e) => showErr e
  | _, _ => "bad-op"

/-- `<g1hex>:<k>,<g2hex>:<k>` -/
def parsePair (s : String) : Option ((Bytes × Nat) × (Bytes × Nat)) :=
  match s.splitOn "," with
  | [a, b] =>
    match a.splitOn ":", b.splitOn ":" with
    | [h1, k1], [h2, k2] => do
      let b1 ← parseHex h1
      let n1 ← k1.toNat?
      let b2 ← parseHex h2
      let n2 ← k2.toNat?
      pure ((b1, n1), (b2, n2))
    | _, _ => none
  | _ => none

/-- every decoded coordinate list must be the infinity pattern the source decodes, or an entry of the table -/
def covered (L : Generated.C21.PointLayout) (tbl : List (List Nat × Nat)) (b : Bytes) : Bool :=
  let cs := readCoords L b
  L.decodeInf == some cs || tbl.any (·.1 == cs)

def pairingLine (S : Src) (args : List String) : String :=
  match args.mapM parsePair with
  | none => "bad-op"
  | some ps =>
    let t1 := ps.filterMap fun p => if p.1.2 % r == 0 then none else some (readCoords S.L1 p.1.1, p.1.2 % r)
    let t2 := ps.filterMap fun p => if p.2.2 % r == 0 then none else some (readCoords S.L2 p.2.1, p.2.2 % r)
    if ps.all fun p => covered S.L1 t1 p.1.1 && covered S.L2 t2 p.2.1 then
      showR (PAIRING_CHECK (tableEnv t1 t2) (ps.map fun p => (p.1.1, p.2.1)))
    else "bad-table"

def showCoords (inf : Bool) (cs : List Nat) : String :=
  if inf then "inf" else joinWith "," (cs.map toString)

def handle (line : String) : String :=
  match src with
  | none => "unrecognised-source"
  | some S =>
    if S.L1.read.length != 2 || S.L2.read.length != 4 then "unrecognised-source" else
    match words line with
    | ["CONST"] => s!"q={q} r={r} modulus={S.modulus}"
    | ["PUSHFR", a] => un (fun v => .ok v) a
    | ["ADD", a, b] => bin (ADD realEnv) a b
    | ["MUL", a, b] => bin (MUL realEnv) a b
    | ["NEG", a] => un (NEG realEnv) a
    | ["INT", a] => un INT a
    | ["ENC", "g1", k] =>
      match k.toNat? with
      | some k => match enc1 realEnv (realEnv.K1.mul gen1 k) with | .ok b => toHex b | .error e => showErr e
      | none => "bad-op"
    | ["ENC", "g2", k] =>
      match k.toNat? with
      | some k => match enc2 realEnv (realEnv.K2.mul gen2 k) with | .ok b => toHex b | .error e => showErr e
      | none => "bad-op"
    | ["DEC", "g1", h] =>
      match parseHex h with
      | some b => match dec1 realEnv b with
        | .ok P => showCoords (realEnv.K1.isInf P) (realEnv.K1.normalize P)
        | .error e => showErr e
      | none => "bad-op"
    | ["DEC", "g2", h] =>
      match parseHex h with
      | some b => match dec2 realEnv b with
        | .ok P => showCoords (realEnv.K2.isInf P) (realEnv.K2.normalize P)
        | .error e => showErr e
      | none => "bad-op"
    | "PAIRING" :: args => pairingLine S args
    | _ => "bad-op"

def main : IO Unit := mainWith handle
