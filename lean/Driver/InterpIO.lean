import Driver.MichIO
import PytezosModel.Michelson.Interp.Syntax
/-! Micheline ↔ the interpreter model's `Ty` / `Val` / `Instr` (driver boundary; mirrors `PUSH`'s
`from_literal` for the modelled types; exercised by the correspondence only). -/
namespace Driver
open Interp

def codes (s : String) : List Nat := s.toList.map Char.toNat
def uncodes (cs : List Nat) : String := String.ofList (cs.map Char.ofNat)

partial def tyOfMich : Mich → Option Ty
  | .prim "unit" [] _ => some .unit
  | .prim "bool" [] _ => some .bool
  | .prim "int" [] _ => some .int
  | .prim "nat" [] _ => some .nat
  | .prim "mutez" [] _ => some .mutez
  | .prim "timestamp" [] _ => some .timestamp
  | .prim "string" [] _ => some .string
  | .prim "bytes" [] _ => some .bytes
  | .prim "address" [] _ => some .address
  | .prim "chain_id" [] _ => some .chainId
  | .prim "never" [] _ => some .never
  | .prim "key_hash" [] _ => some .keyHash
  | .prim "key" [] _ => some .key
  | .prim "signature" [] _ => some .signature
  | .prim "operation" [] _ => some .operation
  | .prim "contract" [a] _ => (tyOfMich a).map .contract
  | .prim "option" [a] _ => (tyOfMich a).map .option
  | .prim "list" [a] _ => (tyOfMich a).map .list
  | .prim "or" [a, b] _ => do pure (.or (← tyOfMich a) (← tyOfMich b))
  | .prim "pair" [a, b] _ => do pure (.pair (← tyOfMich a) (← tyOfMich b))
  | .prim "pair" (a :: b :: c :: rest) an => do pure (.pair (← tyOfMich a) (← tyOfMich (.prim "pair" (b :: c :: rest) an)))
  | .prim "lambda" [a, b] _ => do pure (.lambda (← tyOfMich a) (← tyOfMich b))
  | .prim "map" [a, b] _ => do pure (.map (← tyOfMich a) (← tyOfMich b))
  | .prim "set" [a] _ => (tyOfMich a).map .set
  | .prim "big_map" [a, b] _ => do pure (.bigMap (← tyOfMich a) (← tyOfMich b))
  | _ => none

partial def tyToMich : Ty → Mich
  | .unit => .prim "unit" [] []
  | .bool => .prim "bool" [] []
  | .int => .prim "int" [] []
  | .nat => .prim "nat" [] []
  | .mutez => .prim "mutez" [] []
  | .timestamp => .prim "timestamp" [] []
  | .string => .prim "string" [] []
  | .bytes => .prim "bytes" [] []
  | .address => .prim "address" [] []
  | .chainId => .prim "chain_id" [] []
  | .never => .prim "never" [] []
  | .keyHash => .prim "key_hash" [] []
  | .key => .prim "key" [] []
  | .signature => .prim "signature" [] []
  | .operation => .prim "operation" [] []
  | .contract a => .prim "contract" [tyToMich a] []
  | .option a => .prim "option" [tyToMich a] []
  | .list a => .prim "list" [tyToMich a] []
  | .or a b => .prim "or" [tyToMich a, tyToMich b] []
  | .pair a b => .prim "pair" [tyToMich a, tyToMich b] []
  | .lambda a b => .prim "lambda" [tyToMich a, tyToMich b] []
  | .map a b => .prim "map" [tyToMich a, tyToMich b] []
  | .set a => .prim "set" [tyToMich a] []
  | .bigMap a b => .prim "big_map" [tyToMich a, tyToMich b] []

/-- the entrypoint / tag a field annotation names (`%name`; none: `dflt`) -/
def annotName (dflt : String) : List String → List Nat
  | a :: _ => if a.startsWith "%" then codes (a.drop 1).toString else codes dflt
  | [] => codes dflt

def natArg : Mich → Option Nat
  | .int v => if v ≥ 0 then some v.toNat else none
  | _ => none

mutual
  partial def valOfMich : Ty → Mich → Option Val
    | .unit, .prim "Unit" [] _ => some .unit
    | .bool, .prim "True" [] _ => some (.bool true)
    | .bool, .prim "False" [] _ => some (.bool false)
    | .int, .int v => some (.num .int v)
    | .nat, .int v => if v ≥ 0 then some (.num .nat v) else none
    | .mutez, .int v => if v ≥ 0 ∧ v < 2 ^ 63 then some (.num .mutez v) else none
    | .timestamp, .int v => some (.num .timestamp v)
    | .string, .str s => some (.str (codes s))
    | .bytes, .bytes b => some (.bytes b)
    | .address, .str s => some (.atom .address (codes s))
    | .chainId, .str s => some (.atom .chainId (codes s))
    | .keyHash, .str s => some (.atom .keyHash (codes s))
    | .key, .str s => some (.atom .key (codes s))
    | .signature, .str s => some (.atom .signature (codes s))
    | .option _, .prim "None" [] _ => none   -- needs the type: handled below
    | .option t, .prim "Some" [x] _ => (valOfMich t x).map .some
    | .or l r, .prim "Left" [x] _ => (valOfMich l x).map fun v => .left v r
    | .or l r, .prim "Right" [x] _ => (valOfMich r x).map fun v => .right l v
    | .pair a b, .prim "Pair" [x, y] _ => do pure (.pair (← valOfMich a x) (← valOfMich b y))
    | .pair a b, .prim "Pair" (x :: y :: z :: rest) an => do pure (.pair (← valOfMich a x) (← valOfMich b (.prim "Pair" (y :: z :: rest) an)))
    | .list t, .seq xs => (xs.mapM (valOfMich t)).map (.list t)
    | .set t, .seq xs => (xs.mapM (valOfMich t)).map (.set t)
    | .map k v, .seq xs => (xs.mapM fun (e : Mich) => match e with
        | Mich.prim "Elt" [a, b] _ => do pure (Val.pair (← valOfMich k a) (← valOfMich v b))
        | _ => none).map (.map k v)
    | .lambda a b, code => (instrOfMich code).map (.lam a b)
    | _, _ => none
  partial def valOfMich' (t : Ty) (m : Mich) : Option Val :=
    match t, m with
    | .option a, .prim "None" [] _ => some (.none a)
    | .option a, .prim "Some" [x] _ => (valOfMich' a x).map .some
    | .or l r, .prim "Left" [x] _ => (valOfMich' l x).map fun v => .left v r
    | .or l r, .prim "Right" [x] _ => (valOfMich' r x).map fun v => .right l v
    | .pair a b, .prim "Pair" [x, y] _ => do pure (.pair (← valOfMich' a x) (← valOfMich' b y))
    | .pair a b, .prim "Pair" (x :: y :: z :: rest) an => do pure (.pair (← valOfMich' a x) (← valOfMich' b (.prim "Pair" (y :: z :: rest) an)))
    | .list t, .seq xs => (xs.mapM (valOfMich' t)).map (.list t)
    | .set t, .seq xs => (xs.mapM (valOfMich' t)).map (.set t)
    | .map k v, .seq xs => (xs.mapM fun (e : Mich) => match e with
        | Mich.prim "Elt" [a, b] _ => do pure (Val.pair (← valOfMich' k a) (← valOfMich' v b))
        | _ => none).map (.map k v)
    | t, m => valOfMich t m
  partial def instrOfMich : Mich → Option Instr
    | .seq xs => (xs.mapM instrOfMich).map .seq
    | .prim "DROP" [] _ => some .DROP
    | .prim "DROP" [n] _ => (natArg n).map .DROPN
    | .prim "DUP" [] _ => some .DUP
    | .prim "DUP" [n] _ => (natArg n).map .DUPN
    | .prim "SWAP" [] _ => some .SWAP
    | .prim "DIG" [n] _ => (natArg n).map .DIG
    | .prim "DUG" [n] _ => (natArg n).map .DUG
    | .prim "PUSH" [t, v] _ => do
        let t ← tyOfMich t
        pure (.PUSH t (← valOfMich' t v))
    | .prim "DIP" [b] _ => (instrOfMich b).map .DIP
    | .prim "DIP" [n, b] _ => do pure (.DIPN (← natArg n) (← instrOfMich b))
    | .prim "IF" [a, b] _ => do pure (.IF (← instrOfMich a) (← instrOfMich b))
    | .prim "IF_NONE" [a, b] _ => do pure (.IF_NONE (← instrOfMich a) (← instrOfMich b))
    | .prim "IF_LEFT" [a, b] _ => do pure (.IF_LEFT (← instrOfMich a) (← instrOfMich b))
    | .prim "IF_CONS" [a, b] _ => do pure (.IF_CONS (← instrOfMich a) (← instrOfMich b))
    | .prim "LOOP" [a] _ => (instrOfMich a).map .LOOP
    | .prim "LOOP_LEFT" [a] _ => (instrOfMich a).map .LOOP_LEFT
    | .prim "ITER" [a] _ => (instrOfMich a).map .ITER
    | .prim "MAP" [a] _ => (instrOfMich a).map .MAP
    | .prim "LAMBDA" [a, b, c] _ => do pure (.LAMBDA (← tyOfMich a) (← tyOfMich b) (← instrOfMich c))
    | .prim "EXEC" [] _ => some .EXEC
    | .prim "APPLY" [] _ => some .APPLY
    | .prim "FAILWITH" [] _ => some .FAILWITH
    | .prim "UNIT" [] _ => some .UNIT
    | .prim "PAIR" [] _ => some .PAIR
    | .prim "UNPAIR" [] _ => some .UNPAIR
    | .prim "PAIR" [n] _ => (natArg n).map .PAIRN
    | .prim "UNPAIR" [n] _ => (natArg n).map .UNPAIRN
    | .prim "GET" [n] _ => (natArg n).map .GETN
    | .prim "UPDATE" [n] _ => (natArg n).map .UPDATEN
    | .prim "CAR" [] _ => some .CAR
    | .prim "CDR" [] _ => some .CDR
    | .prim "SOME" [] _ => some .SOME
    | .prim "NONE" [t] _ => (tyOfMich t).map .NONE
    | .prim "LEFT" [t] _ => (tyOfMich t).map .LEFT
    | .prim "RIGHT" [t] _ => (tyOfMich t).map .RIGHT
    | .prim "NIL" [t] _ => (tyOfMich t).map .NIL
    | .prim "CONS" [] _ => some .CONS
    | .prim "SIZE" [] _ => some .SIZE
    | .prim "EMPTY_MAP" [k, v] _ => do pure (.EMPTY_MAP (← tyOfMich k) (← tyOfMich v))
    | .prim "EMPTY_BIG_MAP" [k, v] _ => do pure (.EMPTY_BIG_MAP (← tyOfMich k) (← tyOfMich v))
    | .prim "EMPTY_SET" [t] _ => (tyOfMich t).map .EMPTY_SET
    | .prim "MEM" [] _ => some .MEM
    | .prim "GET" [] _ => some .GET
    | .prim "UPDATE" [] _ => some .UPDATE
    | .prim "GET_AND_UPDATE" [] _ => some .GET_AND_UPDATE
    | .prim "ADD" [] _ => some .ADD
    | .prim "SUB" [] _ => some .SUB
    | .prim "MUL" [] _ => some .MUL
    | .prim "NEG" [] _ => some .NEG
    | .prim "EDIV" [] _ => some .EDIV
    | .prim "LSL" [] _ => some .LSL
    | .prim "LSR" [] _ => some .LSR
    | .prim "SUB_MUTEZ" [] _ => some .SUB_MUTEZ
    | .prim "ABS" [] _ => some .ABS
    | .prim "ISNAT" [] _ => some .ISNAT
    | .prim "INT" [] _ => some .INT
    | .prim "COMPARE" [] _ => some .COMPARE
    | .prim "EQ" [] _ => some .EQ
    | .prim "NEQ" [] _ => some .NEQ
    | .prim "LT" [] _ => some .LT
    | .prim "GT" [] _ => some .GT
    | .prim "LE" [] _ => some .LE
    | .prim "GE" [] _ => some .GE
    | .prim "NOT" [] _ => some .NOT
    | .prim "AND" [] _ => some .AND
    | .prim "OR" [] _ => some .OR
    | .prim "XOR" [] _ => some .XOR
    | .prim "CONCAT" [] _ => some .CONCAT
    | .prim "SLICE" [] _ => some .SLICE
    | .prim "AMOUNT" [] _ => some .AMOUNT
    | .prim "BALANCE" [] _ => some .BALANCE
    | .prim "SENDER" [] _ => some .SENDER
    | .prim "SOURCE" [] _ => some .SOURCE
    | .prim "NOW" [] _ => some .NOW
    | .prim "LEVEL" [] _ => some .LEVEL
    | .prim "CHAIN_ID" [] _ => some .CHAIN_ID
    | .prim "SELF_ADDRESS" [] _ => some .SELF_ADDRESS
    | .prim "TOTAL_VOTING_POWER" [] _ => some .TOTAL_VOTING_POWER
    | .prim "MIN_BLOCK_TIME" [] _ => some .MIN_BLOCK_TIME
    | .prim "BLAKE2B" [] _ => some .BLAKE2B
    | .prim "SHA256" [] _ => some .SHA256
    | .prim "SHA512" [] _ => some .SHA512
    | .prim "KECCAK" [] _ => some .KECCAK
    | .prim "SHA3" [] _ => some .SHA3
    | .prim "CAST" [t] _ => (tyOfMich t).map .CAST
    | .prim "RENAME" [] _ => some .RENAME
    | .prim "NEVER" [] _ => some .NEVER
    | .prim "NAT" [] _ => some .NAT
    | .prim "BYTES" [] _ => some .BYTES
    | .prim "VOTING_POWER" [] _ => some .VOTING_POWER
    | .prim "HASH_KEY" [] _ => some .HASH_KEY
    | .prim "ADDRESS" [] _ => some .ADDRESS
    | .prim "IMPLICIT_ACCOUNT" [] _ => some .IMPLICIT_ACCOUNT
    | .prim "CONTRACT" [t] an => (tyOfMich t).map fun t => .CONTRACT t (annotName "default" an)
    -- `SELF %ep` arrives elaborated: the harness writes the type of that entrypoint of the parameter as an argument
    | .prim "SELF" [t] an => (tyOfMich t).map fun t => .SELF (annotName "default" an) t
    | .prim "PACK" [] _ => some .PACK
    | .prim "CHECK_SIGNATURE" [] _ => some .CHECK_SIGNATURE
    | .prim "UNPACK" [t] _ => (tyOfMich t).map .UNPACK
    | .prim "TRANSFER_TOKENS" [] _ => some .TRANSFER_TOKENS
    | .prim "SET_DELEGATE" [] _ => some .SET_DELEGATE
    | .prim "EMIT" [t] an => (tyOfMich t).map fun t => .EMIT (annotName "" an) t
    | _ => none
end

mutual
  partial def valToMich : Val → Mich
    | .unit => .prim "Unit" [] []
    | .bool true => .prim "True" [] []
    | .bool false => .prim "False" [] []
    | .num _ v => .int v
    | .str s => .str (uncodes s)
    | .bytes b => .bytes b
    | .atom _ s => .str (uncodes s)
    | .pair a b => .prim "Pair" [valToMich a, valToMich b] []
    | .some v => .prim "Some" [valToMich v] []
    | .none _ => .prim "None" [] []
    | .left v _ => .prim "Left" [valToMich v] []
    | .right _ v => .prim "Right" [valToMich v] []
    | .list _ xs => .seq (xs.map valToMich)
    | .set _ xs => .seq (xs.map valToMich)
    | .map _ _ xs => .seq (xs.map fun e => match e with
        | .pair k v => .prim "Elt" [valToMich k, valToMich v] []
        | o => valToMich o)
    | .bigMap _ _ xs => .seq (xs.map fun e => match e with
        | .pair k v => .prim "Elt" [valToMich k, valToMich v] []
        | o => valToMich o)
    | .lam _ _ body => instrToMich body
    | .contract _ s => .str (uncodes s)
    -- operations: what `OperationType.content` records
    | .opTransfer src dest ep amount p pty =>
      .prim "TRANSFER" [.str (uncodes src), .str (uncodes dest), .str (uncodes ep), .int amount, tyToMich pty, valToMich p] []
    | .opDelegate src none => .prim "DELEGATE" [.str (uncodes src), .prim "None" [] []] []
    | .opDelegate src (some d) => .prim "DELEGATE" [.str (uncodes src), .prim "Some" [.str (uncodes d)] []] []
    | .opEmit src tag t p => .prim "EVENT" [.str (uncodes src), .str (uncodes tag), tyToMich t, valToMich p] []
  partial def instrToMich : Instr → Mich
    | .seq xs => .seq (xs.map instrToMich)
    | .DROP => .prim "DROP" [] [] | .DROPN n => .prim "DROP" [.int n] []
    | .DUP => .prim "DUP" [] [] | .DUPN n => .prim "DUP" [.int n] []
    | .SWAP => .prim "SWAP" [] [] | .DIG n => .prim "DIG" [.int n] [] | .DUG n => .prim "DUG" [.int n] []
    | .PUSH t v => .prim "PUSH" [tyToMich t, valToMich v] []
    | .DIP b => .prim "DIP" [instrToMich b] [] | .DIPN n b => .prim "DIP" [.int n, instrToMich b] []
    | .IF a b => .prim "IF" [instrToMich a, instrToMich b] []
    | .IF_NONE a b => .prim "IF_NONE" [instrToMich a, instrToMich b] []
    | .IF_LEFT a b => .prim "IF_LEFT" [instrToMich a, instrToMich b] []
    | .IF_CONS a b => .prim "IF_CONS" [instrToMich a, instrToMich b] []
    | .LOOP a => .prim "LOOP" [instrToMich a] [] | .LOOP_LEFT a => .prim "LOOP_LEFT" [instrToMich a] []
    | .ITER a => .prim "ITER" [instrToMich a] [] | .MAP a => .prim "MAP" [instrToMich a] []
    | .LAMBDA a b c => .prim "LAMBDA" [tyToMich a, tyToMich b, instrToMich c] []
    | .EXEC => .prim "EXEC" [] [] | .APPLY => .prim "APPLY" [] [] | .FAILWITH => .prim "FAILWITH" [] []
    | .UNIT => .prim "UNIT" [] [] | .PAIR => .prim "PAIR" [] [] | .UNPAIR => .prim "UNPAIR" [] []
    | .PAIRN n => .prim "PAIR" [.int n] [] | .UNPAIRN n => .prim "UNPAIR" [.int n] []
    | .GETN n => .prim "GET" [.int n] [] | .UPDATEN n => .prim "UPDATE" [.int n] []
    | .CAR => .prim "CAR" [] [] | .CDR => .prim "CDR" [] [] | .SOME => .prim "SOME" [] []
    | .NONE t => .prim "NONE" [tyToMich t] [] | .LEFT t => .prim "LEFT" [tyToMich t] []
    | .RIGHT t => .prim "RIGHT" [tyToMich t] [] | .NIL t => .prim "NIL" [tyToMich t] []
    | .CONS => .prim "CONS" [] [] | .SIZE => .prim "SIZE" [] []
    | .EMPTY_MAP k v => .prim "EMPTY_MAP" [tyToMich k, tyToMich v] []
    | .EMPTY_BIG_MAP k v => .prim "EMPTY_BIG_MAP" [tyToMich k, tyToMich v] []
    | .EMPTY_SET t => .prim "EMPTY_SET" [tyToMich t] []
    | .MEM => .prim "MEM" [] [] | .GET => .prim "GET" [] [] | .UPDATE => .prim "UPDATE" [] []
    | .GET_AND_UPDATE => .prim "GET_AND_UPDATE" [] []
    | .ADD => .prim "ADD" [] [] | .SUB => .prim "SUB" [] [] | .MUL => .prim "MUL" [] []
    | .EDIV => .prim "EDIV" [] [] | .LSL => .prim "LSL" [] [] | .LSR => .prim "LSR" [] [] | .SUB_MUTEZ => .prim "SUB_MUTEZ" [] []
    | .NEG => .prim "NEG" [] [] | .ABS => .prim "ABS" [] [] | .ISNAT => .prim "ISNAT" [] []
    | .INT => .prim "INT" [] [] | .COMPARE => .prim "COMPARE" [] []
    | .EQ => .prim "EQ" [] [] | .NEQ => .prim "NEQ" [] [] | .LT => .prim "LT" [] [] | .GT => .prim "GT" [] []
    | .LE => .prim "LE" [] [] | .GE => .prim "GE" [] []
    | .NOT => .prim "NOT" [] [] | .AND => .prim "AND" [] [] | .OR => .prim "OR" [] [] | .XOR => .prim "XOR" [] []
    | .CONCAT => .prim "CONCAT" [] [] | .SLICE => .prim "SLICE" [] []
    | .AMOUNT => .prim "AMOUNT" [] [] | .BALANCE => .prim "BALANCE" [] [] | .SENDER => .prim "SENDER" [] []
    | .SOURCE => .prim "SOURCE" [] [] | .NOW => .prim "NOW" [] [] | .LEVEL => .prim "LEVEL" [] []
    | .CHAIN_ID => .prim "CHAIN_ID" [] [] | .SELF_ADDRESS => .prim "SELF_ADDRESS" [] []
    | .TOTAL_VOTING_POWER => .prim "TOTAL_VOTING_POWER" [] [] | .MIN_BLOCK_TIME => .prim "MIN_BLOCK_TIME" [] []
    | .BLAKE2B => .prim "BLAKE2B" [] [] | .SHA256 => .prim "SHA256" [] [] | .SHA512 => .prim "SHA512" [] []
    | .KECCAK => .prim "KECCAK" [] [] | .SHA3 => .prim "SHA3" [] []
    | .CAST t => .prim "CAST" [tyToMich t] [] | .RENAME => .prim "RENAME" [] []
    | .NEVER => .prim "NEVER" [] [] | .NAT => .prim "NAT" [] [] | .BYTES => .prim "BYTES" [] []
    | .VOTING_POWER => .prim "VOTING_POWER" [] [] | .HASH_KEY => .prim "HASH_KEY" [] []
    | .ADDRESS => .prim "ADDRESS" [] [] | .IMPLICIT_ACCOUNT => .prim "IMPLICIT_ACCOUNT" [] []
    | .CONTRACT t ep => .prim "CONTRACT" [tyToMich t] ["%" ++ uncodes ep]
    | .SELF ep t => .prim "SELF" [tyToMich t] ["%" ++ uncodes ep]
    | .PACK => .prim "PACK" [] []
    | .CHECK_SIGNATURE => .prim "CHECK_SIGNATURE" [] []
    | .UNPACK t => .prim "UNPACK" [tyToMich t] []
    | .TRANSFER_TOKENS => .prim "TRANSFER_TOKENS" [] [] | .SET_DELEGATE => .prim "SET_DELEGATE" [] []
    | .EMIT tag t => .prim "EMIT" [tyToMich t] (if tag.isEmpty then [] else ["%" ++ uncodes tag])
end

end Driver
