import Driver.C03IO
import PytezosModel.Michelson.Collections
/-! C14 driver.  One history per line:
  `set <type> <n> <u0> … <u(n-1)> <start> <op>…`   /   `map <type> <n> <u0> … <start> <op>…`
`<ui>`: the key universe (structured value tokens); keys are referred to by index.
start: `e` (EMPTY_SET / EMPTY_MAP) or `l<k> <i1[:v1]> … <ik[:vk]>` (PUSH of a literal, keys by index, map values ints).
set ops: `a<i>` UPDATE True · `r<i>` UPDATE False · `m<i>` MEM · `z` SIZE · `i` ITER
map ops: `u<i>:<v>` UPDATE (Some v) · `d<i>` UPDATE None · `g<i>` GET · `m<i>` MEM · `G<i>:<v>` GET_AND_UPDATE (Some v) ·
         `D<i>` GET_AND_UPDATE None · `M<c>` MAP { value + c } · `z` SIZE · `i` ITER
Output: one item per step (start included) joined by `|`: `<observation>;<state>` with state = `i[:v],…` (keys as the
index of the first universe element equal to the stored key); the history stops at the first `raise` / `reject-*`. -/
open Driver Driver.C03IO Order Impl.Coll

namespace C14Driver

def idx {τ : CTy} (univ : List (TVal τ)) (x : TVal τ) : String :=
  match univ.findIdx? (fun v => decide (v.1 = x.1)) with
  | some i => toString i
  | none => "?"

def showSet {τ : CTy} (univ : List (TVal τ)) (s : List (TVal τ)) : String := joinWith "," (s.map (idx univ))

def showMap {τ : CTy} (univ : List (TVal τ)) (m : List (TVal τ × Int)) : String :=
  joinWith "," (m.map fun e => idx univ e.1 ++ ":" ++ toString e.2)

def showOpt : Option Int → String
  | some v => toString v
  | none => "N"

def showErr : Err → String
  | .duplicate => "reject-dup" | .unsorted => "reject-unsorted" | .empty => "raise"

def parseKV (s : String) : Option (Nat × Int) :=
  match s.splitOn ":" with
  | [i, v] => do
    let i ← i.toNat?
    let v ← parseInt v
    pure (i, v)
  | _ => none

/-- the rest of a set history -/
def runSet {τ : CTy} (univ : List (TVal τ)) : List (TVal τ) → List String → List String → List String
  | _, [], acc => acc.reverse
  | s, t :: ts, acc =>
    let body := (t.drop 1).toString
    let key := body.toNat?.bind fun i => univ[i]?
    match t.front, key with
    | 'a', some k => let s' := Set.add TVal.eq TVal.lt s k; runSet univ s' ts ((";" ++ showSet univ s') :: acc)
    | 'r', some k => let s' := Set.remove TVal.eq s k; runSet univ s' ts ((";" ++ showSet univ s') :: acc)
    | 'm', some k => runSet univ s ts (((if Set.contains TVal.eq s k then "1" else "0") ++ ";" ++ showSet univ s) :: acc)
    | 'z', _ => runSet univ s ts ((toString (size s) ++ ";" ++ showSet univ s) :: acc)
    | 'i', _ => runSet univ s ts ((showSet univ (iter s) ++ ";" ++ showSet univ s) :: acc)
    | _, _ => ("bad-op" :: acc).reverse

def runMap {τ : CTy} (univ : List (TVal τ)) : List (TVal τ × Int) → List String → List String → List String
  | _, [], acc => acc.reverse
  | m, t :: ts, acc =>
    let body := (t.drop 1).toString
    let key := body.toNat?.bind fun i => univ[i]?
    let kv := (parseKV body).bind fun (i, v) => univ[i]?.map fun k => (k, v)
    match t.front with
    | 'u' => match kv with
      | some (k, v) => let m' := (Map.update TVal.eq TVal.lt m k (some v)).2; runMap univ m' ts ((";" ++ showMap univ m') :: acc)
      | none => ("bad-op" :: acc).reverse
    | 'd' => match key with
      | some k => let m' := (Map.update TVal.eq TVal.lt m k none).2; runMap univ m' ts ((";" ++ showMap univ m') :: acc)
      | none => ("bad-op" :: acc).reverse
    | 'G' => match kv with
      | some (k, v) => let r := Map.update TVal.eq TVal.lt m k (some v); runMap univ r.2 ts ((showOpt r.1 ++ ";" ++ showMap univ r.2) :: acc)
      | none => ("bad-op" :: acc).reverse
    | 'D' => match key with
      | some k => let r := Map.update TVal.eq TVal.lt m k none; runMap univ r.2 ts ((showOpt r.1 ++ ";" ++ showMap univ r.2) :: acc)
      | none => ("bad-op" :: acc).reverse
    | 'g' => match key with
      | some k => runMap univ m ts ((showOpt (Map.get TVal.eq m k) ++ ";" ++ showMap univ m) :: acc)
      | none => ("bad-op" :: acc).reverse
    | 'm' => match key with
      | some k => runMap univ m ts (((if Map.contains TVal.eq m k then "1" else "0") ++ ";" ++ showMap univ m) :: acc)
      | none => ("bad-op" :: acc).reverse
    | 'M' => match parseInt body with
      | some c =>
        match Map.mapValues TVal.eq TVal.lt (fun _ v => v + c) m with
        | .ok m' => runMap univ m' ts ((";" ++ showMap univ m') :: acc)
        | .error e => (showErr e :: acc).reverse
      | none => ("bad-op" :: acc).reverse
    | 'z' => runMap univ m ts ((toString (size m) ++ ";" ++ showMap univ m) :: acc)
    | 'i' => runMap univ m ts ((showMap univ (iter m) ++ ";" ++ showMap univ m) :: acc)
    | _ => ("bad-op" :: acc).reverse

def startSet {τ : CTy} (univ : List (TVal τ)) : List String → List String
  | "e" :: ops => runSet univ [] ops [";"]
  | t :: rest =>
    match (t.drop 1).toString.toNat? with
    | some k =>
      if t.front = 'l' && k ≤ rest.length then
        match (rest.take k).mapM (fun s => s.toNat?.bind fun i => univ[i]?) with
        | some items =>
          if !(items.all fun v => Impl.Order.hashable v.1) then ["raise"]
          else match Set.literal TVal.eq TVal.lt items with
            | .ok s => runSet univ s (rest.drop k) [";" ++ showSet univ s]
            | .error e => [showErr e]
        | none => ["bad-op"]
      else ["bad-op"]
    | none => ["bad-op"]
  | [] => ["bad-op"]

def startMap {τ : CTy} (univ : List (TVal τ)) : List String → List String
  | "e" :: ops => runMap univ [] ops [";"]
  | t :: rest =>
    match (t.drop 1).toString.toNat? with
    | some k =>
      if t.front = 'l' && k ≤ rest.length then
        match (rest.take k).mapM (fun s => (parseKV s).bind fun (i, v) => univ[i]?.map fun key => (key, v)) with
        | some items =>
          if !(items.all fun e => Impl.Order.hashable e.1.1) then ["raise"]
          else match Map.literal TVal.eq TVal.lt items with
            | .ok m => runMap univ m (rest.drop k) [";" ++ showMap univ m]
            | .error e => [showErr e]
        | none => ["bad-op"]
      else ["bad-op"]
    | none => ["bad-op"]
  | [] => ["bad-op"]

def handle (line : String) : String :=
  if !(Impl.Coll.shapesOk && Impl.Order.shapesOk) then "unrecognised-source" else
  match words line with
  | kind :: rest =>
    match parseTy rest with
    | some (τ, n :: r) =>
      match n.toNat? with
      | some n =>
        match parseVals τ n r with
        | some (univ, ops) =>
          if kind = "set" then joinWith "|" (startSet univ ops)
          else if kind = "map" then joinWith "|" (startMap univ ops)
          else "bad-op"
        | none => "ill-typed"
      | none => "bad-op"
    | _ => "bad-op"
  | [] => "bad-op"

end C14Driver

def main : IO Unit := mainWith C14Driver.handle
