import Driver.Util
import PytezosModel.Client.Fees
open Driver Impl.Fees

/-! line protocol
  fill     <src> <hardGas> <hardStorage> <counter> <pending> | <kind> <destKT 0|1> <base> | …
  autofill <src> <hardGas> <hardStorage> <counter> <pending> | <kind> <destKT> <base> <milligas:storageDiff:alloc,…> | …
  trunc <a> <d>      Python `int(a / d)`        ceil <a> <d>     Python `math.ceil(a / d)`
answers
  <fee>,<counter>,<gas_limit>,<storage_limit> … | size=<signed size> gas=<total gas limit> fee=<total fee> ok=<node accepts 0|1>
  `undefined` when the mirror is undefined (float guard, unknown kind / source prefix, empty group), `bad-op` on a malformed line -/

def splitBar (ws : List String) : List (List String) :=
  let rec go : List String → List String → List (List String) → List (List String)
    | [], cur, acc => (cur.reverse :: acc).reverse
    | w :: rest, cur, acc => if w = "|" then go rest [] (cur.reverse :: acc) else go rest (w :: cur) acc
  go ws [] []

def parseEnv : List String → Option Env
  | [src, hg, hs, c, p] => do
    some { src := src, hardGas := ← hg.toNat?, hardStorage := ← hs.toNat?, counter := ← c.toNat?, pending := ← p.toNat? }
  | _ => none

def parseSim (s : String) : Option (List SimRes) :=
  if s = "-" then some [] else
  (s.splitOn ",").mapM fun t =>
    match t.splitOn ":" with
    | [m, d, a] => do some { milligas := ← m.toNat?, storageDiff := ← d.toNat?, alloc := a = "1" }
    | _ => none

def parseContent : List String → Option (Content × List SimRes)
  | [kind, kt, base] => do some ({ kind := kind, destKT := kt = "1", base := ← base.toNat? }, [])
  | [kind, kt, base, sim] => do some ({ kind := kind, destKT := kt = "1", base := ← base.toNat? }, ← parseSim sim)
  | _ => none

def render (src : String) (out : List Filled) : String :=
  let per := out.map fun o => s!"{o.fee},{o.counter},{o.gas},{o.storage}"
  let size := Spec.Fees.signedSize src out
  let ok := if decide (Spec.Fees.accepts (totalFee out) size (totalGas out)) then "1" else "0"
  joinWith " " per ++ s!" | size={size} gas={totalGas out} fee={totalFee out} ok={ok}"

def handle (line : String) : String :=
  match words line with
  | ["trunc", a, d] =>
    match a.toNat?, d.toNat? with
    | some a, some d => match pyTruncDiv a d with | some v => toString v | none => "undefined"
    | _, _ => "bad-op"
  | ["ceil", a, d] =>
    match a.toNat?, d.toNat? with
    | some a, some d => match pyCeilDiv a d with | some v => toString v | none => "undefined"
    | _, _ => "bad-op"
  | cmd :: rest =>
    match splitBar rest with
    | envw :: cws =>
      match parseEnv envw, cws.mapM parseContent with
      | some env, some cs =>
        let r :=
          if cmd = "fill" then some (fill env (cs.map (·.1)))
          else if cmd = "autofill" then some (autofill env (cs.map (·.1)) (cs.map (·.2)))
          else none
        match r with
        | some (some out) => render env.src out
        | some none => "undefined"
        | none => "bad-op"
      | _, _ => "bad-op"
    | [] => "bad-op"
  | [] => "bad-op"

def main : IO Unit := mainWith handle
