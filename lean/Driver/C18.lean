import Driver.Util
import Driver.MichIO
import PytezosModel.Micheline.Text
open Driver Impl.Text

/-- protocol:
* `R <0|1> <mich tokens…>` → `<wf 0|1> <S<hex of Impl.format inline e> | error> <rt 0|1>` where `rt` tells whether the
  model itself reads its own text back to `e`;
* `P <hex utf8 text>` → `ok <mich tokens>` | `none` (the empty program, Python `None`) | `error`. -/
def handle (line : String) : String :=
  match words line with
  | "R" :: inl :: rest =>
    match parseMichTokens rest with
    | none => "bad-op"
    | some e =>
      let inline := inl == "1"
      let wf := if wfText e then "1" else "0"
      match format inline e with
      | none => wf ++ " error 0"
      | some cs =>
        let rt := match parseText cs with
          | some e' => if e' == e then "1" else "0"
          | none => "0"
        wf ++ " S" ++ stringToHex (String.ofList cs) ++ " " ++ rt
  | ["P", h] =>
    match hexToString h with
    | none => "bad-op"
    | some s =>
      match (lex (stripParens s.toList)).bind parseTop with
      | some (.one m) => "ok " ++ michToLine m
      | some (.many ms) => "ok " ++ michToLine (.seq ms)
      | some .none => "none"
      | none => "error"
  | _ => "bad-op"

def main : IO Unit := mainWith handle
