import Driver.MichIO
import PytezosModel.Michelson.View
open Driver

/-- line: the whole view expression `view "<name>" <arg type> <ret type> <code>` in the token encoding of `MichIO`
→ `ok` | `name-long` | `name-char` | `code:<PRIM>` (the prim named by the raised error) -/
def handle (line : String) : String :=
  match parseMichTokens (words line) with
  | some (.prim "view" [.str name, _, _, code] _) =>
    match Impl.View.checkView (name.toList.map Char.toNat) code with
    | .ok () => "ok"
    | .error e => e
  | _ => "bad-op"

def main : IO Unit := mainWith handle
