import Driver.MichIO
open Driver
def main : IO Unit := mainWith fun l => match parseMichTokens (words l) with
  | some m => michToLine m
  | none => "bad-op"
