import Driver.Util
import PytezosModel.Client.Diff
open Driver Impl.Diff Spec.Diff

/-! protocol (strings are hex, one byte per character, `-` = empty string):
  `apply R SRC PATCH`                      → `ok TEXT` | `error <kind>`            (R = 0 forward, 1 revert)
  `render FNAME OLD NEW SCRIPT…`           → `valid PATCH` | `invalid-old` | `invalid-new` | `error <kind>`
        SCRIPT tokens: `K` opens a keep segment, `H` a hunk; `=L` kept line, `cL` context, `-L` deleted, `+L` added
  `protocol Y NAME TEXT … ; T NAME SCRIPT… ; T NAME SCRIPT… `
        → `ok NAME:PATCH … | NAME:TEXT …` (result of Protocol.diff, then of Protocol.patch) | `error <kind>` -/

def chars (bs : List Nat) : List Char := bs.map Char.ofNat
def unchars (cs : List Char) : String := toHex (cs.map Char.toNat)

def parseText (s : String) : Option (List Char) := (parseHex s).map chars

def errName : Err → String
  | .regexMismatch => "error regex-mismatch"
  | .badLineNum => "error bad-line-num"
  | .typeError => "error type-error"
  | .unrecognised => "error unrecognised-source"

/-- script tokens → segments (reversed accumulators) -/
def parseScript : List String → Option Script → List Seg → Option Script
  | [], _, acc => some acc.reverse
  | tok :: rest, _, acc =>
    if tok = "K" then parseScript rest none (.keep [] :: acc)
    else if tok = "H" then parseScript rest none (.hunk [] :: acc)
    else
      match tok.toList with
      | [] => none
      | tag :: hex =>
        match parseText (String.ofList hex), acc with
        | some l, .keep ls :: acc' => if tag = '=' then parseScript rest none (.keep (ls ++ [l]) :: acc') else none
        | some l, .hunk ops :: acc' =>
          if tag = 'c' then parseScript rest none (.hunk (ops ++ [.ctx l]) :: acc')
          else if tag = '-' then parseScript rest none (.hunk (ops ++ [.del l]) :: acc')
          else if tag = '+' then parseScript rest none (.hunk (ops ++ [.add l]) :: acc')
          else none
        | _, _ => none

def splitOnTok (sep : String) (ws : List String) : List (List String) :=
  let r := ws.foldl (fun (acc : List (List String) × List String) w =>
    if w = sep then (acc.2.reverse :: acc.1, []) else (acc.1, w :: acc.2)) ([], [])
  (r.2.reverse :: r.1).reverse

def parseYours : List String → Option Files
  | [] => some []
  | "Y" :: n :: t :: rest => do
    let n ← parseText n
    let t ← parseText t
    let r ← parseYours rest
    some ((n, t) :: r)
  | _ => none

def showFiles (fs : Files) : String := joinWith " " (fs.map fun (n, t) => unchars n ++ ":" ++ unchars t)

def handle (line : String) : String :=
  match words line with
  | ["apply", r, src, patch] =>
    match parseText src, parseText patch with
    | some s, some p =>
      match applyPatch s p (r == "1") with
      | .ok t => "ok " ++ unchars t
      | .error e => errName e
    | _, _ => "bad-op"
  | "render" :: fname :: old :: new :: script =>
    match parseText fname, parseText old, parseText new, parseScript script none [] with
    | some f, some o, some n, some s =>
      if join (oldOf s) ≠ o then "invalid-old"
      else if join (newOf s) ≠ n then "invalid-new"
      else match makePatch (unifiedDiff f s) with
        | .ok p => "valid " ++ unchars p
        | .error e => errName e
    | _, _, _, _ => "bad-op"
  | "protocol" :: rest =>
    match splitOnTok ";" rest with
    | ys :: ts =>
      match parseYours ys, ts.mapM (fun (t : List String) => match t with
          | "T" :: n :: script => do
            let n ← parseText n
            let s ← parseScript script none []
            some (n, s)
          | _ => none) with
      | some yours, some theirs =>
        match protocolDiff theirs with
        | .error e => errName e
        | .ok d =>
          match protocolPatch yours d with
          | .error e => errName e
          | .ok p => "ok " ++ showFiles d ++ " | " ++ showFiles p
      | _, _ => "bad-op"
    | [] => "bad-op"
  | _ => "bad-op"

def main : IO Unit := mainWith handle
