import Driver.C03IO
import PytezosModel.Proofs.C15Keys
import PytezosModel.Michelson.BigMapKeyHash
import PytezosModel.Crypto.RealHash
open Driver Driver.C03IO Order Impl.BigMap Proofs.C15Keys

/-! C15 driver.  One scenario (= one `Interpreter.run_code` call of the harness) per line, five sections separated by `|`:

  `<key type> <n> <k0> … <k(n-1)> | <initial big maps> | <on-chain contents> | <events> | <stored slots>`

* key type / keys: the token encoding of Driver/C03IO.lean (comparable type in prefix notation, structured values);
  keys are referred to by their index in this universe everywhere else; values are natural-number codes (the dictionary
  semantics never looks inside a value; the harness renders a code as a value of the chosen Michelson type).
* initial big maps, in the order `begin` attaches the context (parameter first, then the storage fields left to right):
  `P<id>` the PARAMETER is the id of an on-chain big map (registered as a copy under a temporary id, action `copy`);
  `S<id>` a storage field is the id of an on-chain big map (registered, action `update`);
  `L` / `L<k>:<v>,<k>:<v>…` a storage field is a literal (temporary id, action `alloc`); refused by `check_constraints`
  when the keys are not strictly ascending.  The big maps are numbered 0, 1, … in this order ("slots").
* on-chain contents: `<id>:<k>=<v>` …
* events: `g<s>.<k>` GET, `m<s>.<k>` MEM, `u<s>.<k>=<v>` / `u<s>.<k>=-` UPDATE Some / None, `a<s>.<k>=…` GET_AND_UPDATE on
  slot `s`; `d<s>` DUP of slot `s` (the duplicate becomes the next slot: same id, own copy of the local layer).
* stored slots: the slots that END in the storage fields, in field order (every other slot is dropped).

Output: `obs <o …> ; diff <id> <action> <updates> ; … ; state <id …>` — one `diff` per stored slot in field order; updates
that carry a value in emitted order, then the removals sorted by key index (their order is Python-set order); every update
is `<key index>=<value>@<key_hash>` with the `expr…` text of `forge_script_expr(key.pack(legacy=True))` computed HERE
(`Impl.BigMap.keyHashChars` with the executable BLAKE2b-256 / double SHA-256; `?` if the model refuses to pack the key) —
| `rejected` (a literal refused) | `unrecognised-source` | `ill-typed` | `bad-op`.

Second line kind: `pack <key type> <key>` → the bytes of `key.pack(legacy=True)` in hex (what the key hash is taken of),
a space, and the `expr…` key hash itself. -/
namespace C15Driver

inductive Init
  | par (p : Int)
  | sid (p : Int)
  | lit (items : List (Nat × Nat))

inductive Ev (τ : CTy)
  | op (slot : Nat) (o : Op (TVal τ) Nat)
  | dup (slot : Nat)

def parseKV (s : String) : Option (Nat × Option Nat) :=
  match s.splitOn "=" with
  | [k, v] => do
    let k ← k.toNat?
    if v = "-" then pure (k, none) else do let v ← v.toNat?; pure (k, some v)
  | _ => none

def parseLitItem (s : String) : Option (Nat × Nat) :=
  match s.splitOn ":" with
  | [k, v] => do
    let k ← k.toNat?
    let v ← v.toNat?
    pure (k, v)
  | _ => none

def parseInit (s : String) : Option Init :=
  let body := (s.drop 1).toString
  match s.front with
  | 'P' => (parseInt body).map .par
  | 'S' => (parseInt body).map .sid
  | 'L' => if body = "" then some (.lit []) else ((body.splitOn ",").mapM parseLitItem).map .lit
  | _ => none

/-- `<id>:<k>=<v>` -/
def parseChain (s : String) : Option (Int × Nat × Nat) :=
  match s.splitOn ":" with
  | [i, kv] => do
    let i ← parseInt i
    let (k, v) ← parseKV kv
    let v ← v
    pure (i, k, v)
  | _ => none

def parseEv {τ : CTy} (univ : List (TVal τ)) (s : String) : Option (Ev τ) :=
  let body := (s.drop 1).toString
  match s.front with
  | 'd' => body.toNat?.map .dup
  | c =>
    match body.splitOn "." with
    | [sl, rest] => do
      let sl ← sl.toNat?
      match c with
      | 'g' => do let k ← rest.toNat?; let key ← univ[k]?; pure (.op sl (.get key))
      | 'm' => do let k ← rest.toNat?; let key ← univ[k]?; pure (.op sl (.mem key))
      | 'u' => do let (k, v) ← parseKV rest; let key ← univ[k]?; pure (.op sl (.update key v))
      | 'a' => do let (k, v) ← parseKV rest; let key ← univ[k]?; pure (.op sl (.getAndUpdate key v))
      | _ => none
    | _ => none

def idx {τ : CTy} (univ : List (TVal τ)) (x : TVal τ) : Nat :=
  match univ.findIdx? (fun v => v == x) with
  | some i => i
  | none => univ.length

def showOpt : Option Nat → String
  | some v => s!"S{v}"
  | none => "N"

def showObs : Obs Nat → Option String
  | .val v => some (showOpt v)
  | .bool true => some "T"
  | .bool false => some "F"
  | .unit => none

def showAction : Action → String
  | .alloc => "alloc"
  | .copy => "copy"
  | .update => "update"

/-- `forge_script_expr(key.pack(legacy=True))` with the executable hashes, as text -/
def keyHashText (v : CVal) : String :=
  match keyHashChars RealHash.cks RealHash.blake v with
  | some s => String.ofList (s.map Char.ofNat)
  | none => "?"

/-- canonical form of the `updates` of an entry: valued updates in emitted order, then the removals by key index; each with
the key hash the entry carries for it -/
def showUpdates {τ : CTy} (univ : List (TVal τ)) (ups : List (TVal τ × String × Option Nat)) : String :=
  let valued := ups.filterMap fun u => u.2.2.map fun v => s!"{idx univ u.1}={v}@{u.2.1}"
  let removed := (ups.filter fun u => u.2.2.isNone).map fun u => (idx univ u.1, u.2.1)
  let removed := (sortByKey Nat.blt removed).map fun e => s!"{e.1}=-@{e.2}"
  joinWith " " (valued ++ removed)

/-- what `get` of a big map attached to context `c` reads from the node -/
def chainOf {τ : CTy} (chains : Int → TVal τ → Option Nat) (c : Ctx) (b : BM (TVal τ) Nat) : TVal τ → Option Nat := fun k =>
  match b.ptr with
  | none => none
  | some bp =>
    match getBigMapValue (some chains) c bp k with
    | .ok v => v
    | .error _ => none

/-- `begin`: every literal was already checked by `from_micheline_value`; contexts are attached in order -/
def attachAll {τ : CTy} (univ : List (TVal τ)) : List Init → Ctx → List (BM (TVal τ) Nat) →
    Option (Option (List (BM (TVal τ) Nat) × Ctx))     -- none: bad-op; some none: rejected
  | [], c, acc => some (some (acc.reverse, c))
  | i :: is, c, acc =>
    match i with
    | .par p => let r := attachContext c (⟨[], [], some p⟩ : BM (TVal τ) Nat) true; attachAll univ is r.2 (r.1 :: acc)
    | .sid p => let r := attachContext c (⟨[], [], some p⟩ : BM (TVal τ) Nat) false; attachAll univ is r.2 (r.1 :: acc)
    | .lit items =>
      match items.mapM (fun e => univ[e.1]?.map fun k => (k, e.2)) with
      | none => none
      | some kvs =>
        match fromLiteral TVal.lt kvs with
        | none => some none
        | some b => let r := attachContext c b false; attachAll univ is r.2 (r.1 :: acc)

/-- literals are parsed (and refused) before anything is attached: a refused literal anywhere refuses the call -/
def anyRefused {τ : CTy} (univ : List (TVal τ)) (is : List Init) : Bool :=
  is.any fun i =>
    match i with
    | .lit items =>
      match items.mapM (fun e => univ[e.1]?.map fun k => (k, e.2)) with
      | none => false
      | some kvs => (fromLiteral TVal.lt kvs).isNone
    | _ => false

def runEvents {τ : CTy} (sh : Generated.C15.UpdateShape) (chains : Int → TVal τ → Option Nat) (c : Ctx) :
    List (Ev τ) → List (BM (TVal τ) Nat) → List String → Option (List (BM (TVal τ) Nat) × List String)
  | [], slots, obs => some (slots, obs.reverse)
  | .dup s :: es, slots, obs =>
    match slots[s]? with
    | none => none
    | some b =>
      match duplicate b with                                         -- same id, own copy of the local layer
      | none => none
      | some b' => runEvents sh chains c es (slots ++ [b']) obs
  | .op s o :: es, slots, obs =>
    match slots[s]? with
    | none => none
    | some b =>
      let r := stepSh sh TVal.lt (chainOf chains c b) b o
      let obs' := match showObs r.1 with | some t => t :: obs | none => obs
      runEvents sh chains c es (slots.set s r.2) obs'

/-- `end`: the stored slots are aggregated in field order, the context is threaded -/
def aggregateAll {τ : CTy} (univ : List (TVal τ)) : List (BM (TVal τ) Nat) → Ctx → List String → List String →
    Option (List String × List String)
  | [], _, diffs, ids => some (diffs.reverse, ids.reverse)
  | b :: bs, c, diffs, ids =>
    match aggregateLazyDiff (fun (k : TVal τ) => keyHashText k.1) c b with
    | none => none
    | some (e, b', c') =>
      let ups := e.updates
      let d := s!"diff {e.id} {showAction e.action} {showUpdates univ ups}"
      let p := match b'.ptr with | some q => toString q | none => "-"
      aggregateAll univ bs c' (d :: diffs) (p :: ids)

/-- second line kind: `pack <type> <value>` → hex of `key.pack(legacy=True)` | `ill-typed` | `refused` -/
def handlePack (toks : List String) : String :=
  match parseTy toks with
  | some (τ, r) =>
    match parseVals τ 1 r with
    | some ([k], []) =>
      match packLegacy k.1 with
      | some bs => toHex bs ++ " " ++ keyHashText k.1
      | none => "refused"
    | _ => "ill-typed"
  | none => "bad-op"

def sections (line : String) : List (List String) := (line.splitOn "|").map words

def handle (line : String) : String :=
  if !Impl.Order.shapesOk then "unrecognised-source" else
  if line.startsWith "pack " then handlePack ((words line).drop 1) else
  match config with
  | none => "unrecognised-source"
  | some sh =>
  match sections line with
  | [head, inits, chain, evs, store] =>
    match parseTy head with
    | some (τ, n :: r) =>
      match n.toNat? with
      | none => "bad-op"
      | some n =>
        match parseVals τ n r with
        | none => "ill-typed"
        | some (univ, rest) =>
          if !rest.isEmpty then "bad-op" else
          match inits.mapM parseInit, chain.mapM parseChain, evs.mapM (parseEv univ), store.mapM (·.toNat?) with
          | some inits, some chain, some evs, some store =>
            let chains : Int → TVal τ → Option Nat := fun i k =>
              (chain.find? (fun e => e.1 == i && (univ[e.2.1]?.map (· == k)).getD false)).map (·.2.2)
            if anyRefused univ inits then "rejected" else
            match attachAll univ inits Ctx.empty [] with
            | none => "bad-op"
            | some none => "rejected"
            | some (some (slots, c)) =>
              match runEvents sh chains c evs slots [] with
              | none => "bad-op"
              | some (slots', obs) =>
                match store.mapM (fun s => slots'[s]?) with
                | none => "bad-op"
                | some stored =>
                  match aggregateAll univ stored c [] [] with
                  | none => "bad-op"
                  | some (diffs, ids) =>
                    s!"obs {joinWith " " obs} ; {joinWith " ; " diffs} ; state {joinWith " " ids}"
          | _, _, _, _ => "bad-op"
    | _ => "bad-op"
  | _ => "bad-op"

end C15Driver

def main : IO Unit := mainWith C15Driver.handle
