import Driver.Util
import PytezosModel.Michelson.BigMap
open Driver Impl.BigMap

/-! line protocol (keys are indices into the sorted key universe, values naturals):

  `<mode> <id> | <on-chain k=v …> | <literal k=v …> | <ops …>`

  mode `fresh`  : storage is the literal (no id): temporary id, action `alloc`
  mode `onchain`: storage is the id `<id>` of an existing big map: registered, action `update`
  mode `copy`   : the *parameter* is the id `<id>` (registered as a copy under a temporary id, action `copy`),
                  the storage holds an unrelated empty literal (takes the next temporary id) that is dropped
  ops: `gK` GET, `mK` MEM, `uK=V` / `uK=-` UPDATE Some / None, `aK=V` / `aK=-` GET_AND_UPDATE

  output: `obs <o …> ; diff <id> <action> <k=v|k=- … sorted by key> ; state <id left in the storage>`
          | `rejected` (literal refused by check_constraints) | `unrecognised-source` | `bad-op` -/

def parseKV (s : String) : Option (Nat × Option Nat) :=
  match s.splitOn "=" with
  | [k, v] => do
    let k ← k.toNat?
    if v = "-" then pure (k, none) else do let v ← v.toNat?; pure (k, some v)
  | _ => none

def parseOp (s : String) : Option (Op Nat Nat) :=
  match s.toList with
  | 'g' :: r => (String.ofList r).toNat?.map .get
  | 'm' :: r => (String.ofList r).toNat?.map .mem
  | 'u' :: r => (parseKV (String.ofList r)).map fun kv => .update kv.1 kv.2
  | 'a' :: r => (parseKV (String.ofList r)).map fun kv => .getAndUpdate kv.1 kv.2
  | _ => none

def showOpt : Option Nat → String
  | some v => s!"S{v}"
  | none => "N"

def showObs : Obs Nat → String
  | .val v => showOpt v
  | .bool true => "T"
  | .bool false => "F"
  | .unit => "U"

def showKV (e : Nat × Option Nat) : String :=
  match e.2 with
  | some v => s!"{e.1}={v}"
  | none => s!"{e.1}=-"

def showAction : Action → String
  | .alloc => "alloc"
  | .copy => "copy"
  | .update => "update"

/-- canonical order for anything derived from a Python set: by key (stable) -/
def sortKV (xs : List (Nat × Option Nat)) : List (Nat × Option Nat) := sortByKey Nat.blt xs

def sections (line : String) : List (List String) := (line.splitOn "|").map words

def handle (line : String) : String :=
  match sections line with
  | [[mode, id], chain, lit, ops] =>
    match id.toInt?, chain.mapM parseKV, lit.mapM parseKV, ops.mapM parseOp with
    | some p, some chain, some lit, some ops =>
      if lit.any (fun e => e.2.isNone) || chain.any (fun e => e.2.isNone) then "bad-op" else
      let chains : Int → Nat → Option Nat := fun i k =>
        if i = p then (chain.find? (fun e => e.1 == k)).bind (·.2) else none
      -- instantiate + begin: parameter first, then storage
      let start : Option (Option (BM Nat Nat × Ctx)) :=
        match mode with
        | "fresh" => some ((fromLiteral Nat.blt (lit.filterMap fun e => e.2.map fun v => (e.1, v))).map fun b =>
            attachContext Ctx.empty b false)
        | "onchain" => some (some (attachContext Ctx.empty (⟨[], [], some p⟩ : BM Nat Nat) false))
        | "copy" =>
          let r := attachContext Ctx.empty (⟨[], [], some p⟩ : BM Nat Nat) true
          let r2 := attachContext r.2 (⟨[], [], none⟩ : BM Nat Nat) false
          some (some (r.1, r2.2))
        | _ => none
      match start with
      | none => "bad-op"
      | some none => "rejected"
      | some (some (b, c)) =>
        match b.ptr with
        | none => "bad-op"
        | some bp =>
          let chainOf : Nat → Option Nat := fun k =>
            match getBigMapValue (some chains) c bp k with
            | .ok v => v
            | .error _ => none
          match run Nat.blt chainOf b ops with
          | none => "unrecognised-source"
          | some (obs, b') =>
            match aggregateLazyDiff (fun (_ : Nat) => ()) c b' with
            | none => "bad-op"
            | some (e, b'', _) =>
              let ups := sortKV (e.updates.map fun u => (u.1, u.2.2))
              let ptr := match b''.ptr with | some q => toString q | none => "-"
              s!"obs {joinWith " " (obs.map showObs)} ; diff {e.id} {showAction e.action} {joinWith " " (ups.map showKV)} ; state {ptr}"
    | _, _, _, _ => "bad-op"
  | _ => "bad-op"

def main : IO Unit := mainWith handle
