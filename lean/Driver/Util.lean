/-! line-protocol plumbing shared by the per-property drivers (`lake env lean --run Driver/Cxx.lean`) -/
namespace Driver

partial def loop (h : IO.FS.Stream) (out : IO.FS.Stream) (f : String → String) : IO Unit := do
  let line ← h.getLine
  if line.isEmpty then return ()
  let l := if line.endsWith "\n" then (line.dropEnd 1).toString else line
  out.putStrLn (f l)
  loop h out f

def mainWith (f : String → String) : IO Unit := do
  let i ← IO.getStdin
  let o ← IO.getStdout
  loop i o f
  o.flush

def words (s : String) : List String := (s.splitOn " ").filter (· ≠ "")

def joinWith (sep : String) (xs : List String) : String := sep.intercalate xs

def hexDigit (c : Char) : Option Nat :=
  if '0' ≤ c ∧ c ≤ '9' then some (c.toNat - '0'.toNat)
  else if 'a' ≤ c ∧ c ≤ 'f' then some (c.toNat - 'a'.toNat + 10)
  else if 'A' ≤ c ∧ c ≤ 'F' then some (c.toNat - 'A'.toNat + 10)
  else none

def parseHexAux : List Char → List Nat → Option (List Nat)
  | [], acc => some acc.reverse
  | [_], _ => none
  | a :: b :: rest, acc => do
    let x ← hexDigit a
    let y ← hexDigit b
    parseHexAux rest ((x * 16 + y) :: acc)

/-- "-" denotes the empty byte string -/
def parseHex (s : String) : Option (List Nat) :=
  if s = "-" then some [] else parseHexAux s.toList []

def hexChar (n : Nat) : Char := if n < 10 then Char.ofNat (48 + n) else Char.ofNat (87 + n)

def toHex (bs : List Nat) : String :=
  if bs.isEmpty then "-" else String.ofList (bs.flatMap fun b => [hexChar (b / 16), hexChar (b % 16)])

end Driver
