import Driver.ValueIO
/-! Line protocol of C11 (and the value / type readers shared with C04).

* `render <r|o|l> <n|t|f> <val>`   → Micheline line of `to_micheline_value(mode, lazy_diff)` | `err`
* `parse <type as Micheline> | <Micheline>` → value tokens of `from_micheline_value` | `err`
* `fmt <int>` → `format_timestamp` text (`Civil.fmtTimestamp` with the year padding read from the source) | `err`
* `tsparse <hex of the string>` → integer of `strict_rfc3339.rfc3339_to_timestamp` (`Civil.parseTimestamp`) | `none`
* `civil <days>` → `y m d` of `Civil.civilFromDays` (vs `datetime.date.fromordinal`)
* `days <y> <m> <d>` → `Civil.daysFromCivil` (vs `datetime.date.toordinal`), `invalid` if not a date of the calendar

Value tokens: `u` · `t`/`f` · `i<int>` · `m<int>` (timestamp) · `r<int>` (bls12_381_fr) · `s<hex>` · `b<hex>` ·
`d<kind>:<tag>:<payload>:<entrypoint>` · `n` · `o v` · `L v` · `R v` · `p0|p1 a b` · `l<n> v…` · `e<n> v…` (set) ·
`M<n> k v …` · `G<ptr|->:<n> k v …` · `c<n> mich…` · `k<tag>:<payload>:<ep>:<amount> item` · `a<ptr|->`. -/
namespace Driver.ValueIO
open Driver VC

def handle (line : String) : String :=
  match words line with
  | "render" :: m :: l :: ts =>
    match modeOf m, lazyOf l, readVal ts with
    | some mode, some lz, some (v, []) =>
      match Impl.Value.toMich Inst.env mode lz v with
      | .ok mm => michToLine mm
      | .error _ => "err"
    | _, _, _ => "bad-op"
  | "parse" :: ts =>
    let (tt, mt) := splitBar ts
    match parseMichTokens tt, parseMichTokens mt with
    | some tm, some m =>
      match tyOfMich tm with
      | some τ =>
        match Impl.Value.ofMich Inst.env τ m with
        | .ok v => joinWith " " (showVal v)
        | .error _ => "err"
      | none => "bad-type"
    | _, _ => "bad-op"
  | ["fmt", t] =>
    match parseInt t with
    | some t =>
      match Civil.fmtTimestamp (Generated.C11.yearPadded == some true) t with
      | some cs => String.ofList cs
      | none => "err"
    | none => "bad-op"
  | ["civil", z] =>
    match parseInt z with
    | some z => let c := Civil.civilFromDays z; s!"{c.1} {c.2.1} {c.2.2}"
    | none => "bad-op"
  | ["days", y, m, d] =>
    match parseInt y, parseInt m, parseInt d with
    | some y, some m, some d =>
      if 1 ≤ m ∧ m ≤ 12 ∧ 1 ≤ d ∧ d ≤ Civil.monthLen y m then toString (Civil.daysFromCivil y m d) else "invalid"
    | _, _, _ => "bad-op"
  | ["tsparse", h] =>
    match hexToString h with
    | some s => match Inst.parseTs s with
      | some t => toString t
      | none => "none"
    | none => "bad-op"
  | _ => "bad-op"

end Driver.ValueIO

def main : IO Unit := Driver.mainWith Driver.ValueIO.handle
