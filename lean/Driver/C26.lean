import Driver.Util
import PytezosModel.Client.Retry
open Driver
open Impl.Retry

/-! line: one word per response the node will give, `status:ct:body:texthex`
  ct    `1` content-type is exactly application/json, `0` otherwise
  body  `I` res.json() raises | `N` a JSON value that is not a list | `L` + elements separated by `,`
        element: `x` not a dict | `d<id>/<kind>` with field `-` absent, `o` not a string, `s<hex>` a string
  text  hex of the ascii text (`-` empty)
answer: `issued sleeps outcome` (sleeps in ms joined by `,`, `-` when none) -/

def parseField (s : String) : Option Field :=
  match s.toList with
  | ['-'] => some .absent
  | ['o'] => some .other
  | 's' :: rest => (parseHexAux rest []).map .str
  | _ => none

def parseElem (s : String) : Option Elem :=
  match s.toList with
  | ['x'] => some .other
  | 'd' :: rest =>
    match (String.ofList rest).splitOn "/" with
    | [a, b] => do
      let id ← parseField a
      let kind ← parseField b
      some (.dict id kind)
    | _ => none
  | _ => none

def parseBody (s : String) : Option Body :=
  match s.toList with
  | ['I'] => some .invalid
  | ['N'] => some .nonList
  | ['L'] => some (.list [])
  | 'L' :: rest => ((String.ofList rest).splitOn ",").mapM parseElem |>.map .list
  | _ => none

def parseResp (w : String) : Option Resp :=
  match w.splitOn ":" with
  | [st, ct, body, text] => do
    let status ← st.toNat?
    let ctJson ← (if ct == "1" then some true else if ct == "0" then some false else none)
    let body ← parseBody body
    let text ← parseHex text
    some ⟨status, ctJson, body, text⟩
  | _ => none

def showCrash : Crash → String
  | .attributeError => "AttributeError"
  | .assertionError => "AssertionError"
  | .keyError => "KeyError"
  | .typeError => "TypeError"
  | .jsonDecodeError => "JSONDecodeError"
  | .unboundLocal => "UnboundLocalError"

/-- outcomes that carry a payload name the response it came from (`issued - 1`) -/
def showOutcome (used : Nat) : Outcome → String
  | .returned => s!"returned@{used}"
  | .rpcUnauthorized => "rpc:unauthorized"
  | .rpcNotFound => "rpc:notfound"
  | .rpcText => s!"rpc:text@{used}"
  | .rpcUnspecified => "rpc:unspecified"
  | .rpcFromLast id => s!"rpc:errors@{used}:{toHex id}"
  | .crash c => "crash:" ++ showCrash c
  | .exhausted => "exhausted"

def handle (line : String) : String :=
  match (words line).mapM parseResp with
  | none => "bad-op"
  | some rs =>
    match request rs with
    | none => "unrecognised-source"
    | some t =>
      let sleeps := if t.sleeps.isEmpty then "-" else joinWith "," (t.sleeps.map toString)
      s!"{t.issued} {sleeps} {showOutcome (t.issued - 1) t.outcome}"

def main : IO Unit := mainWith handle
