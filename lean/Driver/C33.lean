import Driver.MichIO
import PytezosModel.Michelson.ConstantsKey
import PytezosModel.Crypto.RealHash
open Driver

/-- `register_global_constant` with the executable BLAKE2b-256 / double SHA-256 -/
def realKey (e : Mich) : Except Impl.Constants.KeyErr String := Impl.Constants.registerKey RealHash.cks RealHash.blake e

def keyErrName : Impl.Constants.KeyErr → String
  | .unrecognisedSource => "unrecognised-source"
  | .forge => "forge"
  | .b58 _ => "ValueError"

/-- `n` registrations `<key> <expression tokens>` in the order they were made; `<key>` = `*`: the call was
`register_global_constant(expression)` and the key is computed here (`realKey`), otherwise the hex of a key written
directly into `global_constants`.  Each is put in front so that a later registration under the same key wins, as
`dict[key] = value` does.  `none` = malformed line, `some (.error _)` = the key computation failed -/
def readRegistry : Nat → List String → Registry → Option (Except Impl.Constants.KeyErr (Registry × List String))
  | 0, ts, acc => some (.ok (acc, ts))
  | n + 1, ts, acc =>
    match ts with
    | [] => none
    | k :: rest => do
      let (v, rest') ← readMich rest
      if k == "*" then
        match realKey v with
        | .ok key => readRegistry n rest' ((key, v) :: acc)
        | .error e => some (.error e)
      else
        let key ← hexToString k
        readRegistry n rest' ((key, v) :: acc)

/-- lines: `K <expr>` → `ok <key hex>` | `err <why>` (the registration key alone);
`<n> (<key|*> <expr>)*n <script>`  →  `ok <expanded script>` | `unknown <hash hex>` | `bad-constant` | `recursion` -/
def handle (line : String) : String :=
  match words line with
  | "K" :: ts =>
    match parseMichTokens ts with
    | some e =>
      match realKey e with
      | .ok k => "ok " ++ stringToHex k
      | .error err => "err " ++ keyErrName err
    | none => "bad-op"
  | n :: rest =>
    match n.toNat?.bind (fun n => readRegistry n rest []) with
    | some (.ok (reg, ts)) =>
      match parseMichTokens ts with
      | some e =>
        match Impl.Constants.resolve reg e with
        | .ok r => "ok " ++ michToLine r
        | .error (.unknown h) => "unknown " ++ stringToHex h
        | .error .badConstant => "bad-constant"
        | .error .recursion => "recursion"
        | .error .unrecognisedSource => "unrecognised-source"
      | none => "bad-op"
    | some (.error err) => "key-error " ++ keyErrName err
    | none => "bad-op"
  | [] => "bad-op"

def main : IO Unit := mainWith handle
