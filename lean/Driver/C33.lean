import Driver.MichIO
import PytezosModel.Michelson.Constants
open Driver

/-- `n` registrations `<key hex> <expression tokens>` in the order they were made; each is put in front so that a later
registration under the same key wins, as `dict[key] = value` does -/
def readRegistry : Nat → List String → Registry → Option (Registry × List String)
  | 0, ts, acc => some (acc, ts)
  | n + 1, ts, acc =>
    match ts with
    | [] => none
    | k :: rest => do
      let key ← hexToString k
      let (v, rest') ← readMich rest
      readRegistry n rest' ((key, v) :: acc)

/-- line: `<n> (<key hex> <expr>)*n <script>`  →  `ok <expanded script>` | `unknown <hash hex>` | `bad-constant` | `recursion` -/
def handle (line : String) : String :=
  match words line with
  | n :: rest =>
    match n.toNat?.bind (fun n => readRegistry n rest []) with
    | some (reg, ts) =>
      match parseMichTokens ts with
      | some e =>
        match Impl.Constants.resolve reg e with
        | .ok r => "ok " ++ michToLine r
        | .error (.unknown h) => "unknown " ++ stringToHex h
        | .error .badConstant => "bad-constant"
        | .error .recursion => "recursion"
        | .error .unrecognisedSource => "unrecognised-source"
      | none => "bad-op"
    | none => "bad-op"
  | [] => "bad-op"

def main : IO Unit := mainWith handle
