import Driver.MichIO
import PytezosModel.Michelson.ValueEnv
/-! Value / type readers and printers shared by the C11 and C04 drivers (protocol described in Driver/C11.lean).

* `render <r|o|l> <n|t|f> <val>`   → Micheline line of `to_micheline_value(mode, lazy_diff)` | `err`
* `parse <type as Micheline> | <Micheline>` → value tokens of `from_micheline_value` | `err`
* `fmt <int>` → `format_timestamp` text (cross-check of the civil-date arithmetic with `datetime`)
* `tsparse <hex of the string>` → integer of `strict_rfc3339` | `none`

Value tokens: `u` · `t`/`f` · `i<int>` · `m<int>` (timestamp) · `r<int>` (bls12_381_fr) · `s<hex>` · `b<hex>` ·
`d<kind>:<tag>:<payload>:<entrypoint>` · `n` · `o v` · `L v` · `R v` · `p0|p1 a b` · `l<n> v…` · `e<n> v…` (set) ·
`M<n> k v …` · `G<ptr|->:<n> k v …` · `c<n> mich…` · `k<tag>:<payload>:<ep>:<amount> item` · `a<ptr|->`. -/
namespace Driver.ValueIO
open Driver VC

def kindOfName : String → Option DomKind
  | "address" => some .address | "contract" => some .contract | "key_hash" => some .keyHash | "key" => some .key
  | "signature" => some .signature | "chain_id" => some .chainId | "txr" => some .txrAddress | _ => none

def optInt (s : String) : Option (Option Int) := if s = "-" then some none else (parseInt s).map some

def readDom (body : String) : Option (DomKind × DomVal) :=
  match body.splitOn ":" with
  | [k, t, p, e] => do
    let k ← kindOfName k
    let t ← t.toNat?
    let p ← parseHex p
    let e ← parseHex e
    pure (k, { tag := t, payload := p, ep := e })
  | _ => none

mutual
  partial def readVal : List String → Option (Val × List String)
    | [] => none
    | t :: rest =>
      let body := (t.drop 1).toString
      match t.front with
      | 'u' => some (.unit, rest)
      | 't' => some (.bool true, rest)
      | 'f' => some (.bool false, rest)
      | 'i' => (parseInt body).map fun v => (.int v, rest)
      | 'm' => (parseInt body).map fun v => (.timestamp v, rest)
      | 'r' => (parseInt body).map fun v => (.blsFr v, rest)
      | 's' => (hexToString body).map fun s => (.str s, rest)
      | 'b' => (parseHex body).map fun b => (.bytes b, rest)
      | 'd' => (readDom body).map fun (k, d) => (.dom k d, rest)
      | 'n' => some (.none, rest)
      | 'o' => (readVal rest).map fun (v, r) => (.some v, r)
      | 'L' => (readVal rest).map fun (v, r) => (.left v, r)
      | 'R' => (readVal rest).map fun (v, r) => (.right v, r)
      | 'p' => do
        let (a, r1) ← readVal rest
        let (b, r2) ← readVal r1
        pure (.pair (body == "1") a b, r2)
      | 'l' => do
        let n ← body.toNat?
        let (xs, r) ← readVals n rest
        pure (.list xs, r)
      | 'e' => do
        let n ← body.toNat?
        let (xs, r) ← readVals n rest
        pure (.set xs, r)
      | 'M' => do
        let n ← body.toNat?
        let (xs, r) ← readElts n rest
        pure (.map xs, r)
      | 'G' =>
        match body.splitOn ":" with
        | [p, n] => do
          let p ← optInt p
          let n ← n.toNat?
          let (xs, r) ← readElts n rest
          pure (.bigMap p xs, r)
        | _ => none
      | 'c' => do
        let n ← body.toNat?
        let (ms, r) ← readMany n rest
        pure (.lambda ms, r)
      | 'k' =>
        match body.splitOn ":" with
        | [t, p, e, amt] => do
          let t ← t.toNat?
          let p ← parseHex p
          let e ← parseHex e
          let amt ← parseInt amt
          let (item, r) ← readVal rest
          pure (.ticket { tag := t, payload := p, ep := e } item amt, r)
        | _ => none
      | 'a' => (optInt body).map fun p => (.sapling p, rest)
      | _ => none
  partial def readVals : Nat → List String → Option (List Val × List String)
    | 0, ts => some ([], ts)
    | n + 1, ts => do
      let (x, r) ← readVal ts
      let (xs, r') ← readVals n r
      pure (x :: xs, r')
  partial def readElts : Nat → List String → Option (List (Val × Val) × List String)
    | 0, ts => some ([], ts)
    | n + 1, ts => do
      let (k, r) ← readVal ts
      let (v, r1) ← readVal r
      let (xs, r') ← readElts n r1
      pure ((k, v) :: xs, r')
end

def showOptInt : Option Int → String
  | none => "-"
  | some p => toString p

def showDom (d : DomVal) : String := toString d.tag ++ ":" ++ toHex d.payload ++ ":" ++ toHex d.ep

mutual
  partial def showVal : Val → List String
    | .unit => ["u"]
    | .bool b => [if b then "t" else "f"]
    | .int v => ["i" ++ toString v]
    | .timestamp v => ["m" ++ toString v]
    | .blsFr v => ["r" ++ toString v]
    | .str s => ["s" ++ stringToHex s]
    | .bytes b => ["b" ++ toHex b]
    | .dom k d => ["d" ++ Inst.kindName k ++ ":" ++ showDom d]
    | .none => ["n"]
    | .some v => "o" :: showVal v
    | .left v => "L" :: showVal v
    | .right v => "R" :: showVal v
    | .pair n a b => (if n then "p1" else "p0") :: (showVal a ++ showVal b)
    | .list xs => ("l" ++ toString xs.length) :: xs.flatMap showVal
    | .set xs => ("e" ++ toString xs.length) :: xs.flatMap showVal
    | .map kvs => ("M" ++ toString kvs.length) :: kvs.flatMap fun (k, v) => showVal k ++ showVal v
    | .bigMap p kvs => ("G" ++ showOptInt p ++ ":" ++ toString kvs.length) :: kvs.flatMap fun (k, v) => showVal k ++ showVal v
    | .lambda code => ("c" ++ toString code.length) :: showMany code
    | .ticket d item amt => ("k" ++ showDom d ++ ":" ++ toString amt) :: showVal item
    | .sapling p => ["a" ++ showOptInt p]
end

/-- `parse_name(annots, prefix)`: at most one annotation per prefix -/
def parseAnnot (annots : List String) : Option Annot :=
  let fs := annots.filter (·.startsWith "%")
  let ts := annots.filter (·.startsWith ":")
  if fs.length > 1 ∨ ts.length > 1 then none
  else some { field := fs.head?.map fun s => (s.drop 1).toString, type := ts.head?.map fun s => (s.drop 1).toString }

def leafOfPrim : String → Option Leaf
  | "unit" => some .unit | "bool" => some .bool | "int" => some .int | "nat" => some .nat | "mutez" => some .mutez
  | "timestamp" => some .timestamp | "string" => some .string | "bytes" => some .bytes
  | "bls12_381_fr" => some .blsFr | "bls12_381_g1" => some .blsG1 | "bls12_381_g2" => some .blsG2
  | "chest" => some .chest | "chest_key" => some .chestKey | "never" => some .never | "operation" => some .operation
  | "address" => some (.dom .address) | "key_hash" => some (.dom .keyHash) | "key" => some (.dom .key)
  | "signature" => some (.dom .signature) | "chain_id" => some (.dom .chainId)
  | "tx_rollup_l2_address" => some (.dom .txrAddress)
  | _ => none

/-- `MichelsonType.match` on a type expression (`PairType.create_type` right-nests n-ary pairs with unannotated
inner classes) -/
partial def tyOfMich : Mich → Option Ty
  | .prim p args annots => do
    let a ← parseAnnot annots
    match p, args with
    | "option", [t] => do pure (.option (← tyOfMich t) a)
    | "or", [l, r] => do pure (.or (← tyOfMich l) (← tyOfMich r) a)
    | "pair", [l, r] => do pure (.pair (← tyOfMich l) (← tyOfMich r) a)
    | "pair", l :: m :: n :: rest => do
      pure (.pair (← tyOfMich l) (← tyOfMich (.prim "pair" (m :: n :: rest) [])) a)
    | "list", [t] => do pure (.list (← tyOfMich t) a)
    | "set", [t] => do pure (.set (← tyOfMich t) a)
    | "map", [k, v] => do pure (.map (← tyOfMich k) (← tyOfMich v) a)
    | "big_map", [k, v] => do pure (.bigMap (← tyOfMich k) (← tyOfMich v) a)
    | "lambda", [x, y] => do pure (.lambda (← tyOfMich x) (← tyOfMich y) a)
    | "contract", [t] => do pure (.contract (← tyOfMich t) a)
    | "ticket", [t] => do pure (.ticket (← tyOfMich t) a)
    | "sapling_state", [.int n] => some (.saplingState n.toNat a)
    | p, [] => (leafOfPrim p).map fun l => .leaf l a
    | _, _ => none
  | _ => none

def modeOf : String → Option Mode
  | "r" => some .readable | "o" => some .optimized | "l" => some .legacyOptimized | _ => none

def lazyOf : String → Option (Option Bool)
  | "n" => some none | "t" => some (some true) | "f" => some (some false) | _ => none

def splitBar (ts : List String) : List String × List String :=
  (ts.takeWhile (· ≠ "|"), (ts.dropWhile (· ≠ "|")).drop 1)

end Driver.ValueIO
