import Driver.MichIO
import PytezosModel.Micheline.Lower
open Driver

/-- `forge <mich>` → hex | err ;  `unforge <hex>` → mich | err ;  `spec <hex>` → mich | err -/
def handle (line : String) : String :=
  match words line with
  | "forge" :: ts =>
    match parseMichTokens ts with
    | some m => match Impl.Lower.forgeMich m with
      | some bs => toHex bs
      | none => "err"
    | none => "bad-op"
  | ["unforge", h] =>
    match parseHex h with
    | some bs => match Impl.Lower.unforgeMich bs with
      | some m => michToLine m
      | none => "err"
    | none => "bad-op"
  | ["spec", h] =>
    match parseHex h with
    | some bs => match Impl.Lower.specDecodeMich bs with
      | some m => michToLine m
      | none => "err"
    | none => "bad-op"
  | _ => "bad-op"

def main : IO Unit := mainWith handle
