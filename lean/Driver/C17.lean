import Driver.MichIO
import PytezosModel.Michelson.Comb
import PytezosModel.Micheline.Lower
open Driver Impl.Comb

/-! line protocol of C17 (values in prefix form, every node followed by its two annotation tokens
`<field> <type>`: `~` = None, `-` = '', otherwise hex utf-8):
`a f t <mich>` atom · `p f t <l> <r>` pair · `n f t` None · `s f t <v>` Some · `l f t <v>` Left · `r f t <v>` Right · `q<k> f t <v>…` list

  iter <0|1> <val>            → ok <k> <val>…
  get <n> <val>               → ok 1 <val> | err        (GET n on the stack [val]; val of any type — GET 0 is the identity)
  upd <n> <elem> <val>        → ok 1 <val> | err        (UPDATE n on the stack [elem, val]; any types — UPDATE 0 leaves elem)
  unpairn <n> <val>           → ok <k> <val>… | err     (UNPAIR n)
  pairn <n> <k> <val>…        → ok <k'> <val>… | err    (PAIR n on a stack of k values)
  mich <val>                  → <mich> | err            (to_micheline_value('optimized'))
  pack <val>                  → hex | err
  exec <m> <instr>… <k> <val>… → ok <k'> <val>… | err -/

def optTok : Option String → String
  | none => "~"
  | some s => if s.isEmpty then "-" else stringToHex s

def tokOpt (t : String) : Option (Option String) :=
  if t == "~" then some none else if t == "-" then some (some "") else (hexToString t).map some

mutual
  partial def readVal : List String → Option (CVal × List String)
    | k :: f :: t :: rest => do
      let a : Annot := { field := ← tokOpt f, type := ← tokOpt t }
      if k == "a" then
        let (m, r) ← readMich rest
        pure (.atom a m, r)
      else if k == "p" then
        let (l, r1) ← readVal rest
        let (r, r2) ← readVal r1
        pure (.pair a l r, r2)
      else if k == "n" then pure (.none a, rest)
      else if k == "s" then (readVal rest).map fun (v, r) => (.some a v, r)
      else if k == "l" then (readVal rest).map fun (v, r) => (.left a v, r)
      else if k == "r" then (readVal rest).map fun (v, r) => (.right a v, r)
      else if k.startsWith "q" then do
        let n ← (k.drop 1).toString.toNat?
        let (xs, r) ← readVals n rest
        pure (.list a xs, r)
      else none
    | _ => none
  partial def readVals : Nat → List String → Option (List CVal × List String)
    | 0, ts => some ([], ts)
    | n + 1, ts => do
      let (x, r) ← readVal ts
      let (xs, r') ← readVals n r
      pure (x :: xs, r')
end

mutual
  partial def showVal : CVal → List String
    | .atom a m => ["a", optTok a.field, optTok a.type] ++ showMich m
    | .pair a l r => ["p", optTok a.field, optTok a.type] ++ showVal l ++ showVal r
    | .none a => ["n", optTok a.field, optTok a.type]
    | .some a v => ["s", optTok a.field, optTok a.type] ++ showVal v
    | .left a v => ["l", optTok a.field, optTok a.type] ++ showVal v
    | .right a v => ["r", optTok a.field, optTok a.type] ++ showVal v
    | .list a xs => ["q" ++ toString xs.length, optTok a.field, optTok a.type] ++ showVals xs
  partial def showVals : List CVal → List String
    | [] => []
    | x :: xs => showVal x ++ showVals xs
end

def okVals (xs : List CVal) : String := joinWith " " (["ok", toString xs.length] ++ showVals xs)

def outVals : Option (List CVal) → String
  | some xs => okVals xs
  | none => "err"

def readInstr (t : String) : Option Instr :=
  match t.splitOn ":" with
  | ["GET", n] => n.toNat?.map .getN
  | ["UPDATE", n] => n.toNat?.map .updateN
  | ["PAIR", n] => n.toNat?.map .pairN
  | ["UNPAIR", n] => n.toNat?.map .unpairN
  | ["DIG", n] => n.toNat?.map .dig
  | ["DUG", n] => n.toNat?.map .dug
  | ["PAIR"] => some .pair
  | ["UNPAIR"] => some .unpair
  | ["CAR"] => some .car
  | ["CDR"] => some .cdr
  | ["SWAP"] => some .swap
  | ["DUP"] => some .dup
  | ["DROP"] => some .drop
  | _ => none

/-- flags of the source under test: annotation tests of the two traversals, index-first shape of GET n / UPDATE n -/
def run (prog : List Instr) (st : List CVal) : String := outVals (exec chkIter chkUnpairn zeroGet zeroUpd prog st)

def handle (line : String) : String :=
  let bad := "bad-op"
  match words line with
  | "iter" :: nd :: ts =>
    match readVal ts with
    | some (v, []) => if v.isPair then okVals (iterComb chkIter (nd == "1") v) else bad
    | _ => bad
  | "get" :: n :: ts =>
    match n.toNat?, readVal ts with
    | some n, some (v, []) => run [.getN n] [v]
    | _, _ => bad
  | "upd" :: n :: ts =>
    match n.toNat?, readVals 2 ts with
    | some n, some (st, []) => run [.updateN n] st
    | _, _ => bad
  | "unpairn" :: n :: ts =>
    match n.toNat?, readVal ts with
    | some n, some (v, []) => run [.unpairN n] [v]
    | _, _ => bad
  | "pairn" :: n :: k :: ts =>
    match n.toNat?, k.toNat? with
    | some n, some k =>
      match readVals k ts with
      | some (st, []) => run [.pairN n] st
      | _ => bad
    | _, _ => bad
  | "mich" :: ts =>
    match readVal ts with
    | some (v, []) => match toMich chkIter v with
      | some m => michToLine m
      | none => "err"
    | _ => bad
  | "pack" :: ts =>
    match readVal ts with
    | some (v, []) => match (toMich chkIter v).bind Impl.Lower.forgeMich with
      | some bs => toHex (5 :: bs)
      | none => "err"
    | _ => bad
  | "exec" :: m :: ts =>
    match m.toNat? with
    | some m =>
      match (ts.take m).mapM readInstr, ts.drop m with
      | some prog, k :: vs =>
        match k.toNat? with
        | some k => match readVals k vs with
          | some (st, []) => if ts.length ≥ m then run prog st else bad
          | _ => bad
        | none => bad
      | _, _ => bad
    | none => bad
  | _ => bad

def main : IO Unit := mainWith handle
