import Driver.Util
import PytezosModel.Micheline.Basic
/-! Token encoding of Micheline on a protocol line (tokens separated by single spaces):
`I<decimal>` · `S<hex utf8 | ->` · `B<hex | ->` · `P<prim> <nargs> <nannots> <annot-hex>… <arg>…` · `L<n> <item>…`
(the Python side is harness/mich.py). -/
namespace Driver
open Mich

def hexToString (h : String) : Option String := do
  let bs ← parseHex h
  String.fromUTF8? (ByteArray.mk (bs.map UInt8.ofNat).toArray)

def stringToHex (s : String) : String := toHex (s.toUTF8.data.toList.map UInt8.toNat)

def parseInt (s : String) : Option Int :=
  if s.startsWith "-" then (s.drop 1).toString.toNat?.map fun n => -(n : Int) else s.toNat?.map Int.ofNat

mutual
  partial def readMich : List String → Option (Mich × List String)
    | [] => none
    | t :: rest =>
      let body := (t.drop 1).toString
      match t.front with
      | 'I' => (parseInt body).map fun v => (.int v, rest)
      | 'S' => (hexToString body).map fun s => (.str s, rest)
      | 'B' => (parseHex body).map fun b => (.bytes b, rest)
      | 'L' => do
        let n ← body.toNat?
        let (xs, r) ← readMany n rest
        pure (.seq xs, r)
      | 'P' =>
        match rest with
        | na :: nn :: r0 => do
          let na ← na.toNat?
          let nn ← nn.toNat?
          let annHex := r0.take nn
          if annHex.length ≠ nn then none
          let anns ← annHex.mapM hexToString
          let (args, r) ← readMany na (r0.drop nn)
          pure (.prim body args anns, r)
        | _ => none
      | _ => none
  partial def readMany : Nat → List String → Option (List Mich × List String)
    | 0, ts => some ([], ts)
    | n + 1, ts => do
      let (x, r) ← readMich ts
      let (xs, r') ← readMany n r
      pure (x :: xs, r')
end

def parseMichTokens (ts : List String) : Option Mich :=
  match readMich ts with
  | some (m, []) => some m
  | _ => none

mutual
  partial def showMich : Mich → List String
    | .int v => ["I" ++ toString v]
    | .str s => ["S" ++ stringToHex s]
    | .bytes b => ["B" ++ toHex b]
    | .seq xs => ("L" ++ toString xs.length) :: showMany xs
    | .prim p as an => ["P" ++ p, toString as.length, toString an.length] ++ an.map stringToHex ++ showMany as
  partial def showMany : List Mich → List String
    | [] => []
    | x :: xs => showMich x ++ showMany xs
end

def michToLine (m : Mich) : String := joinWith " " (showMich m)

end Driver
