import Driver.C03IO
import PytezosModel.Michelson.Collections
open Driver Driver.C03IO Order

namespace C03Driver

def showCompare : Option Int → String
  | some v => toString v
  | none => if Impl.Order.shapesOk then "raise" else "unrecognised-source"

/-- does any `__lt__` among the values raise?  (then `sorted` raises) -/
def ltRaises {τ : CTy} (vs : List (TVal τ)) : Bool :=
  vs.any fun a => vs.any fun b => (Impl.Order.lt a.1 b.1).isNone

def checkShapeOk (kind : String) : Bool :=
  if kind = "set" then Generated.C03.setCheckShape == some .dupThenSorted
  else Generated.C03.mapCheckShape == some .dupThenSorted

/-- `PUSH (set τ) {…}` / `PUSH (map τ unit) {Elt … Unit; …}` -/
def literal {τ : CTy} (kind : String) (vs : List (TVal τ)) : String :=
  if !(Impl.Order.shapesOk && checkShapeOk kind) then "unrecognised-source"
  else if !(vs.all fun v => Impl.Order.hashable v.1) then "raise"      -- `set(items)` hashes every key first
  else
    match Impl.Coll.checkConstraints TVal.eq TVal.lt vs with
    | .error .duplicate => "reject-dup"
    | .ok _ => if ltRaises vs then "raise" else "accept"
    | .error _ => if ltRaises vs then "raise" else "reject-unsorted"

def indexOf {τ : CTy} (vs : List (TVal τ)) (x : TVal τ) : String :=
  match vs.findIdx? (fun v => decide (v.1 = x.1)) with
  | some i => toString i
  | none => "-1"

/-- EMPTY_SET / EMPTY_MAP, then one UPDATE per value; the final element order as indices into the inputs -/
def insertAll {τ : CTy} (kind : String) (vs : List (TVal τ)) : String :=
  if !Impl.Order.shapesOk then "unrecognised-source"
  else if ltRaises vs then "raise"
  else
    let keys : List (TVal τ) :=
      if kind = "set" then vs.foldl (fun s v => Impl.Coll.Set.add TVal.eq TVal.lt s v) []
      else (vs.foldl (fun m v => (Impl.Coll.Map.update TVal.eq TVal.lt m v (some ())).2) ([] : List (TVal τ × Unit))).map (·.1)
    joinWith " " (keys.map (indexOf vs))

def handle (line : String) : String :=
  match words line with
  | "cmp" :: rest =>
    match parseTy rest with
    | some (τ, r) =>
      match parseVals τ 2 r with
      | some ([a, b], []) => showCompare (Impl.Order.compare a.1 b.1) ++ " " ++ showOrd (Spec.Order.cmp a.1 b.1)
      | _ => "ill-typed"
    | none => "bad-op"
  | op :: kind :: rest =>
    if (op = "lit" || op = "ins") && (kind = "set" || kind = "map") then
      match parseTy rest with
      | some (τ, n :: r) =>
        match n.toNat? with
        | some n =>
          match parseVals τ n r with
          | some (vs, []) => if op = "lit" then literal kind vs else insertAll kind vs
          | _ => "ill-typed"
        | none => "bad-op"
      | _ => "bad-op"
    else "bad-op"
  | _ => "bad-op"

end C03Driver

def main : IO Unit := mainWith C03Driver.handle
