import Driver.InterpMain

def main : IO Unit := Driver.mainWith InterpDriver.handle
