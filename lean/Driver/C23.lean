import Driver.KeyIO
open Driver Driver.KeyIO Impl.Key Impl.OpSign

/-! `wm <chain text hex|none> <kind,kind,…|->`                                  → `ok <watermark hex>` | `err …`
    `opsign <curve> <pub> <sec|none> <chain|none> <kinds> <forged hex> | …`  → `ok <signature text hex>` | `err …`
    `payload <signature text hex|none> <forged hex> | …`                     → `ok <hex>` | `err …`
    `ophash <signature text hex|none> <forged hex> | …`                      → `ok <hash text hex>` | `err …`
    `tables`                                                                  → pass table and watermark bytes -/

def parseKinds (w : String) : List String := if w = "-" then [] else w.splitOn ","

def handle (line : String) : String :=
  let (ws, o) := splitLine line
  let P := mkPrims o
  let C := mkCodec o
  match ws with
  | ["wm", chain, kinds] =>
    match optHex chain with
    | some chain =>
      match watermark C ⟨parseKinds kinds, chain, []⟩ with
      | .ok w => s!"ok {toHex w}"
      | .error e => errStr e
    | none => "bad-op"
  | ["opsign", c, pub, sec, chain, kinds, forged] =>
    match parseCurve c, parseHex pub, optHex sec, optHex chain, parseHex forged with
    | some c, some pub, some sec, some chain, some forged =>
      match signGroup P C ⟨pub, sec, c⟩ ⟨parseKinds kinds, chain, forged⟩ with
      | .ok s => s!"ok {toHex s}"
      | .error e => errStr e
    | _, _, _, _, _ => "bad-op"
  | ["payload", sig, forged] =>
    match optHex sig, parseHex forged with
    | some sig, some forged =>
      match binaryPayload C ⟨[], none, forged⟩ sig with
      | .ok b => s!"ok {toHex b}"
      | .error e => errStr e
    | _, _ => "bad-op"
  | ["ophash", sig, forged] =>
    match optHex sig, parseHex forged with
    | some sig, some forged =>
      match opHash P C ⟨[], none, forged⟩ sig with
      | .ok h => s!"ok {toHex h}"
      | .error e => errStr e
    | _, _ => "bad-op"
  | ["tables"] =>
    let vp := match Generated.C23.validationPasses with
      | none => "none"
      | some rows => ",".intercalate (rows.map fun (r : String × Int) => s!"{r.1}:{r.2}")
    s!"passes={vp} watermarks={repr Generated.C23.signWatermarks}"
  | _ => "bad-op"

def main : IO Unit := mainWith handle
