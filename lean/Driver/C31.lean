import Driver.Util
import PytezosModel.Client.Merkle
open Driver

/-! The model is run with a cheap deterministic 32-byte "hash" (FNV-1a absorption, four multiply-xorshift squeezes);
the harness installs the same function in place of `blake2b` inside `pytezos.crypto.hash`, so both sides build the
same tree.  (The theorems are about an arbitrary `H`; the real BLAKE2b run is the oracle stream of the harness.) -/

def toyAbsorb (h : UInt64) : List Nat → UInt64
  | [] => h
  | b :: bs => toyAbsorb ((h ^^^ b.toUInt64) * 0x100000001b3) bs

def be8 (h : UInt64) : List Nat :=
  [56, 48, 40, 32, 24, 16, 8, 0].map fun s => ((h >>> s.toUInt64) &&& 0xff).toNat

def toySqueeze : Nat → Nat → UInt64 → List Nat
  | 0, _, _ => []
  | k + 1, i, h =>
    let h' := (h ^^^ (h >>> 29) ^^^ i.toUInt64) * 0x9E3779B97F4A7C15
    be8 h' ++ toySqueeze k (i + 1) h'

def toyHash (data : List Nat) : List Nat := toySqueeze 4 1 (toyAbsorb 0xcbf29ce484222325 data)

def out (r : Option (List Nat)) : String :=
  match r with
  | some b => toHex b
  | none => "error"

/-- read `n` groups `<len> <item>*len` -/
def readGroups : Nat → List String → Option (List (List (List Nat)))
  | 0, [] => some []
  | 0, _ => none
  | n + 1, ts =>
    match ts with
    | [] => none
    | c :: rest => do
      let c ← c.toNat?
      if rest.length < c then none
      let items ← (rest.take c).mapM parseHex
      let more ← readGroups n (rest.drop c)
      pure (items :: more)

/-- lines: `L <item>…` · `LL <ngroups> (<len> <item>…)…` · `P <pred> <round> <item>…` (hex items; `-` = empty) -/
def handle (line : String) : String :=
  match words line with
  | "L" :: items =>
    match items.mapM parseHex with
    | some xs => out (Impl.Merkle.opListHashRaw toyHash xs)
    | none => "bad-op"
  | "LL" :: n :: rest =>
    match n.toNat?.bind (fun n => readGroups n rest) with
    | some xss => out (Impl.Merkle.opListListHashRaw toyHash xss)
    | none => "bad-op"
  | "P" :: pred :: round :: items =>
    match parseHex pred, items.mapM parseHex with
    | some p, some xs =>
      match round.toNat? with
      | some r => out (Impl.Merkle.blockPayloadRaw toyHash p r xs)
      | none => if round.startsWith "-" then "error" else "bad-op"   -- negative round: OverflowError
    | _, _ => "bad-op"
  | _ => "bad-op"

def main : IO Unit := mainWith handle
