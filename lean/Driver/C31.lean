import Driver.Util
import PytezosModel.Client.MerkleText
import PytezosModel.Crypto.RealHash
open Driver

/-! Two layers.  `RL` / `RLL` / `RP`: the three public functions end to end (`Impl.MerkleText`) with the executable
BLAKE2b-256 and double SHA-256 (`RealHash`): Base58Check strings in, the `Lo…` / `LLo…` / `vh…` text out, to be compared
with what the unpatched pytezos functions return.  `L` / `LL` / `P`: the raw layer (`Impl.Merkle`) with a toy hash, which
exercises the tree structure independently of BLAKE2b:

The raw model is run with a cheap deterministic 32-byte "hash" (FNV-1a absorption, four multiply-xorshift squeezes);
the harness installs the same function in place of `blake2b` inside `pytezos.crypto.hash`, so both sides build the
same tree.  (The theorems are about an arbitrary `H`; the real BLAKE2b run is the oracle stream of the harness.) -/

def toyAbsorb (h : UInt64) : List Nat → UInt64
  | [] => h
  | b :: bs => toyAbsorb ((h ^^^ b.toUInt64) * 0x100000001b3) bs

def be8 (h : UInt64) : List Nat :=
  [56, 48, 40, 32, 24, 16, 8, 0].map fun s => ((h >>> s.toUInt64) &&& 0xff).toNat

def toySqueeze : Nat → Nat → UInt64 → List Nat
  | 0, _, _ => []
  | k + 1, i, h =>
    let h' := (h ^^^ (h >>> 29) ^^^ i.toUInt64) * 0x9E3779B97F4A7C15
    be8 h' ++ toySqueeze k (i + 1) h'

def toyHash (data : List Nat) : List Nat := toySqueeze 4 1 (toyAbsorb 0xcbf29ce484222325 data)

def out (r : Option (List Nat)) : String :=
  match r with
  | some b => toHex b
  | none => "error"

/-- read `n` groups `<len> <item>*len` -/
def readGroups : Nat → List String → Option (List (List (List Nat)))
  | 0, [] => some []
  | 0, _ => none
  | n + 1, ts =>
    match ts with
    | [] => none
    | c :: rest => do
      let c ← c.toNat?
      if rest.length < c then none
      let items ← (rest.take c).mapM parseHex
      let more ← readGroups n (rest.drop c)
      pure (items :: more)

def errName : Impl.MerkleText.Err → String
  | .unrecognisedSource => "unrecognised-source"
  | .b58 _ => "ValueError"
  | .overflow => "OverflowError"
  | .index => "IndexError"

def outText (r : Except Impl.MerkleText.Err (List Nat)) : String :=
  match r with
  | .ok s => "ok " ++ toHex s
  | .error e => "err " ++ errName e

/-- lines: `L <item>…` · `LL <ngroups> (<len> <item>…)…` · `P <pred> <round> <item>…` (hex items; `-` = empty): raw
layer, toy hash;  `RL` / `RLL` / `RP`: same shapes, items = Base58Check strings (hex of the ASCII text), real hashes,
output `ok <text hex>` | `err ValueError` | `err OverflowError` -/
def handle (line : String) : String :=
  match words line with
  | "L" :: items =>
    match items.mapM parseHex with
    | some xs => out (Impl.Merkle.opListHashRaw toyHash xs)
    | none => "bad-op"
  | "LL" :: n :: rest =>
    match n.toNat?.bind (fun n => readGroups n rest) with
    | some xss => out (Impl.Merkle.opListListHashRaw toyHash xss)
    | none => "bad-op"
  | "P" :: pred :: round :: items =>
    match parseHex pred, items.mapM parseHex with
    | some p, some xs =>
      match round.toNat? with
      | some r => out (Impl.Merkle.blockPayloadRaw toyHash p r xs)
      | none => if round.startsWith "-" then "error" else "bad-op"   -- negative round: OverflowError
    | _, _ => "bad-op"
  | "RL" :: items =>
    match items.mapM parseHex with
    | some xs => outText (Impl.MerkleText.operationListHash RealHash.cks RealHash.blake xs)
    | none => "bad-op"
  | "RLL" :: n :: rest =>
    match n.toNat?.bind (fun n => readGroups n rest) with
    | some xss => outText (Impl.MerkleText.operationListListHash RealHash.cks RealHash.blake xss)
    | none => "bad-op"
  | "RP" :: pred :: round :: items =>
    match parseHex pred, items.mapM parseHex with
    | some p, some xs =>
      match round.toNat? with
      | some r => outText (Impl.MerkleText.blockPayloadHash RealHash.cks RealHash.blake p r xs)
      | none =>
        -- negative round: `to_bytes` raises OverflowError, after the predecessor has been decoded
        if round.startsWith "-" then
          match Impl.Encoding.base58Decode RealHash.cks p with
          | .error _ => "err ValueError"
          | .ok _ => "err OverflowError"
        else "bad-op"
    | _, _ => "bad-op"
  | _ => "bad-op"

def main : IO Unit := mainWith handle
