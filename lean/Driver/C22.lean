import Driver.Util
import PytezosModel.Michelson.Session
open Driver Impl.Session Impl.BigMap

/-! line protocol: one session per line, cells separated by `|`, instructions by blanks:

  basic      `push:N some none unit ebm update get mem gau dup drop swap pair car cdr nil add failwith`
  sections   `storage:T` `parameter:T` (T = unit | nat | bm | pbn | pbb | onat) `code:b,b,…`
  jupyter    `begin:L:L` `run:L:L` `commit` `dropall` `bmd` `parseerror`
  literal L  `U` | `iN` | `s` / `sK=V,K=V` | `P(L;L)`

output: per cell `F` or `ok <outs>`, then the stack (every big map with the contents of the context it points at)
and the interpreter's context; cells joined by ` | `.  `unrecognised-source` / `bad-op` as usual. -/

def parseTy : String → Option Ty
  | "unit" => some .unit
  | "nat" => some .nat
  | "bm" => some .bigmap
  | "pbn" => some (.pair .bigmap .nat)
  | "pbb" => some (.pair .bigmap .bigmap)
  | "onat" => some (.option .nat)
  | _ => none

def showTy : Ty → String
  | .unit => "unit"
  | .nat => "nat"
  | .bool => "bool"
  | .option t => s!"option({showTy t})"
  | .pair a b => s!"pair({showTy a},{showTy b})"
  | .bigmap => "bm"
  | .listOp => "listop"

def parseBasic (s : String) : Option Basic :=
  match s.splitOn ":" with
  | ["push", n] => n.toNat?.map .push
  | ["some"] => some .some
  | ["none"] => some (.none_ .nat)
  | ["unit"] => some .unit
  | ["ebm"] => some .emptyBigMap
  | ["update"] => some .update
  | ["get"] => some .get
  | ["mem"] => some .mem
  | ["gau"] => some .getAndUpdate
  | ["dup"] => some .dup
  | ["drop"] => some .drop
  | ["swap"] => some .swap
  | ["pair"] => some .pair
  | ["car"] => some .car
  | ["cdr"] => some .cdr
  | ["nil"] => some .nilOp
  | ["add"] => some .add
  | ["failwith"] => some .failwith
  | _ => none

def showBasic : Basic → String
  | .push n => s!"push:{n}"
  | .some => "some" | .none_ _ => "none" | .unit => "unit" | .emptyBigMap => "ebm" | .update => "update" | .get => "get"
  | .mem => "mem" | .getAndUpdate => "gau" | .dup => "dup" | .drop => "drop" | .swap => "swap" | .pair => "pair"
  | .car => "car" | .cdr => "cdr" | .nilOp => "nil" | .add => "add" | .failwith => "failwith"

def parseElt (s : String) : Option (Nat × Nat) :=
  match s.splitOn "=" with
  | [k, v] => do let k ← k.toNat?; let v ← v.toNat?; pure (k, v)
  | _ => none

/-- literal parser over a character list with fuel; returns the rest -/
def parseLitAux : Nat → List Char → Option (Lit × List Char)
  | 0, _ => none
  | _ + 1, 'U' :: r => some (.unit, r)
  | _ + 1, 'i' :: r =>
    let ds := r.takeWhile fun c => c.isDigit || c == '-'
    (String.ofList ds).toInt?.map fun n => (.int n, r.drop ds.length)
  | _ + 1, 's' :: r =>
    let body := r.takeWhile fun c => c.isDigit || c == '=' || c == ','
    let rest := r.drop body.length
    if body.isEmpty then some (.seq [], rest)
    else (((String.ofList body).splitOn ",").mapM parseElt).map fun es => (.seq es, rest)
  | f + 1, 'P' :: '(' :: r =>
    match parseLitAux f r with
    | some (a, ';' :: r1) =>
      match parseLitAux f r1 with
      | some (b, ')' :: r2) => some (.pair a b, r2)
      | _ => none
    | _ => none
  | _ + 1, _ => none

def parseLit' (s : String) : Option Lit :=
  match parseLitAux 16 s.toList with
  | some (l, []) => some l
  | _ => none

def parseInstr (s : String) : Option Instr :=
  match parseBasic s with
  | some b => some (.basic b)
  | none =>
    match s.splitOn ":" with
    | ["storage", t] => (parseTy t).map .declStorage
    | ["parameter", t] => (parseTy t).map .declParam
    | "code" :: rest =>
      let bs := joinWith ":" rest
      (if bs = "" then some [] else (bs.splitOn ",").mapM parseBasic).map .declCode
    | ["begin", p, st] => do let p ← parseLit' p; let st ← parseLit' st; pure (.begin_ p st)
    | ["run", p, st] => do let p ← parseLit' p; let st ← parseLit' st; pure (.run p st)
    | ["commit"] => some .commit
    | ["dropall"] => some .dropAll
    | ["bmd"] => some .bigMapDiff
    | ["parseerror"] => some .parseError
    | _ => none

def showKV (e : Nat × Option Nat) : String :=
  match e.2 with
  | some v => s!"{e.1}={v}"
  | none => s!"{e.1}=-"

def showPtr : Option Int → String
  | some p => toString p
  | none => "-"

def showBM (b : BM Nat Nat) : String :=
  let rem := (sortByKey Nat.blt (b.removed.map fun k => (k, ()))).map fun e => toString e.1
  s!"BM[{showPtr b.ptr};{joinWith "," (b.items.map showKV)};{joinWith "," rem}]"

def showBig (c : Impl.BigMap.Ctx) : String :=
  let reg := c.bigMaps.map fun e => s!"{e.1}:{e.2.1}:{if e.2.2 then "c" else "r"}"
  s!"{c.tmpIdx}/{c.allocIdx}/{joinWith "," reg}"

def showOptTy : Option Ty → String
  | some t => showTy t
  | none => "-"

def showCtx : Option Impl.Session.Ctx → String
  | none => "dangling"
  | some c =>
    let code := match c.code with
      | some bs => joinWith "," (bs.map showBasic)
      | none => "-"
    s!"ctx(st={showOptTy c.storageTy};pt={showOptTy c.paramTy};code={code};{showBig c.big})"

/-- a value; `look` renders what a big map's context reference points at (`none`: do not show) -/
def showVal {ρ : Type} (look : Option (ρ → String)) : Val ρ → String
  | .unit => "Unit"
  | .nat n => toString n
  | .bool true => "True"
  | .bool false => "False"
  | .none _ => "None"
  | .some v => s!"Some({showVal look v})"
  | .pair a b => s!"Pair({showVal look a},{showVal look b})"
  | .nilOp => "[]"
  | .bigmap b r =>
    match look with
    | some f => s!"{showBM b}@{f r}"
    | none => showBM b

def showAction : Action → String
  | .alloc => "alloc"
  | .copy => "copy"
  | .update => "update"

def showEntry (e : Entry) : String :=
  let ups := sortByKey Nat.blt (e.updates.map fun u => (u.1, u.2.2))
  s!"{e.id}:{showAction e.action}:{joinWith "," (ups.map showKV)}"

def showOut (o : Out) : String :=
  let res := match o.result with
    | some v => showVal (ρ := Unit) none v
    | none => "-"
  s!"{o.kind}[{joinWith ";" (o.diff.map showEntry)}]=>{res}"

def showState (σ : State) : String :=
  let look : Nat → String := fun r =>
    match σ.heap[r]? with
    | some c => showBig c.big
    | none => "dangling"
  s!"stack {joinWith " " (σ.stack.map (showVal (some look)))} ; {showCtx σ.heap[σ.cur]?}"

def runCells (rb : Bool) : State → List Cell → List String
  | _, [] => []
  | σ, c :: cs =>
    let r := cellWith rb σ c
    let head := match r.2 with
      | .failed => "F"
      | .ok outs => s!"ok {joinWith " " (outs.map showOut)}"
    s!"{head} ; {showState r.1}" :: runCells rb r.1 cs

def handle (line : String) : String :=
  match ((line.splitOn "|").map words).mapM (fun ws => ws.mapM parseInstr) with
  | none => "bad-op"
  | some cells =>
    match Impl.Session.config, Impl.BigMap.config with
    | some rb, some _ => joinWith " | " (runCells rb State.init cells)
    | _, _ => "unrecognised-source"

def main : IO Unit := mainWith handle
