import Driver.Util
import PytezosModel.Michelson.Session
open Driver Impl.Session Impl.BigMap

/-! line protocol: one session per line, cells separated by `|`, instructions by blanks:

  basic      `push:N some none unit ebm update get mem gau dup drop swap pair car cdr nil add failwith`
             `dropn:N dig:N dug:N dupn:N` (N ≥ 1 for `dupn`) `amount balance now sender source`
  DIP        `dip{ … }` and `dip:N{ … }` — the closing brace is its own token; bodies nest
  sections   `storage:T` `parameter:T` (T = unit | nat | bm | pbn | pbb | onat) `code:b,b,…` (same tokens, `,` for blank)
  jupyter    `begin:L:L` `run:L:L` `commit` `dropall` `bmd` `parseerror`
             `patch:F` `patch:F:V`  (F = AMOUNT | BALANCE | CHAIN_ID | SENDER | SOURCE | NOW; V = `iN` int, `e` empty
             string, `aK` address K of the harness table, `xK` another non-empty string)
  literal L  `U` | `iN` | `s` / `sK=V,K=V` | `P(L;L)`

output: per cell `F@<protected when the cell raised>` or `ok <outs>`, then the stack (every big map with the contents of the context it points at), its
`protected` counter and the interpreter's context; cells joined by ` | `.  `unrecognised-source` / `bad-op` as usual. -/

def parseTy : String → Option Ty
  | "unit" => some .unit
  | "nat" => some .nat
  | "bm" => some .bigmap
  | "pbn" => some (.pair .bigmap .nat)
  | "pbb" => some (.pair .bigmap .bigmap)
  | "onat" => some (.option .nat)
  | _ => none

def showTy : Ty → String
  | .unit => "unit"
  | .nat => "nat"
  | .bool => "bool"
  | .option t => s!"option({showTy t})"
  | .pair a b => s!"pair({showTy a},{showTy b})"
  | .bigmap => "bm"
  | .listOp => "listop"
  | .mutez => "mutez"
  | .timestamp => "timestamp"
  | .address => "address"

def parseBasic (s : String) : Option Basic :=
  match s.splitOn ":" with
  | ["push", n] => n.toNat?.map .push
  | ["some"] => some .some
  | ["none"] => some (.none_ .nat)
  | ["unit"] => some .unit
  | ["ebm"] => some .emptyBigMap
  | ["update"] => some .update
  | ["get"] => some .get
  | ["mem"] => some .mem
  | ["gau"] => some .getAndUpdate
  | ["dup"] => some .dup
  | ["drop"] => some .drop
  | ["swap"] => some .swap
  | ["pair"] => some .pair
  | ["car"] => some .car
  | ["cdr"] => some .cdr
  | ["nil"] => some .nilOp
  | ["add"] => some .add
  | ["failwith"] => some .failwith
  | ["dropn", n] => n.toNat?.map .dropn
  | ["dig", n] => n.toNat?.map .dig
  | ["dug", n] => n.toNat?.map .dug
  | ["dupn", n] => n.toNat?.bind fun k => if k = 0 then none else some (.dupn (k - 1))
  | ["amount"] => some .amount
  | ["balance"] => some .balance
  | ["now"] => some .now
  | ["sender"] => some .sender
  | ["source"] => some .source
  | _ => none

/-- tokens → programs, up to the closing brace of the enclosing body (left in the rest) or the end -/
def parseProgs {α : Type} (leaf : String → Option α) : Nat → List String → Option (List (Prog α) × List String)
  | 0, _ => none
  | _ + 1, [] => some ([], [])
  | _ + 1, "}" :: rest => some ([], "}" :: rest)
  | f + 1, tok :: rest =>
    let dipCount : Option (Option Nat) :=
      if tok = "dip{" then some none
      else if tok.startsWith "dip:" && tok.endsWith "{" then
        (((tok.drop 4).toString.dropEnd 1).toString.toNat?).map some
      else none
    match dipCount with
    | some cnt =>
      match parseProgs leaf f rest with
      | some (body, "}" :: rest') =>
        (parseProgs leaf f rest').map fun r =>
          ((match cnt with | none => Prog.dip body | some n => Prog.dipn n body) :: r.1, r.2)
      | _ => none
    | none =>
      if tok.startsWith "dip" then none else
      match leaf tok with
      | some a => (parseProgs leaf f rest).map fun r => (.op a :: r.1, r.2)
      | none => none

def parseAll {α : Type} (leaf : String → Option α) (toks : List String) : Option (List (Prog α)) :=
  match parseProgs leaf (toks.length + 1) toks with
  | some (ps, []) => some ps
  | _ => none

def showBasic : Basic → String
  | .push n => s!"push:{n}"
  | .some => "some" | .none_ _ => "none" | .unit => "unit" | .emptyBigMap => "ebm" | .update => "update" | .get => "get"
  | .mem => "mem" | .getAndUpdate => "gau" | .dup => "dup" | .drop => "drop" | .swap => "swap" | .pair => "pair"
  | .car => "car" | .cdr => "cdr" | .nilOp => "nil" | .add => "add" | .failwith => "failwith"
  | .dropn n => s!"dropn:{n}" | .dig n => s!"dig:{n}" | .dug n => s!"dug:{n}" | .dupn d => s!"dupn:{d + 1}"
  | .amount => "amount" | .balance => "balance" | .now => "now" | .sender => "sender" | .source => "source"

mutual
def showProg {α : Type} (leaf : α → String) : Prog α → List String
  | .op a => [leaf a]
  | .dip body => "dip{" :: showProgs leaf body ++ ["}"]
  | .dipn n body => s!"dip:{n}\{" :: showProgs leaf body ++ ["}"]
def showProgs {α : Type} (leaf : α → String) : List (Prog α) → List String
  | [] => []
  | p :: ps => showProg leaf p ++ showProgs leaf ps
end

def parseElt (s : String) : Option (Nat × Nat) :=
  match s.splitOn "=" with
  | [k, v] => do let k ← k.toNat?; let v ← v.toNat?; pure (k, v)
  | _ => none

/-- literal parser over a character list with fuel; returns the rest -/
def parseLitAux : Nat → List Char → Option (Lit × List Char)
  | 0, _ => none
  | _ + 1, 'U' :: r => some (.unit, r)
  | _ + 1, 'i' :: r =>
    let ds := r.takeWhile fun c => c.isDigit || c == '-'
    (String.ofList ds).toInt?.map fun n => (.int n, r.drop ds.length)
  | _ + 1, 's' :: r =>
    let body := r.takeWhile fun c => c.isDigit || c == '=' || c == ','
    let rest := r.drop body.length
    if body.isEmpty then some (.seq [], rest)
    else (((String.ofList body).splitOn ",").mapM parseElt).map fun es => (.seq es, rest)
  | f + 1, 'P' :: '(' :: r =>
    match parseLitAux f r with
    | some (a, ';' :: r1) =>
      match parseLitAux f r1 with
      | some (b, ')' :: r2) => some (.pair a b, r2)
      | _ => none
    | _ => none
  | _ + 1, _ => none

def parseLit' (s : String) : Option Lit :=
  match parseLitAux 16 s.toList with
  | some (l, []) => some l
  | _ => none

def parseField : String → Option Field
  | "AMOUNT" => some .amount
  | "BALANCE" => some .balance
  | "CHAIN_ID" => some .chainId
  | "SENDER" => some .sender
  | "SOURCE" => some .source
  | "NOW" => some .now
  | _ => none

def parsePatchVal (s : String) : Option PatchVal :=
  match s.toList with
  | ['e'] => some (.str .empty)
  | 'i' :: r => (String.ofList r).toInt?.map .int
  | 'a' :: r => (String.ofList r).toNat?.map fun k => .str (.addr k)
  | 'x' :: r => (String.ofList r).toNat?.map fun k => .str (.other k)
  | _ => none

def parseInstr (s : String) : Option Instr :=
  match parseBasic s with
  | some b => some (.basic b)
  | none =>
    match s.splitOn ":" with
    | ["storage", t] => (parseTy t).map .declStorage
    | ["parameter", t] => (parseTy t).map .declParam
    | "code" :: rest =>
      let bs := joinWith ":" rest
      (if bs = "" then some [] else parseAll parseBasic (bs.splitOn ",")).map .declCode
    | ["patch", f] => (parseField f).map fun f => .patch f none
    | ["patch", f, v] => do let f ← parseField f; let v ← parsePatchVal v; pure (.patch f (some v))
    | ["begin", p, st] => do let p ← parseLit' p; let st ← parseLit' st; pure (.begin_ p st)
    | ["run", p, st] => do let p ← parseLit' p; let st ← parseLit' st; pure (.run p st)
    | ["commit"] => some .commit
    | ["dropall"] => some .dropAll
    | ["bmd"] => some .bigMapDiff
    | ["parseerror"] => some .parseError
    | _ => none

def showKV (e : Nat × Option Nat) : String :=
  match e.2 with
  | some v => s!"{e.1}={v}"
  | none => s!"{e.1}=-"

def showPtr : Option Int → String
  | some p => toString p
  | none => "-"

def showBM (b : BM Nat Nat) : String :=
  let rem := (sortByKey Nat.blt (b.removed.map fun k => (k, ()))).map fun e => toString e.1
  s!"BM[{showPtr b.ptr};{joinWith "," (b.items.map showKV)};{joinWith "," rem}]"

def showBig (c : Impl.BigMap.Ctx) : String :=
  let reg := c.bigMaps.map fun e => s!"{e.1}:{e.2.1}:{if e.2.2 then "c" else "r"}"
  s!"{c.tmpIdx}/{c.allocIdx}/{joinWith "," reg}"

def showOptTy : Option Ty → String
  | some t => showTy t
  | none => "-"

def showOptInt : Option Int → String
  | some n => toString n
  | none => "-"

def showStr : Str → String
  | .empty => "e"
  | .addr i => s!"a{i}"
  | .other i => s!"x{i}"

def showOptStr : Option Str → String
  | some x => showStr x
  | none => "-"

def showCtx : Option Impl.Session.Ctx → String
  | none => "dangling"
  | some c =>
    let code := match c.code with
      | some bs => joinWith "," (showProgs showBasic bs)
      | none => "-"
    let env := s!"am={showOptInt c.amount};ba={showOptInt c.balance};now={showOptInt c.now};se={showOptStr c.sender};so={showOptStr c.source};ch={showOptStr c.chainId}"
    s!"ctx(st={showOptTy c.storageTy};pt={showOptTy c.paramTy};code={code};{showBig c.big};{env})"

/-- a value; `look` renders what a big map's context reference points at (`none`: do not show) -/
def showVal {ρ : Type} (look : Option (ρ → String)) : Val ρ → String
  | .unit => "Unit"
  | .nat n => toString n
  | .bool true => "True"
  | .bool false => "False"
  | .none _ => "None"
  | .some v => s!"Some({showVal look v})"
  | .pair a b => s!"Pair({showVal look a},{showVal look b})"
  | .nilOp => "[]"
  | .mutez n => s!"mutez:{n}"
  | .timestamp z => s!"ts:{z}"
  | .address .dummy => "addr:dummy"
  | .address (.known i) => s!"addr:a{i}"
  | .bigmap b r =>
    match look with
    | some f => s!"{showBM b}@{f r}"
    | none => showBM b

def showAction : Action → String
  | .alloc => "alloc"
  | .copy => "copy"
  | .update => "update"

def showEntry (e : Entry) : String :=
  let ups := sortByKey Nat.blt (e.updates.map fun u => (u.1, u.2.2))
  s!"{e.id}:{showAction e.action}:{joinWith "," (ups.map showKV)}"

def showOut (o : Out) : String :=
  let res := match o.result with
    | some v => showVal (ρ := Unit) none v
    | none => "-"
  s!"{o.kind}[{joinWith ";" (o.diff.map showEntry)}]=>{res}"

def showState (σ : State) : String :=
  let look : Nat → String := fun r =>
    match σ.heap[r]? with
    | some c => showBig c.big
    | none => "dangling"
  s!"stack {joinWith " " (σ.stack.items.map (showVal (some look)))} ; prot={σ.stack.prot} ; {showCtx σ.heap[σ.cur]?}"

/-- the `protected` counter of the live stack object at the moment the cell raised (what an in-place restore keeps) -/
def failProt (σ : State) (c : Cell) : String :=
  match σ.heap[σ.cur]? with
  | none => "?"
  | some ctx =>
    match runInstrs heapStore σ.cur c σ.stack (σ.heap ++ [ctx]) with
    | (.error f, _) => toString f.prot
    | (.ok _, _) => "?"

def runCells (rb : Cfg) : State → List Cell → List String
  | _, [] => []
  | σ, c :: cs =>
    let r := cellWith rb σ c
    let head := match r.2 with
      | .failed => s!"F@{failProt σ c}"
      | .ok outs => s!"ok {joinWith " " (outs.map showOut)}"
    s!"{head} ; {showState r.1}" :: runCells rb r.1 cs

def handle (line : String) : String :=
  match ((line.splitOn "|").map words).mapM (parseAll parseInstr) with
  | none => "bad-op"
  | some cells =>
    match Impl.Session.config, Impl.BigMap.config with
    | some rb, some _ => joinWith " | " (runCells rb State.init cells)
    | _, _ => "unrecognised-source"

def main : IO Unit := mainWith handle
