import Driver.Util
import PytezosModel.Michelson.Arith
open Driver
open Impl.Arith
open Generated.C16 (Prim)

namespace C16Driver

def primName : Prim → String
  | .int => "int" | .nat => "nat" | .mutez => "mutez" | .timestamp => "timestamp" | .bytes => "bytes" | .bool => "bool"
  | .bls12_381_fr => "bls12_381_fr" | .bls12_381_g1 => "bls12_381_g1" | .bls12_381_g2 => "bls12_381_g2"

/-- operand as `PUSH ty v` would build it (values PUSH rejects are rejected here too) -/
def parseVal (ty v : String) : Option Val :=
  let num (t : NTy) : Option Val := do
    let z ← v.toInt?
    let x := Val.num t z
    if decide x.WF then some x else none
  match ty with
  | "int" => num .int
  | "nat" => num .nat
  | "mutez" => num .mutez
  | "timestamp" => num .timestamp
  | "bytes" => do
    let bs ← parseHex v
    some (.bytes bs)
  | "bool" => if v = "True" then some (.bool true) else if v = "False" then some (.bool false) else none
  | _ => none

def showVal : Val → String
  | .num _ v => toString v
  | .bytes bs => toHex bs
  | .bool b => if b then "True" else "False"

def showOut : Out → String
  | .one v => s!"ok {primName v.prim} {showVal v}"
  | .none1 t => s!"ok option({primName t}) None"
  | .some1 v => s!"ok option({primName v.prim}) Some({showVal v})"
  | .none2 q r => s!"ok option(pair({primName q},{primName r})) None"
  | .some2 q r => s!"ok option(pair({primName q.prim},{primName r.prim})) Some(Pair({showVal q},{showVal r}))"

def showRes : Except Err Out → String
  | .ok o => showOut o
  | .error .assertion => "fail assertion"
  | .error .overflow => "fail overflow"
  | .error .unrecognised => "unrecognised-source"

def unary : String → Option (Val → Except Err Out)
  | "ABS" => some abs | "NEG" => some neg | "ISNAT" => some isnat | "INT" => some Impl.Arith.int
  | "NAT" => some Impl.Arith.nat | "BYTES" => some Impl.Arith.bytes | "NOT" => some Impl.Arith.not
  | "BYTES_INT" => some bytesInt | "BYTES_NAT" => some bytesNat
  | _ => none

def binary : String → Option (Val → Val → Except Err Out)
  | "ADD" => some add | "SUB" => some sub | "SUB_MUTEZ" => some subMutez | "MUL" => some mul | "EDIV" => some ediv
  | "LSL" => some lsl | "LSR" => some lsr | "AND" => some Impl.Arith.and | "OR" => some Impl.Arith.or
  | "XOR" => some Impl.Arith.xor
  | _ => none

def bool01 (s : String) : Option Bool := if s = "1" then some true else if s = "0" then some false else none

/-- direct probes of the CPython layer -/
def pyLine : List String → Option String
  | ["PY_BITLEN", z] => do let z ← z.toInt?; some (toString (PyNum.bitLength z))
  | ["PY_TOBYTES", z, len, s] => do
    let z ← z.toInt?; let len ← len.toNat?; let s ← bool01 s
    match PyNum.toBytes z len s with
    | some bs => some (toHex bs)
    | none => some "overflow"
  | ["PY_FROMBYTES", h, s] => do
    let bs ← parseHex h; let s ← bool01 s
    some (toString (PyNum.fromBytes bs s))
  | ["PY_LSTRIP", h] => do let bs ← parseHex h; some (toHex (PyNum.lstrip0 bs))
  | ["PY_DIVMOD", a, b] => do
    let a ← a.toInt?; let b ← b.toInt?
    if b = 0 then none else
    let (q, r) := PyNum.divmod a b
    some s!"{q} {r}"
  | ["PY_SHL", a, s] => do let a ← a.toInt?; let s ← s.toNat?; some (toString (PyNum.shl a s))
  | ["PY_SHR", a, s] => do let a ← a.toInt?; let s ← s.toNat?; some (toString (PyNum.shr a s))
  | ["PY_AND", a, b] => do let a ← a.toInt?; let b ← b.toInt?; some (toString (PyNum.and a b))
  | ["PY_OR", a, b] => do let a ← a.toInt?; let b ← b.toInt?; some (toString (PyNum.or a b))
  | ["PY_XOR", a, b] => do let a ← a.toInt?; let b ← b.toInt?; some (toString (PyNum.xor a b))
  | ["PY_INVERT", a] => do let a ← a.toInt?; some (toString (PyNum.invert a))
  | ["PY_ABS", a] => do let a ← a.toInt?; some (toString (PyNum.abs a))
  | _ => none

/-- `OP ty v` (operand = top of stack) or `OP ty_top v_top ty_second v_second` -/
def handle (line : String) : String :=
  match words line with
  | [op, ta, va] =>
    match unary op, parseVal ta va with
    | some f, some a => showRes (f a)
    | _, _ => (pyLine [op, ta, va]).getD "bad-op"
  | [op, ta, va, tb, vb] =>
    match binary op, parseVal ta va, parseVal tb vb with
    | some f, some a, some b => showRes (f a b)
    | _, _, _ => "bad-op"
  | ws => (pyLine ws).getD "bad-op"

end C16Driver

def main : IO Unit := mainWith C16Driver.handle
