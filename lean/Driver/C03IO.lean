import Driver.Util
import PytezosModel.Michelson.Order
/-! Token encoding of comparable types and structured values shared by the C03 and C14 drivers
(the Python side is harness/gen_c03.py: `ty_tokens`, `val_tokens`).
types (prefix notation): unit never bool int nat mutez timestamp string bytes key_hash address key signature chain_id
  option T · or L R · pair L R
values: U · T · F · I<int> · S<hex> · B<hex> · H<kind>:<hex> · A<kind>:<hex>:<ephex> · K<curve>:<hex> · G<hex> · C<hex>
  · N · J v · L v · R v · P a b -/
namespace Driver.C03IO
open Driver Order

def parseInt (s : String) : Option Int :=
  if s.startsWith "-" then (s.drop 1).toString.toNat?.map fun n => -(n : Int) else s.toNat?.map Int.ofNat

partial def parseTy : List String → Option (CTy × List String)
  | [] => none
  | t :: rest =>
    match t with
    | "unit" => some (.unit, rest) | "never" => some (.never, rest) | "bool" => some (.bool, rest)
    | "int" => some (.num .int, rest) | "nat" => some (.num .nat, rest) | "mutez" => some (.num .mutez, rest)
    | "timestamp" => some (.num .timestamp, rest) | "string" => some (.string, rest) | "bytes" => some (.bytes, rest)
    | "key_hash" => some (.keyHash, rest) | "address" => some (.address, rest) | "key" => some (.key, rest)
    | "signature" => some (.signature, rest) | "chain_id" => some (.chainId, rest)
    | "option" => do
      let (a, r) ← parseTy rest
      pure (.option a, r)
    | "or" => do
      let (a, r) ← parseTy rest
      let (b, r') ← parseTy r
      pure (.or a b, r')
    | "pair" => do
      let (a, r) ← parseTy rest
      let (b, r') ← parseTy r
      pure (.pair a b, r')
    | _ => none

/-- values are read guided by the type (the integer family shares one token) -/
partial def parseVal : CTy → List String → Option (CVal × List String)
  | _, [] => none
  | τ, t :: rest =>
    let body := (t.drop 1).toString
    match τ, t.front with
    | .unit, 'U' => some (.unit, rest)
    | .bool, 'T' => some (.bool true, rest)
    | .bool, 'F' => some (.bool false, rest)
    | .num tag, 'I' => (parseInt body).map fun v => (.num tag v, rest)
    | .string, 'S' => (parseHex body).map fun b => (.str b, rest)
    | .bytes, 'B' => (parseHex body).map fun b => (.bytes b, rest)
    | .keyHash, 'H' =>
      match body.splitOn ":" with
      | [k, p] => do
        let k ← k.toNat?
        let p ← parseHex p
        pure (.keyHash k p, rest)
      | _ => none
    | .address, 'A' =>
      match body.splitOn ":" with
      | [k, p, e] => do
        let k ← k.toNat?
        let p ← parseHex p
        let e ← parseHex e
        pure (.address k p e, rest)
      | _ => none
    | .key, 'K' =>
      match body.splitOn ":" with
      | [k, p] => do
        let k ← k.toNat?
        let p ← parseHex p
        pure (.key k p, rest)
      | _ => none
    | .signature, 'G' => (parseHex body).map fun b => (.signature b, rest)
    | .chainId, 'C' => (parseHex body).map fun b => (.chainId b, rest)
    | .option _, 'N' => some (.none, rest)
    | .option a, 'J' => do
      let (v, r) ← parseVal a rest
      pure (.some v, r)
    | .or a _, 'L' => do
      let (v, r) ← parseVal a rest
      pure (.left v, r)
    | .or _ b, 'R' => do
      let (v, r) ← parseVal b rest
      pure (.right v, r)
    | .pair a b, 'P' => do
      let (x, r) ← parseVal a rest
      let (y, r') ← parseVal b r
      pure (.pair x y, r')
    | _, _ => none

/-- `n` typed values; `none` when a token does not parse or a value is not of the type (the real PUSH rejects it) -/
def parseVals (τ : CTy) : Nat → List String → Option (List (TVal τ) × List String)
  | 0, ts => some ([], ts)
  | n + 1, ts => do
    let (v, r) ← parseVal τ ts
    let tv ← TVal.mk? τ v
    let (vs, r') ← parseVals τ n r
    pure (tv :: vs, r')

def showOrd : Ordering → String
  | .lt => "-1" | .eq => "0" | .gt => "1"

end Driver.C03IO
