import Driver.Util
import PytezosModel.Client.OpSign
/-! Line-protocol plumbing shared by the C07 / C08 / C23 drivers.

A line is `<command> <args…> | <oracle> <oracle> …`.  Every oracle is `key=value`: one recorded answer of a
cryptographic primitive or of `base58_encode` / `base58_decode`, computed by the harness by calling the library
directly with the arguments the *model* is expected to use (so a wrapper that hands something else to the
primitive is seen as a missing or different answer).  The model never computes a hash or a signature.

  b2b/<n>/<m>            blake2b digest            sha/<m>              sha256
  edkp/<seed>            `<pk>:<sk>` | `!`          edpk/<sk>, edseed/<sk>
  pub/<curve>/<sk>       public point | `!`
  sign/<curve>/<sk>/<payload>                raw signature | `!`
  ver/<curve>/<pk>/<payload>/<sig>           accept | reject | value | range | key
  kdf/<it>/<dklen>/<pw>/<salt>   seal/<k>/<nonce>/<m>   open/<k>/<nonce>/<c>   seed/<text>/<passphrase>
  enc/<prefix>/<payload>   base58_encode → text | `!`      dec/<text>   base58_decode → payload | `!`
Byte strings and ASCII texts are hex (`-` = empty); a missing answer is a failure (Option-valued primitives)
or the poison value `[999]` (total ones), never a guess. -/
namespace Driver.KeyIO
open Driver Impl.Key

abbrev Oracles := List (String × String)

def parseOracles (ws : List String) : Oracles :=
  ws.filterMap fun w =>
    match w.splitOn "=" with
    | [k, v] => some (k, v)
    | _ => none

def look (o : Oracles) (k : String) : Option String := (o.find? (·.1 == k)).map (·.2)

def poison : List Nat := [999]

def lookBytes (o : Oracles) (k : String) : List Nat :=
  match look o k with
  | some v => (parseHex v).getD poison
  | none => poison

def lookOpt (o : Oracles) (k : String) : Option (List Nat) :=
  match look o k with
  | some v => if v = "!" then none else parseHex v
  | none => none

def curveName : Curve → String
  | .ed => "ed" | .sp => "sp" | .p2 => "p2" | .bl => "BL"

def parseCurve : String → Option Curve
  | "ed" => some .ed | "sp" => some .sp | "p2" => some .p2 | "BL" => some .bl | _ => none

def slash (xs : List String) : String := "/".intercalate xs

def mkPrims (o : Oracles) : Prims where
  blake2b n m := lookBytes o (slash ["b2b", toString n, toHex m])
  sha256 m := lookBytes o (slash ["sha", toHex m])
  edSeedKeypair seed :=
    match look o (slash ["edkp", toHex seed]) with
    | some v =>
      match v.splitOn ":" with
      | [a, b] => do let pk ← parseHex a; let sk ← parseHex b; pure (pk, sk)
      | _ => none
    | none => none
  edSkToPk sk := lookOpt o (slash ["edpk", toHex sk])
  edSkToSeed sk := lookOpt o (slash ["edseed", toHex sk])
  pub c sk := lookOpt o (slash ["pub", curveName c, toHex sk])
  sign c sk p := lookOpt o (slash ["sign", curveName c, toHex sk, toHex p])
  verify c pk p s :=
    match look o (slash ["ver", curveName c, toHex pk, toHex p, toHex s]) with
    | some "accept" => .accept
    | some "reject" => .reject
    | some "value" => .valueError
    | some "range" => .rangeError
    | some "key" => .keyError
    | _ => .keyError      -- missing answer: shows up as `err Other keyError-or-missing`
  pbkdf2 it dk pw salt := lookBytes o (slash ["kdf", toString it, toString dk, toHex pw, toHex salt])
  boxSeal k n m := lookBytes o (slash ["seal", toHex k, toHex n, toHex m])
  boxOpen k n c := lookOpt o (slash ["open", toHex k, toHex n, toHex c])
  toSeed text pass := lookBytes o (slash ["seed", toHex text, toHex pass])

def mkCodec (o : Oracles) : Codec where
  encode v pfx := lookOpt o (slash ["enc", toHex pfx, toHex v])
  decode s := lookOpt o (slash ["dec", toHex s])

/-- `b:<hex>` bytes, `s:<cp>.<cp>…` str (decimal code points, `s:` = empty) -/
def parsePyIn (w : String) : Option PyIn :=
  if w.startsWith "b:" then (parseHex (w.drop 2).toString).map PyIn.bytes
  else if w.startsWith "s:" then
    let body := (w.drop 2).toString
    if body.isEmpty then some (.str [])
    else ((body.splitOn ".").mapM String.toNat?).map PyIn.str
  else none

def siteName : Site → String
  | .scrubAscii => "scrubAscii" | .noSecret => "noSecret" | .noPublic => "noPublic"
  | .curveMismatch => "curveMismatch" | .codec => "codec" | .invalidSig => "invalidSig"
  | .primValue => "primValue" | .rangeError => "rangeError" | .keyError => "keyError" | .prim => "prim"
  | .keyPrefix => "keyPrefix" | .keyLength => "keyLength" | .passphrase => "passphrase" | .unseal => "unseal"
  | .notImplemented => "notImplemented" | .mnemonicLength => "mnemonicLength" | .mnemonicWord => "mnemonicWord"
  | .mnemonicChecksum => "mnemonicChecksum" | .lookup => "lookup" | .mixedPasses => "mixedPasses"
  | .chainUndefined => "chainUndefined" | .notSigned => "notSigned"

def errStr : Err → String
  | .unrecognisedSource => "err unrecognised-source"
  | .valueError s => s!"err ValueError {siteName s}"
  | .other s => s!"err Other {siteName s}"

def optHex (w : String) : Option (Option (List Nat)) :=
  if w = "none" then some none else (parseHex w).map some

def renderKey (k : Key) : String :=
  s!"ok {curveName k.curve} {toHex k.pub} {match k.sec with | some s => toHex s | none => "none"}"

/-- split the words of a line at the `|` -/
def splitLine (line : String) : List String × Oracles :=
  let ws := words line
  (ws.takeWhile (· ≠ "|"), parseOracles ((ws.dropWhile (· ≠ "|")).drop 1))

end Driver.KeyIO
