import Driver.Util
import PytezosModel.Client.Search
open Driver Impl.Search

/-! protocol (one line per call, values are naturals):
  `bisect head last pred ; HIST`            → `ok l:v | trace`
  `walk head last headV lastV ; HIST`       → `ok l:v … | trace`
  `intervals head last step ; HIST`         → `ok hd:hv:tl:tv … | trace`
  `changes head last step ; HIST`           → `ok l:v … | trace`
  `changesd head last ; HIST`               → same, default step
HIST = `v0 l1:v1 l2:v2 …` (value at level 0, then the levels where the value changes, increasing);
errors → `error <kind>` -/

def parsePair (s : String) : Option (Nat × Nat) :=
  match s.splitOn ":" with
  | [a, b] => do
    let x ← a.toNat?
    let y ← b.toNat?
    some (x, y)
  | _ => none

def parseHist : List String → Option (Nat × List (Nat × Nat))
  | [] => none
  | v0 :: rest => do
    let v ← v0.toNat?
    let ps ← rest.mapM parsePair
    some (v, ps)

/-- piecewise constant history -/
def histGet (v0 : Nat) (cps : List (Nat × Nat)) (l : Nat) : Nat :=
  cps.foldl (fun acc (p : Nat × Nat) => if p.1 ≤ l then p.2 else acc) v0

def errName : Err → String
  | .typeError => "error type-error"
  | .recursion => "error recursion"
  | .valueError => "error value-error"
  | .unrecognised => "error unrecognised-source"

def showTrace (t : List Nat) : String := joinWith " " (t.map toString)

def showPairs (r : List (Nat × Nat)) : String := joinWith " " (r.map fun (l, v) => s!"{l}:{v}")

def showList (x : Except Err (Traced (List (Nat × Nat)))) : String :=
  match x with
  | .error e => errName e
  | .ok (r, t) => s!"ok {showPairs r} | {showTrace t}"

def showEvents (x : Except Err (List (Event Nat))) : String :=
  match x with
  | .error e => errName e
  | .ok evs =>
    let ivs := evs.filterMap fun | .interval a b c d => some s!"{a}:{b}:{c}:{d}" | .probe _ => none
    let tr := evs.filterMap fun | .probe l => some l | .interval .. => none
    s!"ok {joinWith " " ivs} | {showTrace tr}"

def splitAtSemi (ws : List String) : List String × List String :=
  (ws.takeWhile (· ≠ ";"), (ws.dropWhile (· ≠ ";")).drop 1)

def handle (line : String) : String :=
  let (cmd, hist) := splitAtSemi (words line)
  match parseHist hist with
  | none => "bad-op"
  | some (v0, cps) =>
    let get := histGet v0 cps
    match cmd.head?, (cmd.drop 1).mapM String.toNat? with
    | some "bisect", some [head, last, pred] =>
      match findStateChange get head last pred with
      | .error e => errName e
      | .ok ((l, v), t) => s!"ok {l}:{v} | {showTrace t}"
    | some "walk", some [head, last, hv, lv] => showList (walkStateChangeInterval get head last hv lv)
    | some "intervals", some [head, last, step] => showEvents (findStateChangeIntervals get head last step)
    | some "changes", some [head, last, step] => showList (findStateChanges get head last step)
    | some "changesd", some [head, last] => showList (findStateChangesDefault get head last)
    | _, _ => "bad-op"

def main : IO Unit := mainWith handle
