import Driver.Util
import PytezosModel.Client.MultiNode
open Driver

/-- line: `n o1 o2 …` (o = 1 success, 0 error)  →  nodes used, space separated -/
def handle (line : String) : String :=
  match words line with
  | n :: os =>
    match n.toNat? with
    | some n =>
      match Impl.MultiNode.nodesUsed n (os.map (· == "1")) with
      | some xs => joinWith " " (xs.map toString)
      | none => "unrecognised-source"
    | none => "bad-op"
  | [] => "bad-op"

def main : IO Unit := mainWith handle
