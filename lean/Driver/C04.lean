import Driver.ValueIO
import PytezosModel.Michelson.Pack
/-! Line protocol of C04.

* `pack <0|1 legacy> <type as Micheline> | <value tokens>` → hex of `v.pack(legacy)` | `err`
* `spec <value tokens>`                                      → hex of `05 ++ forge(Spec.Pack.optimized v)` | `err`
* `unpack <type as Micheline> | <hex>`  → `some <value tokens>` | `none` | `raise`   (the UNPACK instruction)
* `unpackraw <type as Micheline> | <hex>` → `ok <value tokens>` | `err`              (`MichelsonType.unpack`)
* `strict <hex>` → `valid` | `invalid`: does the strict reference decoder (`Spec.Micheline.decode`) accept the bytes after `05`? -/
namespace Driver.PackIO
open Driver VC Driver.ValueIO

def handle (line : String) : String :=
  match words line with
  | "pack" :: l :: ts =>
    let (tt, vt) := splitBar ts
    match parseMichTokens tt, readVal vt with
    | some tm, some (v, []) =>
      match tyOfMich tm with
      | some τ =>
        match Impl.Pack.pack Inst.env τ (l == "1") v with
        | some bs => toHex bs
        | none => "err"
      | none => "bad-type"
    | _, _ => "bad-op"
  | "spec" :: vt =>
    match readVal vt with
    | some (v, []) =>
      match Spec.Pack.pack Inst.env v with
      | some bs => toHex bs
      | none => "err"
    | _ => "bad-op"
  | "unpack" :: ts =>
    let (tt, ht) := splitBar ts
    match parseMichTokens tt, ht with
    | some tm, [h] =>
      match tyOfMich tm, parseHex h with
      | some τ, some bs =>
        match Impl.Pack.unpack Inst.env τ bs with
        | .value v => "some " ++ joinWith " " (showVal v)
        | .none => "none"
        | .propagates _ => "raise"
      | _, _ => "bad-type"
    | _, _ => "bad-op"
  | "unpackraw" :: ts =>
    let (tt, ht) := splitBar ts
    match parseMichTokens tt, ht with
    | some tm, [h] =>
      match tyOfMich tm, parseHex h with
      | some τ, some bs =>
        match Impl.Pack.unpackRaw Inst.env τ bs with
        | .ok v => "ok " ++ joinWith " " (showVal v)
        | .error _ => "err"
      | _, _ => "bad-type"
    | _, _ => "bad-op"
  | ["strict", h] =>
    match parseHex h with
    | some (5 :: rest) => if (Spec.Micheline.decode Impl.Lower.known rest).isSome then "valid" else "invalid"
    | some _ => "invalid"
    | none => "bad-op"
  | _ => "bad-op"

end Driver.PackIO

def main : IO Unit := Driver.mainWith Driver.PackIO.handle
