"""Shared by harness/props/c07.py, c08.py, c23.py.

* independent implementations used as property oracles: signature verification and public-key derivation with
  the `cryptography` package (Ed25519, ECDSA over secp256k1 / P-256 on a pre-hashed Blake2b-256 digest from
  hashlib), the BLS12-381 min-pk pairing equation assembled from py_ecc's curve primitives, Base58Check,
  XSalsa20-Poly1305 (secretbox) and PBKDF2 (cryptography), BIP-39 checksum on integers;
* `prim_*`: the library primitives called *directly* at digest level — these are the recorded answers handed to
  the Lean model (the model never computes a hash or a signature itself);
* canonical rendering of inputs, results and exceptions for the line protocol.
Nothing here imports pytezos at module import time."""
import hashlib
import traceback

CURVES = ['ed', 'sp', 'p2', 'BL']
SIG_LEN = {'ed': 64, 'sp': 64, 'p2': 64, 'BL': 96}
ALPHABET = '123456789ABCDEFGHJKLMNPQRSTUVWXYZabcdefghijkmnopqrstuvwxyz'
P256_N = 0xffffffff00000000ffffffffffffffffbce6faada7179e84f3b9cac2fc632551
SECP_N = 0xfffffffffffffffffffffffffffffffebaaedce6af48a03bbfd25e8cd0364141
BLS_R = 0x73eda753299d7d483339d80809a1d80553bda402fffe5bfeffffffff00000001
BLS_DST = b'BLS_SIG_BLS12381G2_XMD:SHA-256_SSWU_RO_AUG_'


def hx(b):
    return b.hex() if b else '-'


def blake(m, n=32):
    return hashlib.blake2b(m, digest_size=n).digest()


# ---------------------------------------------------------------- Base58Check (independent)

def b58check_encode(payload):
    data = payload + hashlib.sha256(hashlib.sha256(payload).digest()).digest()[:4]
    n = int.from_bytes(data, 'big')
    out = ''
    while n:
        n, r = divmod(n, 58)
        out = ALPHABET[r] + out
    pad = len(data) - len(data.lstrip(b'\0'))
    return '1' * pad + out


def b58check_decode(text):
    """-> payload bytes or None"""
    n = 0
    for ch in text:
        i = ALPHABET.find(ch)
        if i < 0:
            return None
        n = n * 58 + i
    pad = len(text) - len(text.lstrip('1'))
    body = n.to_bytes((n.bit_length() + 7) // 8, 'big')
    data = b'\0' * pad + body
    if len(data) < 4 or hashlib.sha256(hashlib.sha256(data[:-4]).digest()).digest()[:4] != data[-4:]:
        return None
    return data[:-4]


# binary prefixes of the Tezos kinds used here (independent transcription of the Tezos prefix registry)
BIN_PREFIX = {
    'edsig': bytes([9, 245, 205, 134, 18]), 'spsig': bytes([13, 115, 101, 19, 63]), 'p2sig': bytes([54, 240, 44, 52]),
    'sig': bytes([4, 130, 43]), 'BLsig': bytes([40, 171, 64, 207]),
    'edpk': bytes([13, 15, 37, 217]), 'sppk': bytes([3, 254, 226, 86]), 'p2pk': bytes([3, 178, 139, 127]), 'BLpk': bytes([6, 149, 135, 204]),
    'edsk32': bytes([13, 15, 58, 7]), 'edsk64': bytes([43, 246, 78, 7]), 'spsk': bytes([17, 162, 224, 201]), 'p2sk': bytes([16, 81, 238, 189]),
    'BLsk': bytes([3, 150, 192, 40]),
    'edesk': bytes([7, 90, 60, 179, 41]), 'spesk': bytes([9, 237, 241, 174, 150]), 'p2esk': bytes([9, 48, 57, 115, 171]), 'BLesk': bytes([2, 5, 30, 53, 25]),
    'tz1': bytes([6, 161, 159]), 'tz2': bytes([6, 161, 161]), 'tz3': bytes([6, 161, 164]), 'tz4': bytes([6, 161, 166]),
    'o': bytes([5, 116]), 'Net': bytes([87, 82, 0]),
}
TZ = {'ed': 'tz1', 'sp': 'tz2', 'p2': 'tz3', 'BL': 'tz4'}


def tz_encode(kind, payload):
    return b58check_encode(BIN_PREFIX[kind] + payload)


def tz_decode(kind, text):
    """payload of a text of the given kind, or None"""
    data = b58check_decode(text)
    p = BIN_PREFIX[kind]
    if data is None or not data.startswith(p):
        return None
    return data[len(p):]


# ---------------------------------------------------------------- independent signature schemes

def indep_pubkey(curve, secret):
    """public point from a 32-byte secret / seed, by a different library than pytezos uses"""
    from cryptography.hazmat.primitives import serialization
    from cryptography.hazmat.primitives.asymmetric import ec, ed25519
    if curve == 'ed':
        return ed25519.Ed25519PrivateKey.from_private_bytes(secret).public_key().public_bytes_raw()
    if curve in ('sp', 'p2'):
        crv = ec.SECP256K1() if curve == 'sp' else ec.SECP256R1()
        key = ec.derive_private_key(int.from_bytes(secret, 'big'), crv)
        return key.public_key().public_bytes(serialization.Encoding.X962, serialization.PublicFormat.CompressedPoint)
    from py_ecc.bls.g2_primitives import G1_to_pubkey
    from py_ecc.optimized_bls12_381 import G1, multiply
    return bytes(G1_to_pubkey(multiply(G1, int.from_bytes(secret, 'little'))))


def indep_verify(curve, pk, message, raw_sig):
    """does an independent implementation accept `raw_sig` for `message` under public point `pk`?
    ed/sp/p2: over the Blake2b-256 digest (hashlib); BLS: over the message itself (pairing equation)."""
    from cryptography.exceptions import InvalidSignature
    from cryptography.hazmat.primitives import hashes
    from cryptography.hazmat.primitives.asymmetric import ec, ed25519, utils
    if curve == 'ed':
        try:
            ed25519.Ed25519PublicKey.from_public_bytes(pk).verify(raw_sig, blake(message))
            return True
        except (InvalidSignature, ValueError):
            return False
    if curve in ('sp', 'p2'):
        if len(raw_sig) != 64:
            return False
        crv = ec.SECP256K1() if curve == 'sp' else ec.SECP256R1()
        try:
            key = ec.EllipticCurvePublicKey.from_encoded_point(crv, pk)
            der = utils.encode_dss_signature(int.from_bytes(raw_sig[:32], 'big'), int.from_bytes(raw_sig[32:], 'big'))
            key.verify(der, blake(message), ec.ECDSA(utils.Prehashed(hashes.SHA256())))
            return True
        except (InvalidSignature, ValueError):
            return False
    return bls_pairing_verify(pk, message, raw_sig)


def bls_pairing_verify(pk, message, raw_sig):
    """e(pk, H(pk || m)) == e(g1, sig) (min-pk, message augmentation), from py_ecc curve primitives"""
    from py_ecc.bls.g2_primitives import pubkey_to_G1, signature_to_G2, subgroup_check
    from py_ecc.bls.hash_to_curve import hash_to_G2
    from py_ecc.optimized_bls12_381 import G1, is_inf, pairing
    try:
        if len(pk) != 48 or len(raw_sig) != 96:
            return False
        p = pubkey_to_G1(pk)
        s = signature_to_G2(raw_sig)
        if is_inf(p) or not subgroup_check(p) or not subgroup_check(s):
            return False
        h = hash_to_G2(pk + message, BLS_DST, hashlib.sha256)
        return pairing(h, p) == pairing(s, G1)
    except Exception:
        return False


# ---------------------------------------------------------------- library primitives at digest level

def b2b_func(v=b''):
    return hashlib.blake2b(v, digest_size=32)


def prim_sign(curve, stored_secret, payload):
    """raw signature of `payload` (a digest for ed/sp/p2, the message for BL); None if the primitive refuses"""
    try:
        if curve == 'ed':
            import pysodium
            return pysodium.crypto_sign_detached(payload, stored_secret)
        if curve == 'sp':
            import coincurve
            from coincurve import ecdsa
            return ecdsa.serialize_compact(ecdsa.der_to_cdata(coincurve.PrivateKey(stored_secret).sign(payload, hasher=None)))
        if curve == 'p2':
            import fastecdsa.curve
            import fastecdsa.ecdsa
            r, s = fastecdsa.ecdsa.sign(payload, int.from_bytes(stored_secret, 'big'), curve=fastecdsa.curve.P256, hashfunc=b2b_func, prehashed=True)
            return r.to_bytes(32, 'big') + s.to_bytes(32, 'big')
        from py_ecc.bls import G2MessageAugmentation as G2
        return bytes(G2.Sign(int.from_bytes(stored_secret, 'little'), payload))
    except Exception:
        return None


def prim_verify(curve, pk, payload, raw):
    """verdict of the library primitive: accept | reject | value | range | key"""
    if curve == 'ed':
        import pysodium
        try:
            pysodium.crypto_sign_verify_detached(raw, payload, pk)
            return 'accept'
        except ValueError:
            return 'reject'
    if curve == 'sp':
        import coincurve
        from coincurve import ecdsa
        try:
            key = coincurve.PublicKey(pk)
            der = ecdsa.cdata_to_der(ecdsa.deserialize_compact(raw))
        except ValueError:
            return 'value'
        try:
            return 'accept' if key.verify(der, payload, hasher=None) else 'reject'
        except ValueError:       # e.g. a payload that is not a 32-byte digest
            return 'value'
    if curve == 'p2':
        import fastecdsa.curve
        import fastecdsa.ecdsa
        import fastecdsa.encoding.sec1
        try:
            q = fastecdsa.encoding.sec1.SEC1Encoder.decode_public_key(pk, curve=fastecdsa.curve.P256)
        except ValueError:
            return 'value'
        except fastecdsa.encoding.sec1.InvalidSEC1PublicKey:
            return 'key'
        try:
            ok = fastecdsa.ecdsa.verify((int.from_bytes(raw[:32], 'big'), int.from_bytes(raw[32:], 'big')), payload, q,
                                        curve=fastecdsa.curve.P256, hashfunc=b2b_func, prehashed=True)
        except fastecdsa.ecdsa.EcdsaError:
            return 'range'
        return 'accept' if ok else 'reject'
    from py_ecc.bls import G2MessageAugmentation as G2
    return 'accept' if G2.Verify(pk, payload, raw) else 'reject'


def prim_pub(curve, secret):
    """public point of a stored secret exponent (sp, p2, BL); None if the primitive refuses"""
    try:
        if curve == 'sp':
            import coincurve
            return coincurve.PrivateKey(secret).public_key.format()
        if curve == 'p2':
            import fastecdsa.curve
            import fastecdsa.encoding.sec1
            import fastecdsa.keys
            return fastecdsa.encoding.sec1.SEC1Encoder.encode_public_key(
                fastecdsa.keys.get_public_key(int.from_bytes(secret, 'big'), curve=fastecdsa.curve.P256))
        if curve == 'BL':
            from py_ecc.bls import G2MessageAugmentation as G2
            return bytes(G2.SkToPk(int.from_bytes(secret, 'little')))
    except Exception:
        return None
    return None


def prim_ed_keypair(seed):
    import pysodium
    try:
        return pysodium.crypto_sign_seed_keypair(seed)
    except Exception:
        return None


# ---------------------------------------------------------------- secretbox / PBKDF2 (independent)

def _rotl(x, n):
    return ((x << n) & 0xffffffff) | (x >> (32 - n))


def _salsa_core(inp, rounds=20, add=True):
    x = list(inp)
    for _ in range(rounds // 2):
        for a, b, c, d in ((0, 4, 8, 12), (5, 9, 13, 1), (10, 14, 2, 6), (15, 3, 7, 11),
                           (0, 1, 2, 3), (5, 6, 7, 4), (10, 11, 8, 9), (15, 12, 13, 14)):
            x[b] ^= _rotl((x[a] + x[d]) & 0xffffffff, 7)
            x[c] ^= _rotl((x[b] + x[a]) & 0xffffffff, 9)
            x[d] ^= _rotl((x[c] + x[b]) & 0xffffffff, 13)
            x[a] ^= _rotl((x[d] + x[c]) & 0xffffffff, 18)
    if add:
        x = [(a + b) & 0xffffffff for a, b in zip(x, inp)]
    return x


_SIGMA = [0x61707865, 0x3320646e, 0x79622d32, 0x6b206574]


def _words(b):
    return [int.from_bytes(b[i:i + 4], 'little') for i in range(0, len(b), 4)]


def _hsalsa20(key, nonce16):
    k, n = _words(key), _words(nonce16)
    st = [_SIGMA[0], k[0], k[1], k[2], k[3], _SIGMA[1], n[0], n[1], n[2], n[3], _SIGMA[2], k[4], k[5], k[6], k[7], _SIGMA[3]]
    x = _salsa_core(st, add=False)
    return b''.join(w.to_bytes(4, 'little') for w in (x[0], x[5], x[10], x[15], x[6], x[7], x[8], x[9]))


def _salsa20_stream(key, nonce8, length):
    k, n = _words(key), _words(nonce8)
    out = b''
    ctr = 0
    while len(out) < length:
        st = [_SIGMA[0], k[0], k[1], k[2], k[3], _SIGMA[1], n[0], n[1], ctr & 0xffffffff, ctr >> 32, _SIGMA[2], k[4], k[5], k[6], k[7], _SIGMA[3]]
        out += b''.join(w.to_bytes(4, 'little') for w in _salsa_core(st))
        ctr += 1
    return out[:length]


def _poly1305(key32, msg):
    r = int.from_bytes(key32[:16], 'little') & 0x0ffffffc0ffffffc0ffffffc0fffffff
    s = int.from_bytes(key32[16:], 'little')
    acc, p = 0, (1 << 130) - 5
    for i in range(0, len(msg), 16):
        blk = msg[i:i + 16] + b'\x01'
        acc = (acc + int.from_bytes(blk, 'little')) * r % p
    return ((acc + s) & ((1 << 128) - 1)).to_bytes(16, 'little')


def secretbox(msg, nonce24, key):
    """XSalsa20-Poly1305 (NaCl crypto_secretbox): 16-byte authenticator ++ ciphertext"""
    sub = _hsalsa20(key, nonce24[:16])
    stream = _salsa20_stream(sub, nonce24[16:], 32 + len(msg))
    ct = bytes(a ^ b for a, b in zip(msg, stream[32:]))
    return _poly1305(stream[:32], ct) + ct


def secretbox_open(box, nonce24, key):
    if len(box) < 16:
        return None
    sub = _hsalsa20(key, nonce24[:16])
    stream = _salsa20_stream(sub, nonce24[16:], 32 + len(box) - 16)
    if _poly1305(stream[:32], box[16:]) != box[:16]:
        return None
    return bytes(a ^ b for a, b in zip(box[16:], stream[32:]))


def indep_pbkdf2(password, salt, iterations=32768, dklen=32):
    from cryptography.hazmat.primitives import hashes
    from cryptography.hazmat.primitives.kdf.pbkdf2 import PBKDF2HMAC
    return PBKDF2HMAC(algorithm=hashes.SHA512(), length=dklen, salt=salt, iterations=iterations).derive(password)


# ---------------------------------------------------------------- line protocol helpers

def py_in(v):
    """`b:<hex>` for bytes, `s:<code points>` for str"""
    if isinstance(v, bytes):
        return 'b:' + hx(v)
    return 's:' + '.'.join(str(ord(ch)) for ch in v)


def text_hex(s):
    """an ASCII text as hex of its code points"""
    return hx(s.encode('latin-1'))


def scrub_spec(v):
    """what `scrub_input` is meant to do (hex-or-ascii); raises ValueError for non-ASCII non-hex text"""
    if isinstance(v, bytes):
        return v
    try:
        return bytes.fromhex(v.removeprefix('0x'))
    except ValueError:
        return v.encode('ascii')


MESSAGES = {
    'Cannot sign without a secret key.': 'noSecret', 'Secret key is undefined': 'noSecret',
    'Cannot verify without a public key.': 'noPublic',
    'Signature and public key curves mismatch.': 'curveMismatch',
    'Signature is invalid.': 'invalidSig',
    'Invalid prefix for a key encoding.': 'keyPrefix', 'Invalid length for a key encoding.': 'keyLength',
    'Mnemonic checksum verification failed': 'mnemonicChecksum',
    'Mixed validation passes': 'mixedPasses', 'Chain ID is undefined, run .fill first': 'chainUndefined', 'Not signed': 'notSigned',
}
CODEC_FRAMES = {'base58_decode', 'base58_encode', 'b58decode_check', 'b58decode', 'b58decode_int', 'b58encode_check'}


def canon_exc(e):
    """exception -> `err <ValueError|Other> <site>` (same small enum as the Lean model's `Err`)"""
    cls = 'ValueError' if isinstance(e, ValueError) else 'Other'
    frames = [f.name for f in traceback.extract_tb(e.__traceback__)]
    name = type(e).__name__
    msg = str(e)
    for a in getattr(e, 'args', ()):          # instruction wrappers prepend the primitive name to e.args
        if isinstance(a, str) and (a in MESSAGES or a.startswith('Number of words must be')):
            msg = a
    if isinstance(e, UnicodeEncodeError):
        site = 'scrubAscii'
    elif msg in MESSAGES:
        site = MESSAGES[msg]
    elif msg.startswith('Number of words must be one of the following'):
        site = 'mnemonicLength'
    elif name == 'EcdsaError':
        site = 'rangeError'
    elif name == 'InvalidSEC1PublicKey':
        site = 'keyError'
    elif name == 'NotImplementedError':
        site = 'notImplemented'
    elif name in ('KeyError', 'IndexError'):
        site = 'lookup'
    elif cls == 'ValueError' and CODEC_FRAMES & set(frames):
        site = 'codec'
    elif cls == 'ValueError' and 'crypto_secretbox_open' in frames:
        site = 'unseal'
    elif cls == 'ValueError' and 'validate_mnemonic' in frames and 'is not in list' in msg:
        site = 'mnemonicWord'
    elif 'from_secret_exponent' in frames or 'from_mnemonic' in frames and 'validate_mnemonic' not in frames:
        site, cls = 'prim', 'Other'
    elif cls == 'ValueError' and 'verify' in frames:
        site = 'primValue'
    else:
        site = f'{name}@{frames[-1] if frames else "?"}'
    return f'err {cls} {site}'


class Oracles:
    """recorded answers for one protocol line (dict key -> value text), with a process-wide cache for the slow ones"""
    _cache = {}

    def __init__(self):
        self.d = {}

    def _memo(self, key, fn):
        if key not in Oracles._cache:
            Oracles._cache[key] = fn()
        self.d[key] = Oracles._cache[key]
        return Oracles._cache[key]

    def b2b(self, n, m):
        self.d[f'b2b/{n}/{hx(m)}'] = hx(blake(m, n))

    def sha(self, m):
        self.d[f'sha/{hx(m)}'] = hx(hashlib.sha256(m).digest())

    def sign(self, curve, sk, payload):
        r = self._memo(f'sign/{curve}/{hx(sk)}/{hx(payload)}', lambda: (lambda x: '!' if x is None else hx(x))(prim_sign(curve, sk, payload)))
        return None if r == '!' else bytes.fromhex(r)

    def ver(self, curve, pk, payload, raw):
        return self._memo(f'ver/{curve}/{hx(pk)}/{hx(payload)}/{hx(raw)}', lambda: prim_verify(curve, pk, payload, raw))

    def pub(self, curve, sk):
        r = self._memo(f'pub/{curve}/{hx(sk)}', lambda: (lambda x: '!' if x is None else hx(x))(prim_pub(curve, sk)))
        return None if r == '!' else bytes.fromhex(r)

    def edkp(self, seed):
        kp = prim_ed_keypair(seed)
        self.d[f'edkp/{hx(seed)}'] = '!' if kp is None else f'{hx(kp[0])}:{hx(kp[1])}'
        return kp

    def ed_sk(self, sk):
        import pysodium
        try:
            self.d[f'edpk/{hx(sk)}'] = hx(pysodium.crypto_sign_sk_to_pk(sk))
        except Exception:
            self.d[f'edpk/{hx(sk)}'] = '!'
        try:
            self.d[f'edseed/{hx(sk)}'] = hx(pysodium.crypto_sign_sk_to_seed(sk))
        except Exception:
            self.d[f'edseed/{hx(sk)}'] = '!'

    def enc(self, prefix, payload):
        """real base58_encode (property C09), answer or `!`"""
        from pytezos.crypto.encoding import base58_encode
        try:
            r = base58_encode(payload, prefix).decode()
            self.d[f'enc/{hx(prefix)}/{hx(payload)}'] = text_hex(r)
            return r
        except ValueError:
            self.d[f'enc/{hx(prefix)}/{hx(payload)}'] = '!'
            return None

    def dec(self, text_bytes):
        """real base58_decode on the bytes of a text, answer or `!`"""
        from pytezos.crypto.encoding import base58_decode
        try:
            r = base58_decode(text_bytes)
            self.d[f'dec/{hx(text_bytes)}'] = hx(r)
            return r
        except ValueError:
            self.d[f'dec/{hx(text_bytes)}'] = '!'
            return None

    def kdf(self, it, dk, pw, salt):
        r = self._memo(f'kdf/{it}/{dk}/{hx(pw)}/{hx(salt)}', lambda: hx(hashlib.pbkdf2_hmac('sha512', pw, salt, it, dk)))
        return bytes.fromhex(r)

    def seal(self, k, nonce, m):
        import pysodium
        r = pysodium.crypto_secretbox(m, nonce, k)
        self.d[f'seal/{hx(k)}/{hx(nonce)}/{hx(m)}'] = hx(r)
        return r

    def open(self, k, nonce, c):
        import pysodium
        try:
            r = pysodium.crypto_secretbox_open(c, nonce, k)
            self.d[f'open/{hx(k)}/{hx(nonce)}/{hx(c)}'] = hx(r)
            return r
        except Exception:
            self.d[f'open/{hx(k)}/{hx(nonce)}/{hx(c)}'] = '!'
            return None

    def seed(self, text, passphrase):
        from mnemonic import Mnemonic
        r = Mnemonic.to_seed(text, passphrase=passphrase)
        self.d[f'seed/{text_hex(text)}/{text_hex(passphrase)}'] = hx(r)
        return r

    def text(self):
        return ' '.join(f'{k}={v}' for k, v in self.d.items())


def line(cmd_words, oracles):
    return ' '.join(cmd_words) + ' | ' + oracles.text()
