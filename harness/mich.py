"""Micheline (pytezos JSON shape) <-> the token encoding read by lean/Driver/MichIO.lean, and a random generator."""


def _hex(b):
    return b.hex() if b else '-'


def to_tokens(m):
    if isinstance(m, list):
        out = [f'L{len(m)}']
        for x in m:
            out += to_tokens(x)
        return out
    if 'int' in m:
        return [f'I{int(m["int"])}']
    if 'string' in m:
        return ['S' + _hex(m['string'].encode())]
    if 'bytes' in m:
        return ['B' + (m['bytes'].lower() or '-')]
    args = m.get('args', [])
    annots = m.get('annots', [])
    out = [f'P{m["prim"]}', str(len(args)), str(len(annots))] + [_hex(a.encode()) for a in annots]
    for a in args:
        out += to_tokens(a)
    return out


def to_line(m):
    return ' '.join(to_tokens(m))


def from_tokens(ts, i=0):
    t = ts[i]
    k, body = t[0], t[1:]
    if k == 'I':
        return {'int': str(int(body))}, i + 1
    if k == 'S':
        return {'string': bytes.fromhex('' if body == '-' else body).decode()}, i + 1
    if k == 'B':
        return {'bytes': '' if body == '-' else body}, i + 1
    if k == 'L':
        n, i, out = int(body), i + 1, []
        for _ in range(n):
            x, i = from_tokens(ts, i)
            out.append(x)
        return out, i
    if k == 'P':
        na, nn = int(ts[i + 1]), int(ts[i + 2])
        i += 3
        annots = [bytes.fromhex('' if h == '-' else h).decode() for h in ts[i:i + nn]]
        i += nn
        args = []
        for _ in range(na):
            x, i = from_tokens(ts, i)
            args.append(x)
        m = {'prim': body}
        if args:
            m['args'] = args
        if annots:
            m['annots'] = annots
        return m, i
    raise ValueError(t)


def from_line(line):
    m, i = from_tokens(line.split(' '))
    assert i == len(line.split(' '))
    return m


def normalize(m):
    """canonical JSON shape: no empty args/annots, ints as decimal strings, lowercase hex"""
    if isinstance(m, list):
        return [normalize(x) for x in m]
    if 'int' in m:
        return {'int': str(int(m['int']))}
    if 'string' in m:
        return {'string': m['string']}
    if 'bytes' in m:
        return {'bytes': m['bytes'].lower()}
    out = {'prim': m['prim']}
    if m.get('args'):
        out['args'] = [normalize(a) for a in m['args']]
    if m.get('annots'):
        out['annots'] = list(m['annots'])
    return out


# ----------------------------------------------------------------------------------------------------
def random_mich(rng, prims, depth=4, max_args=5, annot_chars='abcXYZ019_.%@:', str_alphabet=None):
    """random Micheline in canonical JSON shape (normalize(m) == m)"""
    str_alphabet = str_alphabet or 'ab Z09"\\\n{}()#;-%@'
    k = rng.randrange(10)
    if depth <= 0:
        k = rng.randrange(4)
    if k == 0:
        return {'int': str(rng.big_int(rng.choice([8, 64, 300, 4096])))}
    if k == 1:
        return {'string': ''.join(rng.choice(str_alphabet) for _ in range(rng.choice([0, 1, 3, 10])))}
    if k == 2:
        return {'bytes': rng.bytes_(rng.choice([0, 1, 2, 20, 33])).hex()}
    if k in (3, 4):
        n = rng.choice([0, 0, 1, 2, 3, 5])
        return [random_mich(rng, prims, depth - 1, max_args, annot_chars, str_alphabet) for _ in range(n)]
    m = {'prim': rng.choice(prims)}
    na = rng.choice([0, 0, 1, 1, 2, 2, 3, 4, max_args]) if depth > 0 else 0
    if na:
        m['args'] = [random_mich(rng, prims, depth - 1, max_args, annot_chars, str_alphabet) for _ in range(na)]
    if rng.random() < 0.35:
        m['annots'] = [rng.choice('%:@') + ''.join(rng.choice(annot_chars) for _ in range(rng.randrange(0, 6)))
                       for _ in range(rng.choice([1, 1, 2, 3]))]
    return m


def size(m):
    if isinstance(m, list):
        return 1 + sum(size(x) for x in m)
    return 1 + sum(size(x) for x in m.get('args', []))
