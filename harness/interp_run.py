"""Runs Micheline code on the real pytezos interpreter machinery (no text parser involved) and renders the
final stack canonically from the runtime objects' public fields."""
from decimal import Decimal


def ty_strip(expr):
    if isinstance(expr, list):
        return [ty_strip(x) for x in expr]
    out = {'prim': expr['prim']}
    if expr.get('args'):
        out['args'] = [ty_strip(a) for a in expr['args']]
    return out


def canon(item):
    """runtime value object -> Micheline-shaped JSON (ints for all numeric classes, text for addresses)"""
    from pytezos.michelson import types as T
    from pytezos.michelson.types.base import undefined
    if isinstance(item, T.UnitType):
        return {'prim': 'Unit'}
    if isinstance(item, T.BoolType):
        return {'prim': 'True' if item.value else 'False'}
    if isinstance(item, T.IntType):
        return {'int': str(item.value)}
    if isinstance(item, T.LambdaType):
        return item.value.as_micheline_expr()
    if isinstance(item, T.OperationType):
        # what the operation records (`content`); the parameter / payload is read back at its type and rendered like any value
        S = lambda x: {'string': x}
        c = item.content
        if c['kind'] == 'transaction':
            return {'prim': 'TRANSFER', 'args': [S(c['source']), S(c['destination']), S(c['parameters']['entrypoint']), {'int': str(int(c['amount']))},
                                                 ty_strip(item.ty.as_micheline_expr()), canon(item.ty.from_micheline_value(c['parameters']['value']))]}
        if c['kind'] == 'delegation':
            d = c['delegate']
            return {'prim': 'DELEGATE', 'args': [S(c['source']), {'prim': 'None'} if d is None else {'prim': 'Some', 'args': [S(d)]}]}
        if c['kind'] == 'event':
            return {'prim': 'EVENT', 'args': [S(c['source']), S(c['tag']), ty_strip(c['event_type']), canon(item.ty.from_micheline_value(c['payload']))]}
        raise TypeError('operation ' + c['kind'])
    if isinstance(item, T.BytesType):
        return {'bytes': item.value.hex()}
    if isinstance(item, T.StringType):      # string, address, chain_id …
        return {'string': item.value}
    if isinstance(item, T.PairType):
        return {'prim': 'Pair', 'args': [canon(item.items[0]), canon(item.items[1])]}
    if isinstance(item, T.OptionType):
        return {'prim': 'None'} if item.item is None else {'prim': 'Some', 'args': [canon(item.item)]}
    if isinstance(item, T.OrType):
        if isinstance(item.items[0], undefined):
            return {'prim': 'Right', 'args': [canon(item.items[1])]}
        return {'prim': 'Left', 'args': [canon(item.items[0])]}
    if isinstance(item, T.ListType):
        return [canon(x) for x in item.items]
    if isinstance(item, T.SetType):
        return [canon(x) for x in item.items]
    if isinstance(item, T.MapType):
        return [{'prim': 'Elt', 'args': [canon(k), canon(v)]} for k, v in item.items]
    raise TypeError(type(item).__name__)


def run_real(code, env):
    """returns ('ok', [(type_expr, value_expr)…]) | ('failed', repr_string) | ('err', message)"""
    import pytezos.michelson.instructions  # noqa: F401  (registers the instruction classes)
    from pytezos.context.impl import ExecutionContext
    from pytezos.michelson.micheline import Micheline, MichelsonRuntimeError
    from pytezos.michelson.stack import MichelsonStack
    ctx = ExecutionContext()
    ctx.amount, ctx.balance, ctx.now, ctx.level = env['amount'], env['balance'], env['now'], env['level']
    ctx.sender, ctx.source, ctx.address, ctx.chain_id = env['sender'], env['source'], env['self'], env['chain_id']
    ctx.total_voting_power, ctx.min_block_time = env.get('total_voting_power', 0), env.get('min_block_time', 1)
    ctx.voting_power = dict(env.get('voting_power', {}))
    if env.get('parameter') is not None:      # the parameter section of the running contract (SELF looks its entrypoints up)
        ctx.parameter_expr = {'prim': 'parameter', 'args': [env['parameter']]}
    stack = MichelsonStack()
    try:
        Micheline.match(code).execute(stack, [], ctx)
    except MichelsonRuntimeError as e:
        if 'FAILWITH' in e.args and e.args[-2:-1] == ('FAILWITH',):
            return 'failed', e.args[-1]
        return 'err', ' -> '.join(map(str, e.args))[:300]
    except RecursionError:
        return 'err', 'RecursionError'
    if stack.protected != 0:
        return 'err', f'protected={stack.protected}'
    return 'ok', [(ty_strip(x.as_micheline_expr()), canon(x)) for x in stack.items]


class NoRepr(Exception):
    pass


def py_repr(ty, val):
    """what pytezos' `repr` prints for a value given as (type tuple, canonical Micheline) — FAILWITH exposes only this"""
    p = ty[0]
    if p == 'unit':
        return 'Unit'
    if p == 'bool':
        return str(val['prim'] == 'True')
    if p in ('int', 'nat', 'timestamp'):
        return str(int(val['int']))
    if p == 'mutez':
        return str(Decimal(int(val['int'])) / 10**6)
    if p == 'string':
        return f"'{val['string']}'"
    if p in ('chain_id', 'key_hash', 'key', 'signature'):
        return f"'{val['string']}'"
    if p == 'bytes':
        return '0x' + val['bytes']
    if p == 'address':
        v = val['string']
        return f'{v[:6]}…{v[-3:]}'
    if p == 'pair':
        return f"({py_repr(ty[1], val['args'][0])} * {py_repr(ty[2], val['args'][1])})"
    if p == 'option':
        if val['prim'] == 'None':
            return 'None'
        inner = val['args'][0]
        return f'{py_repr(ty[1], inner)}?' if truthy(ty[1], inner) else 'None'
    if p == 'or':
        if val['prim'] == 'Left':
            return f"({py_repr(ty[1], val['args'][0])} + _)"
        return f"(_ + {py_repr(ty[2], val['args'][0])})"
    if p == 'list':
        return '[' + ', '.join(py_repr(ty[1], x) for x in val) + ']'
    if p == 'set':
        return '{' + ', '.join(py_repr(ty[1], x) for x in val) + '}'
    if p == 'map':
        return '{' + ', '.join(f"{py_repr(ty[1], e['args'][0])}: {py_repr(ty[2], e['args'][1])}" for e in val) + '}'
    if p == 'lambda':
        return 'Lambda'
    raise NoRepr(ty)      # a class whose repr is not transcribed here: the FAILWITH text is not compared


def truthy(ty, val):
    """Python truthiness of the runtime object (OptionType.__repr__ tests `if self.item`)"""
    p = ty[0]
    if p == 'bool':
        return val['prim'] == 'True'
    if p in ('string', 'address', 'chain_id', 'key_hash', 'key', 'signature'):
        return len(val['string']) > 0
    if p == 'bytes':
        return len(val['bytes']) > 0
    if p in ('list', 'map', 'set'):
        return len(val) > 0
    return True


# ---- the same program inside a REPL session -----------------------------------------------------------------------------
PRELUDES = [
    ['PUSH int 1 ; DIP { PUSH string "x" ; FAILWITH }'],                      # fails with one item protected
    ['PUSH int 1 ; PUSH int 2 ; PUSH int 3 ; DIP 2 { UNIT ; FAILWITH }'],       # fails with two items protected
    ['PUSH int 1 ; DIG 1'], ['PUSH int 1 ; PUSH int 2 ; DUP 3'],                # fail inside protect/restore of DIG / DUP n
    ['UNIT ; FAILWITH'], ['PUSH nat 1 ; PUSH string "a" ; ADD'],                # plain failures
    ['PUSH int 5 ; DROP'], ['PUSH int 5', 'DROP'],                              # successful cells that clean up after themselves
    ['PUSH int 1 ; DIP { DIP { UNIT ; FAILWITH } }', 'PUSH int 7 ; DROP'],
]


def run_session(code, env, prelude):
    """`code` (a Micheline sequence) executed by `Interpreter.execute` as one cell of a REPL session whose earlier cells
    (`prelude`: failing ones are rolled back, the others leave an empty stack) must not influence it.
    Same result shape as run_real."""
    from pytezos.michelson.format import micheline_to_michelson
    from pytezos.michelson.micheline import MichelsonRuntimeError
    from pytezos.michelson.repl import Interpreter
    interp = Interpreter()
    c = interp.context
    c.amount, c.balance, c.now, c.level = env['amount'], env['balance'], env['now'], env['level']
    c.sender, c.source, c.address, c.chain_id = env['sender'], env['source'], env['self'], env['chain_id']
    c.total_voting_power, c.min_block_time = env.get('total_voting_power', 0), env.get('min_block_time', 1)
    c.voting_power = dict(env.get('voting_power', {}))
    if env.get('parameter') is not None:
        c.parameter_expr = {'prim': 'parameter', 'args': [env['parameter']]}
    for cell in prelude:
        interp.execute(cell)
    if interp.stack.items:
        return 'err', f'prelude left {len(interp.stack.items)} items'
    text = ' ; '.join(micheline_to_michelson(ins, inline=True) for ins in code) if isinstance(code, list) else micheline_to_michelson(code, inline=True)
    r = interp.execute(text)
    if r.error is not None:
        e = r.error
        if isinstance(e, MichelsonRuntimeError) and e.args[-2:-1] == ('FAILWITH',):
            return 'failed', e.args[-1]
        return 'err', ' -> '.join(map(str, e.args))[:300]
    return 'ok', [(ty_strip(x.as_micheline_expr()), canon(x)) for x in interp.stack.items]
