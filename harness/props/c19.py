"""C19 — macro expansions have their specified Michelson meaning.

Streams
  * `table-selfcheck`: the dispatch table / prim_tags the translator read from the source vs the imported module.
  * `expansion`: real `expand_macro(name, annots, args)` vs the Lean mirror, annotations stripped, plus accept/reject
    and the error class; every name of the universe, with and without annotations, several argument counts.
  * `parser`: `michelson_to_micheline(text)` agrees with `expand_macro` (the parser is what users reach).
  * `sem-eval`: the real `Interpreter` run on the macro text vs the Lean reference evaluator run on the Lean expansion.
Oracle (independent of the mirror, evaluated on the real code): the reference macro grammar (accept exactly the
reference names) and the reference meaning of every macro on stacks of matching (and some non-matching) shape,
computed in Python; `UNP…R` after `P…R` restores the stack."""
import itertools
import os
import re

from harness import common, mich
from translator import extract

PROP = 'C19'
OPS = ['EQ', 'NEQ', 'LT', 'GT', 'LE', 'GE']
FIXED = (['CMP' + o for o in OPS] + ['IF' + o for o in OPS] + ['IFCMP' + o for o in OPS] + ['FAIL', 'ASSERT']
         + ['ASSERT_' + o for o in OPS] + ['ASSERT_CMP' + o for o in OPS]
         + ['ASSERT_NONE', 'ASSERT_SOME', 'ASSERT_LEFT', 'ASSERT_RIGHT', 'IF_SOME', 'IF_RIGHT',
            'SET_CAR', 'SET_CDR', 'MAP_CAR', 'MAP_CDR'])
PRIMS = ['PAIR', 'UNPAIR', 'CAR', 'CDR', 'DIP', 'DUP', 'IF', 'IF_NONE', 'IF_LEFT', 'SWAP', 'COMPARE', 'CAST', 'RENAME']
ANNOT_POOL = [['@a'], ['%x'], ['%x', '%y'], ['@v', '%x'], ['%x', '@v', '%y', ':t'], [':t'], ['%', '%y'], ['@%%'],
              ['%@', '%b', '%c'], ['%a', '%b', '%c', '%d', '@w']]


# ----------------------------------------------------------------------------------------------------------
# reference grammar (Michelson reference, "Macros" section) — independent of pytezos

def ref_pair_tree(name):
    """`P (A | P…) (I | P…) R` -> tree ('L' | (l, r)) or None"""
    n = len(name)
    if n < 4 or name[0] != 'P' or name[-1] != 'R':
        return None

    def p(i, side):
        if i >= n - 1:
            return None
        c = name[i]
        if c == 'P':
            a = p(i + 1, 'A')
            if a is None:
                return None
            b = p(a[1], 'I')
            if b is None:
                return None
            return (a[0], b[0]), b[1]
        if c == side:
            return 'L', i + 1
        return None

    r = p(0, None)
    if r is None or r[1] != n - 1:
        return None
    return r[0]


def leaves(t):
    return 1 if t == 'L' else leaves(t[0]) + leaves(t[1])


def pair_name(t, side=None):
    if t == 'L':
        return side
    return 'P' + pair_name(t[0], 'A') + pair_name(t[1], 'I')


def ref_macro(name):
    """(family, data, number of code arguments) for a name of the reference macro set, else None"""
    for pre, fam, nargs in (('IFCMP', 'ifcmp', 2), ('CMP', 'cmp', 0), ('IF', 'if', 2), ('ASSERT_CMP', 'assert_cmp', 0), ('ASSERT_', 'assert_x', 0)):
        if name.startswith(pre) and name[len(pre):] in OPS:
            return fam, name[len(pre):], nargs
    simple = {'FAIL': 0, 'ASSERT': 0, 'ASSERT_NONE': 0, 'ASSERT_SOME': 0, 'ASSERT_LEFT': 0, 'ASSERT_RIGHT': 0, 'IF_SOME': 2, 'IF_RIGHT': 2}
    if name in simple:
        return name.lower(), None, simple[name]
    m = re.fullmatch(r'D(I{2,})P', name)
    if m:
        return 'dip', len(m.group(1)), 1
    m = re.fullmatch(r'D(U{2,})P', name)
    if m:
        return 'dup', len(m.group(1)), 0
    if name.startswith('UNP'):
        t = ref_pair_tree(name[2:])
        if t is not None and leaves(t) >= 3:
            return 'unpair', t, 0
    t = ref_pair_tree(name)
    if t is not None and leaves(t) >= 3:
        return 'pair', t, 0
    m = re.fullmatch(r'C([AD]{2,})R', name)
    if m:
        return 'cxr', m.group(1), 0
    m = re.fullmatch(r'SET_C([AD]+)R', name)
    if m:
        return 'set_cxr', m.group(1), 0
    m = re.fullmatch(r'MAP_C([AD]+)R', name)
    if m:
        return 'map_cxr', m.group(1), 1
    return None


# ----------------------------------------------------------------------------------------------------------
# values: str = opaque atom, int, bool, ('unit',), ('pair', a, b), ('some', v), ('none', ty), ('left', v, ty_r), ('right', ty_l, v)

def ty(v):
    if isinstance(v, bool):
        return 'bool'
    if isinstance(v, str):
        return 'string'
    if isinstance(v, int):
        return 'int'
    k = v[0]
    if k == 'unit':
        return 'unit'
    if k == 'pair':
        return f'(pair {ty(v[1])} {ty(v[2])})'
    if k == 'some':
        return f'(option {ty(v[1])})'
    if k == 'none':
        return f'(option {v[1]})'
    if k == 'left':
        return f'(or {ty(v[1])} {v[2]})'
    if k == 'right':
        return f'(or {v[1]} {ty(v[2])})'
    raise ValueError(v)


def lit(v):
    if isinstance(v, bool):
        return 'True' if v else 'False'
    if isinstance(v, str):
        return f'"{v}"'
    if isinstance(v, int):
        return str(v)
    k = v[0]
    if k == 'unit':
        return 'Unit'
    if k == 'pair':
        return f'(Pair {lit(v[1])} {lit(v[2])})'
    if k == 'some':
        return f'(Some {lit(v[1])})'
    if k == 'none':
        return 'None'
    if k == 'left':
        return f'(Left {lit(v[1])})'
    if k == 'right':
        return f'(Right {lit(v[2])})'
    raise ValueError(v)


def canon(v):
    """drop the type hints: the form values are compared in"""
    if isinstance(v, (bool, str, int)):
        return v
    k = v[0]
    if k == 'pair':
        return ('pair', canon(v[1]), canon(v[2]))
    if k == 'some':
        return ('some', canon(v[1]))
    if k == 'none':
        return ('none',)
    if k == 'left':
        return ('left', canon(v[1]))
    if k == 'right':
        return ('right', canon(v[2]))
    return ('unit',)


def to_mich(v):
    v = canon(v)
    if isinstance(v, bool):
        return {'prim': 'True' if v else 'False'}
    if isinstance(v, str):
        return {'string': v}
    if isinstance(v, int):
        return {'int': str(v)}
    k = v[0]
    if k == 'unit':
        return {'prim': 'Unit'}
    if k == 'none':
        return {'prim': 'None'}
    return {'prim': {'pair': 'Pair', 'some': 'Some', 'left': 'Left', 'right': 'Right'}[k], 'args': [to_mich(x) for x in v[1:]]}


def from_mich(m):
    if 'string' in m:
        return m['string']
    if 'int' in m:
        return int(m['int'])
    p, a = m['prim'], m.get('args', [])
    if p in ('True', 'False'):
        return p == 'True'
    if p == 'Unit':
        return ('unit',)
    if p == 'None':
        return ('none',)
    return ({'Pair': 'pair', 'Some': 'some', 'Left': 'left', 'Right': 'right'}[p], *[from_mich(x) for x in a])


def from_item(it):
    """pytezos stack item -> canonical value"""
    n = type(it).__name__
    if n == 'StringType':
        return str(it.value)
    if n in ('IntType', 'NatType'):
        return int(it.value)
    if n == 'BoolType':
        return bool(it.value)
    if n == 'UnitType':
        return ('unit',)
    if n == 'PairType':
        assert len(it.items) == 2
        return ('pair', from_item(it.items[0]), from_item(it.items[1]))
    if n == 'OptionType':
        return ('none',) if it.item is None else ('some', from_item(it.item))
    if n == 'OrType':
        return ('left', from_item(it.items[0])) if it.items[0] is not None else ('right', from_item(it.items[1]))
    raise ValueError(n)


# ----------------------------------------------------------------------------------------------------------
# reference meaning (Python re-statement of the reference definitions; raises RefErr / RefFail)

class RefErr(Exception):
    pass


class RefFail(Exception):
    pass


def need(c):
    if not c:
        raise RefErr()


def is_pair(v):
    return isinstance(v, tuple) and v[0] == 'pair'


def sgn(a, b):
    return -1 if a < b else (0 if a == b else 1)


TESTS = {'EQ': lambda i: i == 0, 'NEQ': lambda i: i != 0, 'LT': lambda i: i < 0, 'GT': lambda i: i > 0, 'LE': lambda i: i <= 0, 'GE': lambda i: i >= 0}


def an_int(v):
    return isinstance(v, int) and not isinstance(v, bool)


def ref_build(t, S):
    """P…R: consume the leaves of t from the top, push the nested pair"""
    if t == 'L':
        need(len(S) >= 1)
        return S[0], S[1:]
    a, S = ref_build(t[0], S)
    b, S = ref_build(t[1], S)
    return ('pair', a, b), S


def ref_unbuild(t, v):
    if t == 'L':
        return [v]
    need(is_pair(v))
    return ref_unbuild(t[0], v[1]) + ref_unbuild(t[1], v[2])


def ref_get(path, v):
    for c in path:
        need(is_pair(v))
        v = v[1] if c == 'A' else v[2]
    return v


def ref_set(path, v, x):
    need(is_pair(v))
    if len(path) == 1:
        return ('pair', x, v[2]) if path == 'A' else ('pair', v[1], x)
    if path[0] == 'A':
        return ('pair', ref_set(path[1:], v[1], x), v[2])
    return ('pair', v[1], ref_set(path[1:], v[2], x))


def ref_map(path, code, S):
    """MAP_C[AD]+R code, following the reference rewriting rules literally on stacks"""
    need(len(S) >= 1 and is_pair(S[0]))
    p, rest = S[0], S[1:]
    if path == 'A':      # DUP ; CDR ; DIP { CAR ; code } ; SWAP ; PAIR
        out = code([p[1]] + rest)
        need(len(out) >= 1)
        return [('pair', out[0], p[2])] + out[1:]
    if path == 'D':      # DUP ; CDR ; code ; SWAP ; CAR ; PAIR
        out = code([p[2], p] + rest)
        need(len(out) >= 2 and is_pair(out[1]))
        return [('pair', out[1][1], out[0])] + out[2:]
    if path[0] == 'A':   # DUP ; DIP { CAR ; MAP_C(rest)R code } ; CDR ; SWAP ; PAIR
        out = ref_map(path[1:], code, [p[1]] + rest)
        need(len(out) >= 1)
        return [('pair', out[0], p[2])] + out[1:]
    out = ref_map(path[1:], code, [p[2]] + rest)      # DUP ; DIP { CDR ; MAP_C(rest)R code } ; CAR ; PAIR
    need(len(out) >= 1)
    return [('pair', p[1], out[0])] + out[1:]


def ref_meaning(fam, data, codes, S):
    """-> ('ok', stack) | ('failed', 'Unit') | ('err',)"""
    S = [canon(v) for v in S]
    try:
        return ('ok', _ref(fam, data, codes, S))
    except RefErr:
        return ('err',)
    except RefFail:
        return ('failed', 'Unit')


def _ref(fam, data, codes, S):
    def branch(i, st):
        return codes[i](st)

    if fam in ('cmp', 'ifcmp', 'assert_cmp'):
        need(len(S) >= 2 and an_int(S[0]) and an_int(S[1]))
        S = [sgn(S[0], S[1])] + S[2:]
        fam = {'cmp': 'test', 'ifcmp': 'if', 'assert_cmp': 'assert_x'}[fam]
    if fam == 'test':
        return [TESTS[data](S[0])] + S[1:]
    if fam in ('if', 'assert_x'):
        need(len(S) >= 1 and an_int(S[0]))
        S = [TESTS[data](S[0])] + S[1:]
        fam = 'ifbool' if fam == 'if' else 'assert'
    if fam == 'ifbool':
        return branch(0 if S[0] else 1, S[1:])
    if fam == 'assert':
        need(len(S) >= 1 and isinstance(S[0], bool))
        if not S[0]:
            raise RefFail()
        return S[1:]
    if fam == 'fail':
        raise RefFail()
    if fam in ('assert_none', 'assert_some', 'if_some'):
        need(len(S) >= 1 and isinstance(S[0], tuple) and S[0][0] in ('none', 'some'))
        some = S[0][0] == 'some'
        if fam == 'assert_none':
            if some:
                raise RefFail()
            return S[1:]
        if fam == 'assert_some':
            if not some:
                raise RefFail()
            return [S[0][1]] + S[1:]
        return branch(0, [S[0][1]] + S[1:]) if some else branch(1, S[1:])
    if fam in ('assert_left', 'assert_right', 'if_right'):
        need(len(S) >= 1 and isinstance(S[0], tuple) and S[0][0] in ('left', 'right'))
        left = S[0][0] == 'left'
        if fam == 'if_right':
            return branch(1 if left else 0, [S[0][1]] + S[1:])
        if left != (fam == 'assert_left'):
            raise RefFail()
        return [S[0][1]] + S[1:]
    if fam == 'dip':
        need(len(S) >= data)
        return S[:data] + codes[0](S[data:])
    if fam == 'dup':
        need(len(S) >= data)
        return [S[data - 1]] + S
    if fam == 'pair':
        v, rest = ref_build(data, S)
        return [v] + rest
    if fam == 'unpair':
        need(len(S) >= 1)
        return ref_unbuild(data, S[0]) + S[1:]
    if fam == 'cxr':
        need(len(S) >= 1)
        return [ref_get(data, S[0])] + S[1:]
    if fam == 'set_cxr':
        need(len(S) >= 2)
        return [ref_set(data, S[0], S[1])] + S[2:]
    if fam == 'map_cxr':
        return ref_map(data, codes[0], S)
    raise ValueError(fam)


# code fragments usable as macro arguments: (text, python meaning)
def _push(s):
    def f(S):
        return [s] + S
    return f


def _tag(s):
    def f(S):
        need(len(S) >= 1)
        return [('pair', s, S[0])] + S[1:]
    return f


def _peek(S):
    need(len(S) >= 2)
    return [('pair', S[0], S[1])] + S[1:]


def _drop(S):
    need(len(S) >= 1)
    return S[1:]


def _pairc(S):
    need(len(S) >= 2)
    return [('pair', S[0], S[1])] + S[2:]


def _under(n, f):
    def g(S):
        need(len(S) >= n)
        return S[:n] + f(S[n:])
    return g


def _dup(S):
    need(len(S) >= 1)
    return [S[0]] + S


def _swap(S):
    need(len(S) >= 2)
    return [S[1], S[0]] + S[2:]


CODE = {
    # bodies that consist of ONE instruction which is itself one of the primitives expansions are made of — an expansion that
    # inspects / merges / flattens its code argument shows up on these and on nothing else
    'dip_drop': ('{ DIP { DROP } }', _under(1, _drop)),
    'dip1_push': ('{ DIP 1 { PUSH string "t" } }', _under(1, _push('t'))),
    'dip2_drop': ('{ DIP 2 { DROP } }', _under(2, _drop)),
    'dip0_push': ('{ DIP 0 { PUSH string "f" } }', _push('f')),
    'dip_dip': ('{ DIP { DIP { DROP } } }', _under(2, _drop)),
    'wrapped_dip': ('{ { DIP { DROP } } }', _under(1, _drop)),
    'dip_then': ('{ DIP { DROP } ; SWAP }', lambda S: _swap(_under(1, _drop)(S))),
    'dup': ('{ DUP }', _dup),
    'swap': ('{ SWAP }', _swap),
    'push_t': ('{ PUSH string "t" }', _push('t')),
    'push_f': ('{ PUSH string "f" }', _push('f')),
    'tag_s': ('{ PUSH string "s" ; PAIR }', _tag('s')),
    'tag_r': ('{ PUSH string "r" ; PAIR }', _tag('r')),
    'peek': ('{ DIP { DUP } ; PAIR }', _peek),       # shows what lies directly below the value the code is given
    'drop': ('{ DROP }', _drop),
    'pair': ('{ PAIR }', _pairc),
    'nop': ('{ }', lambda S: S),
}


# ----------------------------------------------------------------------------------------------------------
# running the real code

def err_class(e):
    n = type(e).__name__
    return {'AssertionError': 'assertion', 'IndexError': 'indexError'}.get(n, n)


def strip_annots(m):
    if isinstance(m, list):
        return [strip_annots(x) for x in m]
    if 'prim' in m:
        out = {'prim': m['prim']}
        if m.get('args'):
            out['args'] = [strip_annots(a) for a in m['args']]
        return out
    return m


def impl_expand(name, annots, args):
    from pytezos.michelson.macros import expand_macro
    import copy
    try:
        return 'ok', expand_macro(name, list(annots), copy.deepcopy(args))
    except Exception as e:  # noqa
        return 'err', err_class(e)


_PARSER = []


def shared_parser():
    """building the PLY tables costs ~4 ms; one parser instance serves every `michelson_to_micheline(text, parser)` call"""
    from pytezos.michelson.parse import MichelsonParser
    if not _PARSER:
        _PARSER.append(MichelsonParser())
    return _PARSER[0]


def impl_parse(text):
    from pytezos.michelson.parse import MichelsonParserError, michelson_to_micheline
    try:
        return 'ok', michelson_to_micheline(text, parser=shared_parser())
    except MichelsonParserError:
        return 'err', 'assertion'
    except Exception as e:  # noqa
        return 'err', err_class(e)


_REPL = []


def impl_run(stack, macro_text):
    """REPL session reset to an empty stack: PUSH the stack (last element first) then the macro text, in one cell
    -> ('ok', stack) | ('failed', v) | ('err',) | ('rejected', class)"""
    from pytezos.michelson.micheline import MichelsonRuntimeError
    from pytezos.michelson.parse import MichelsonParserError
    from pytezos.michelson.repl import Interpreter
    if not _REPL:
        _REPL.append(Interpreter())
    it = _REPL[0]
    it.reset()
    cell = ' ; '.join([f'PUSH {ty(v)} {lit(v)}' for v in reversed(stack)] + [macro_text])
    try:
        r = it.execute(cell)
    except Exception as e:  # noqa — e.g. IndexError escaping the parser
        return ('rejected', err_class(e))
    if r.error is None:
        return ('ok', [from_item(x) for x in it.stack.items])
    if isinstance(r.error, MichelsonParserError):
        return ('rejected', 'assertion')
    if isinstance(r.error, MichelsonRuntimeError) and len(r.error.args) >= 2 and r.error.args[-2] == 'FAILWITH':
        return ('failed', str(r.error.args[-1]))      # args = trace of enclosing instructions, 'FAILWITH', value
    return ('err',)


def fmt_result(r):
    if r[0] == 'ok':
        return 'ok ' + mich.to_line([to_mich(v) for v in r[1]])
    if r[0] == 'failed':
        return 'failed ' + (mich.to_line({'prim': 'Unit'}) if r[1] == 'Unit' else r[1])
    if r[0] == 'rejected':
        return 'xerr ' + r[1]
    return 'err'


def hexs(s):
    return s.encode().hex() or '-'


def call_tokens(name, annots, args):
    toks = [hexs(name), str(len(annots))] + [hexs(a) for a in annots] + [str(len(args))]
    for a in args:
        toks += mich.to_tokens(a)
    return toks


def macro_text(name, annots, code_keys):
    return ' '.join([name] + list(annots) + [CODE[k][0] for k in code_keys])


# ----------------------------------------------------------------------------------------------------------
# case generation

def all_trees(n):
    if n == 1:
        return ['L']
    out = []
    for k in range(1, n):
        for l in all_trees(k):
            for r in all_trees(n - k):
                out.append((l, r))
    return out


def rand_tree(rng, n):
    if n == 1:
        return 'L'
    k = rng.randrange(1, n)
    return (rand_tree(rng, k), rand_tree(rng, n - k))


def full_tree(path_len, prefix=''):
    """value with a distinct atom at the end of every C[AD]+R path of that length"""
    if path_len == 0:
        return 'v' + prefix
    return ('pair', full_tree(path_len - 1, prefix + 'a'), full_tree(path_len - 1, prefix + 'd'))


def spine_value(path):
    """pairs only along the path (cheap for long paths), atoms elsewhere"""
    if not path:
        return 'tgt'
    sub = spine_value(path[1:])
    other = 'o%d' % len(path)
    return ('pair', sub, other) if path[0] == 'A' else ('pair', other, sub)


def name_universe(ctx, quick):
    """every name of the families up to the length bound (well-formed or not), fixed names, near misses"""
    names = []
    lp = 10 if quick else 11
    for n in range(1, lp - 1):
        for w in itertools.product('PAI', repeat=n):
            names.append('P' + ''.join(w) + 'R')
    for n in range(1, lp - 3):
        for w in itertools.product('PAI', repeat=n):
            names.append('UNP' + ''.join(w) + 'R')
    for n in range(0, 9 if quick else 11):
        for w in itertools.product('AD', repeat=n):
            names.append('C' + ''.join(w) + 'R')
    for n in range(0, 6 if quick else 8):
        for w in itertools.product('AD', repeat=n):
            names.append('SET_C' + ''.join(w) + 'R')
            names.append('MAP_C' + ''.join(w) + 'R')
    for n in range(0, 10):
        names.append('D' + 'I' * n + 'P')
        names.append('D' + 'U' * n + 'P')
    names += FIXED + PRIMS
    # near misses: one edit away from a fixed or family name, and a final newline (Python `$`)
    seeds = FIXED + ['PAPAIR', 'PPAIIR', 'UNPAPAIR', 'CADR', 'CDDAR', 'SET_CADR', 'MAP_CDAR', 'DIIP', 'DUUP', 'DIIIP', 'PAPPAIIR']
    alphabet = 'ACDEFGILMNOPQRSTU_X'
    near = set()
    for s in seeds:
        near.add(s + '\n')
        near.add(s + 'R')
        near.add(s[:-1])
        near.add(s[1:])
        near.add('X' + s)
        near.add(s + '_')
        near.add(s.lower())
        for _ in range(4 if quick else 12):
            i = ctx.rng.randrange(len(s))
            c = ctx.rng.choice(alphabet)
            near.add(s[:i] + c + s[i + 1:])
            near.add(s[:i] + c + s[i:])
            near.add(s[:i] + s[i + 1:])
    near |= {'CR', 'DP', 'PR', 'PAR', 'UNPR', 'IF', 'CMP', 'IFCMP', 'ASSERT_', 'ASSERT_CMP', 'SET_', 'MAP_', 'SET_CR', 'MAP_CR', 'DIUP', 'DUIP',
             'CMPEQEQ', 'IFIF', 'ASSERT_EQ_', 'CAXR', 'CADRR', 'CCAR', 'PAIRR', 'UNUNPAPAIR', 'UNPAIRR', 'FAILWITH', 'ASSERT_CMPEQ\n\n'}
    seen = set()
    out = []
    for nm in names + sorted(x for x in near if x):
        if nm not in seen:
            seen.add(nm)
            out.append(nm)
    return out


ARG_POOL_TEXT = ['{ UNIT }', '{ DROP }', '{ }', '{ PUSH string "q" ; PAIR }']
# code arguments made of one primitive that expansions themselves emit
ONE_PRIM_ARGS = ['{ DIP { DROP } }', '{ DIP 1 { UNIT } }', '{ DIP 2 { DROP } }', '{ { DIP { DROP } } }', '{ DIP { DROP } ; SWAP }', '{ DUP }', '{ SWAP }',
                 '{ PAIR }', '{ CAR }', '{ IF { UNIT } { DROP } }', '{ DIP { DIP { UNIT } } }', '{ FAILWITH }', '{ COMPARE }', '{ EQ }', '{ { } }', '{ }']


def run(ctx):
    from pytezos.michelson import macros as real_macros
    from pytezos.michelson.parse import michelson_to_micheline
    from pytezos.michelson.tags import prim_tags

    status = extract.generate(PROP)
    ctx.prepare_lean(status)
    quick = ctx.tier == 'quick'
    ctx.extra['rule'] = (
        'names: every P[PAI]+R / UNP[PAI]+R / C[AD]*R / SET_,MAP_C[AD]*R / DI*P / DU*P string up to the length bound, all fixed-name '
        'macros, primitives, near misses (one edit away, trailing newline); each with no annotation and with annotation lists, with 0/1/2 code arguments; '
        'semantic cases: every reference macro name in that universe on stacks of matching shape with distinct atoms, plus stacks that are too short / of the wrong shape; '
        'non-trivial = the name reaches a macro handler (is matched by a regex of the table) or is a reference macro name')
    ctx.assumptions += [
        'Sem (lean/PytezosModel/Michelson/MacroSem.lean) is my transcription of the Michelson reference for the ~25 primitives expansions use; it is tied to the real Interpreter only by the sem-eval stream',
        'annotation placement in expansions is not compared (C17); annotations only matter here for accept/reject',
        'argument-count validation is mirrored, not judged: MAP_C[AD]+R accepts any number of code arguments, like the code',
        'Python `re` is modelled for the fragment the table uses (literals, alternation of words, greedy class repetition)',
    ]

    # ---- self-check of the translator output against the imported module
    gen = open(os.path.join(common.LEAN, 'PytezosModel', 'Generated', 'C19.lean')).read()
    rows_gen = re.findall(r'^  ⟨"((?:[^"\\]|\\.)*)", "(\w+)",', gen, flags=re.M)
    rows_real = [(rx.pattern, fn.__name__) for rx, fn in real_macros.macros]
    rows_gen = [(a.replace('\\\\', '\\'), b) for a, b in rows_gen]
    if rows_gen != rows_real:
        ctx.mismatch('table-selfcheck', 'macros table', rows_real, rows_gen)
    m = re.search(r'def primTags : Option \(List \(List Char\)\) := some \[(.*?)\]\n', gen, flags=re.S)
    tags_gen = [''.join(re.findall(r"'(.)'", row)) for row in m.group(1).strip().split('\n')] if m else None
    if tags_gen != list(prim_tags.keys()):
        ctx.mismatch('table-selfcheck', 'prim_tags keys', list(prim_tags.keys())[:5], (tags_gen or [])[:5])
    ctx.case({'selfcheck': 'tables'}, nontrivial=True)

    # ---- expansion correspondence + grammar oracle
    table_rx = [rx for rx, _ in real_macros.macros]
    arg_pool = [michelson_to_micheline(t, parser=shared_parser()) for t in ARG_POOL_TEXT] + [{'prim': 'UNIT'}]
    one_prim_args = [michelson_to_micheline(t, parser=shared_parser()) for t in ONE_PRIM_ARGS]
    names = name_universe(ctx, quick)
    xcases = []     # (name, annots, args)
    for nm in names:
        ref = ref_macro(nm)
        reaches = any(rx.findall(nm) for rx in table_rx)
        want = ref[2] if ref else 0
        xcases.append((nm, [], arg_pool[:want]))
        xcases.append((nm, ctx.rng.choice(ANNOT_POOL), arg_pool[:want]))
        interesting = ref is not None or (reaches and len(nm) <= 7) or not re.fullmatch(r'(UN)?P[PAI]*R', nm)
        if interesting:
            for k in (0, 1, 2, 3):
                if k != want:
                    xcases.append((nm, [], arg_pool[:k]))
            for an in ANNOT_POOL:
                xcases.append((nm, an, arg_pool[:want]))
            xcases.append((nm, [], [arg_pool[4]] * want))          # bare primitive instead of a code block
        if ref is not None and want >= 1 and len(nm) <= 8:
            for a in one_prim_args:
                xcases.append((nm, [], [a] + arg_pool[:want - 1]))
                if want >= 2:
                    xcases.append((nm, [], arg_pool[:want - 1] + [a]))
    lines = ['X ' + ' '.join(call_tokens(nm, an, ar)) for nm, an, ar in xcases]
    model = ctx.model(lines)
    bad_accept, bad_reject = [], []
    for idx, (nm, an, ar) in enumerate(xcases):
        ref = ref_macro(nm)
        st, res = impl_expand(nm, an, ar)
        reaches = any(rx.findall(nm) for rx in table_rx)
        ctx.case({'name': nm, 'annots': an, 'nargs': len(ar)}, nontrivial=reaches or ref is not None)
        fam = ref[0] if ref else ('prim' if nm in prim_tags else ('ill-formed' if reaches else 'unknown'))
        ctx.count('family', fam)
        ctx.count('outcome', 'ok' if st == 'ok' else res)
        ctx.count('annots', min(len(an), 3))
        if st == 'ok':
            full = mich.normalize(res)
            got = 'ok ' + mich.to_line(strip_annots(full))
        else:
            got = 'err ' + res
        # oracle: the reference name grammar (no annotations, the reference argument count)
        if not an and nm not in prim_tags and '\n' not in nm and len(ar) == (ref[2] if ref else 0) and all(isinstance(a, list) for a in ar):
            if st == 'ok' and ref is None:
                bad_accept.append(nm)
            if st != 'ok' and ref is not None:
                bad_reject.append((nm, res))
            # the parser agrees with expand_macro
            texts = [ARG_POOL_TEXT[arg_pool.index(a)] if a in arg_pool[:4] else ONE_PRIM_ARGS[one_prim_args.index(a)] for a in ar]
            if re.fullmatch(r'[A-Za-z][A-Za-z0-9_]+', nm):
                pst, pres = impl_parse(' '.join([nm] + texts))
                want_p = (st, mich.normalize(res) if st == 'ok' else res)
                got_p = (pst, mich.normalize(list(pres) if isinstance(pres, list) else pres) if pst == 'ok' else pres)
                if want_p != got_p:
                    ctx.mismatch('parser', {'name': nm, 'nargs': len(ar)}, got_p, want_p)
        if model is not None:
            mo = model[idx]
            if mo.startswith('ok '):
                mo_full = mich.normalize(mich.from_line(mo[3:]))
                ctx.count('annotated-expansion-vs-model', 'same' if st == 'ok' and mo_full == full else 'differs')
                mo = 'ok ' + mich.to_line(strip_annots(mo_full))
            if mo != got:
                ctx.mismatch('expansion', {'name': nm, 'annots': an, 'nargs': len(ar)}, got, mo)
    if bad_accept:
        nm = min(bad_accept, key=lambda s: (len(s), s))
        st, res = impl_expand(nm, [], [])
        key = 'pair-tree-name-not-validated' if re.fullmatch(r'(UN)?P[PAI]+R', nm) else f'accepts-non-macro:{nm}'
        ctx.violation(key, f'{nm} is not a macro of the Michelson reference (left leaves are A, right leaves are I, nothing may follow the tree) '
                           f'but expand_macro accepts it and yields {res}; {len(bad_accept)} such names in the universe',
                      {'name': nm, 'annots': [], 'args': [], 'expansion': res, 'count': len(bad_accept), 'others': sorted(bad_accept, key=lambda s: (len(s), s))[1:8]})
    for nm, res in sorted(bad_reject, key=lambda x: (len(x[0]), x[0]))[:3]:
        ctx.violation(f'rejects-macro:{nm}', f'{nm} is a reference macro but expand_macro raises {res}', {'name': nm, 'error': res})

    # ---- semantic cases
    sem = []   # (name, annots, code keys, stack, family, data)

    def add(nm, codes, stack, annots=()):
        ref = ref_macro(nm)
        assert ref is not None and ref[2] == len(codes), nm
        sem.append((nm, list(annots), list(codes), list(stack), ref[0], ref[1]))

    extra = ['x1', 'x2']
    ints = [(-3, -3), (-3, 5), (5, -3), (0, 0), (0, 1), (1, 0)]
    for o in OPS:
        for a, b in ints:
            add('CMP' + o, [], [a, b] + extra)
            add('IFCMP' + o, ['push_t', 'push_f'], [a, b] + extra)
            add('ASSERT_CMP' + o, [], [a, b] + extra)
        for i in (-2, -1, 0, 1, 2):
            add('IF' + o, ['push_t', 'push_f'], [i] + extra)
            add('IF' + o, ['drop', 'pair'], [i] + extra)
            add('ASSERT_' + o, [], [i] + extra)
        add('CMP' + o, [], [1], )                    # too short
        add('CMP' + o, [], ['s', 1, 2])              # not ints
        add('IF' + o, ['nop', 'nop'], [])
        add('IF' + o, ['dip_drop', 'dup'], [0] + extra + ['x3'])
        add('IF' + o, ['swap', 'dip2_drop'], [1] + extra + ['x3'])
        add('ASSERT_' + o, [], ['s'])
        add('CMP' + o, [], [2, 1, 'x'], annots=['@r'])
    for b in (True, False):
        add('ASSERT', [], [b] + extra)
    add('ASSERT', [], [])
    add('ASSERT', [], ['x'])
    add('FAIL', [], extra)
    add('FAIL', [], [])
    opt = [('some', 'a'), ('none', 'string'), ('some', ('pair', 'a', 3))]
    for v in opt:
        add('ASSERT_NONE', [], [v] + extra)
        add('ASSERT_SOME', [], [v] + extra)
        add('ASSERT_SOME', [], [v] + extra, annots=['@w'])
        add('IF_SOME', ['tag_s', 'push_f'], [v] + extra)
        add('IF_SOME', ['drop', 'nop'], [v] + extra)
    ors = [('left', 'a', 'int'), ('right', 'string', 7), ('left', ('pair', 'a', 'b'), 'unit')]
    for v in ors:
        add('ASSERT_LEFT', [], [v] + extra)
        add('ASSERT_RIGHT', [], [v] + extra)
        add('ASSERT_LEFT', [], [v] + extra, annots=['@w'])
        add('IF_RIGHT', ['tag_r', 'tag_s'], [v] + extra)
    for nm in ('ASSERT_NONE', 'ASSERT_SOME', 'ASSERT_LEFT', 'ASSERT_RIGHT'):
        add(nm, [], [])
        add(nm, [], ['x', 'y'])
    add('IF_SOME', ['nop', 'nop'], ['x'])
    add('IF_RIGHT', ['nop', 'nop'], [])
    max_n = 8 if quick else 14
    for n in range(2, max_n + 1):
        st = ['e%d' % i for i in range(n + 3)]
        add('D' + 'I' * n + 'P', ['push_t'], st)
        add('D' + 'I' * n + 'P', ['pair'], st)
        add('D' + 'I' * n + 'P', ['drop'], st[:n + 1])
        add('D' + 'I' * n + 'P', ['drop'], st[:n])        # nothing under the protected part
        add('D' + 'I' * n + 'P', ['nop'], st[:n - 1])     # too short
        for ck in ('dip_drop', 'dip1_push', 'dip2_drop', 'dip0_push', 'dip_dip', 'wrapped_dip', 'dip_then', 'dup', 'swap'):
            if n <= 4 or ck in ('dip_drop', 'dip1_push'):
                add('D' + 'I' * n + 'P', [ck], st)
        add('D' + 'U' * n + 'P', [], st)
        add('D' + 'U' * n + 'P', [], st[:n])
        add('D' + 'U' * n + 'P', [], st[:n - 1])          # too short
        add('D' + 'U' * n + 'P', [], st, annots=['@d'])
    trees = []
    for n in range(3, (6 if quick else 8) + 1):
        trees += all_trees(n)
    for _ in range(40 if quick else 400):
        trees.append(rand_tree(ctx.rng, ctx.rng.randrange(7, 13 if quick else 24)))
    ctx.extra['pair_trees'] = len(trees)
    pair_cases = []
    for t in trees:
        n = leaves(t)
        st = ['l%d' % i for i in range(n)]
        nm = pair_name(t) + 'R'
        pair_cases.append((t, nm, st + extra))
        add(nm, [], st + extra)
        add(nm, [], st)
        add(nm, [], st[:n - 1])                               # too short
        an = ['%%f%d' % i for i in range(ctx.rng.randrange(1, n + 1))] + ctx.rng.choice([[], ['@v']])
        add(nm, [], st + extra, annots=an)
        v, _ = ref_build(t, st)
        add('UN' + nm, [], [v] + extra)
        add('UN' + nm, [], [v])
        add('UN' + nm, [], [v] + extra, annots=['@a', '@b'][:ctx.rng.randrange(1, 3)])
        add('UN' + nm, [], ['atom'] + extra)                  # not a pair
        if n >= 4:
            # a value whose shape is the mirror image: some component is missing
            mt = t[1], t[0]
            mv, _ = ref_build(mt, st)
            add('UN' + nm, [], [mv] + extra)
        add('UN' + nm, [], [])
    max_p = 4 if quick else 6
    paths = [''.join(w) for n in range(1, max_p + 1) for w in itertools.product('AD', repeat=n)]
    long_paths = [''.join(ctx.rng.choice('AD') for _ in range(ctx.rng.randrange(max_p + 1, 20))) for _ in range(20 if quick else 200)]
    ctx.extra['cxr_paths'] = len(paths) + len(long_paths)
    for p in paths + long_paths:
        v = full_tree(len(p)) if len(p) <= max_p else spine_value(p)
        if len(p) >= 2:
            add('C' + p + 'R', [], [v] + extra)
            add('C' + p + 'R', [], [v] + extra, annots=['@g', '%h'])
            add('C' + p + 'R', [], [spine_value(p[:-1])] + extra)    # path leaves the value one step early
            add('C' + p + 'R', [], [])
        add('SET_C' + p + 'R', [], [v, 'new'] + extra)
        add('SET_C' + p + 'R', [], [v, ('pair', 'n1', 'n2')] + extra)
        add('SET_C' + p + 'R', [], [v, 'new'] + extra, annots=['%fld', '@var'])
        add('SET_C' + p + 'R', [], [v])                               # nothing to store
        add('SET_C' + p + 'R', [], [spine_value(p[:-1]), 'new'])      # addressed pair missing
        add('MAP_C' + p + 'R', ['tag_s'], [v] + extra)
        add('MAP_C' + p + 'R', ['peek'], [v] + extra)                 # what the code sees below its argument
        add('MAP_C' + p + 'R', ['peek'], [v])
        add('MAP_C' + p + 'R', ['drop'], [v] + extra)                 # code that does not give a value back
        if len(p) <= 3:
            add('MAP_C' + p + 'R', ['dup'], [v] + extra)
            add('MAP_C' + p + 'R', ['dip_drop'], [v] + extra)
            add('MAP_C' + p + 'R', ['swap'], [v] + extra)
        add('MAP_C' + p + 'R', ['tag_s'], [v] + extra, annots=['%fld'])
        add('MAP_C' + p + 'R', ['tag_s'], [spine_value(p[:-1])] + extra)
        add('MAP_C' + p + 'R', ['nop'], [])
        add('MAP_C' + p + 'R', ['nop'], [v] + extra)                  # the identity code: the value comes back unchanged
        add('MAP_C' + p + 'R', ['nop'], [v])

    elines = []
    for nm, an, codes, st, fam, data in sem:
        args = [michelson_to_micheline(CODE[k][0], parser=shared_parser()) for k in codes]
        elines.append('E ' + ' '.join(call_tokens(nm, an, args) + mich.to_tokens([to_mich(v) for v in st])))
    emodel = ctx.model(elines)
    worst = {}
    for idx, (nm, an, codes, st, fam, data) in enumerate(sem):
        real = impl_run(st, macro_text(nm, an, codes))
        want = ref_meaning(fam, data, [CODE[k][1] for k in codes], st)
        ctx.case({'macro': nm, 'annots': an, 'codes': codes, 'stack': [lit(v) for v in st]}, nontrivial=True)
        ctx.count('sem-family', fam)
        ctx.count('sem-outcome', want[0])
        if real != want:
            k = f'meaning:{fam}'
            cand = (len(nm), len(st), nm, an, codes, st, real, want)
            if k not in worst or cand[:3] < worst[k][:3]:
                worst[k] = cand
        if emodel is not None and emodel[idx] != fmt_result(real):
            ctx.mismatch('sem-eval', {'macro': nm, 'annots': an, 'codes': codes, 'stack': [lit(v) for v in st]}, fmt_result(real), emodel[idx])
    for k, (_, _, nm, an, codes, st, real, want) in sorted(worst.items()):
        ctx.violation(k, f'{macro_text(nm, an, codes)} on stack [{", ".join(lit(v) for v in st)}] (top first): real interpreter gives {real}, the reference meaning is {want}',
                      {'macro': nm, 'annots': an, 'codes': [CODE[c][0] for c in codes], 'stack': [lit(v) for v in st], 'real': real, 'expected': want})

    # ---- UNP…R undoes P…R on the real interpreter (one session, two cells)
    from pytezos.michelson.repl import Interpreter
    undo_bad = None
    for t, nm, st in pair_cases:
        it = Interpreter()
        it.execute(' ; '.join(f'PUSH {ty(v)} {lit(v)}' for v in reversed(st)))
        try:
            r1 = it.execute(nm)
            r2 = it.execute('UN' + nm)
            got = None if (r1.error or r2.error) else [from_item(x) for x in it.stack.items]
        except Exception as e:  # noqa
            got = err_class(e)
        ctx.case({'undo': nm}, nontrivial=True)
        ctx.count('sem-family', 'pair;unpair')
        if got != st and (undo_bad is None or len(nm) < len(undo_bad[0])):
            undo_bad = (nm, st, got)
    if undo_bad:
        nm, st, got = undo_bad
        ctx.violation('unpair-does-not-undo-pair', f'{nm} ; UN{nm} on {st} leaves {got}', {'macro': nm, 'stack': st, 'got': got})
