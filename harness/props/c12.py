"""C12 — Python-object conversion of contract data round-trips.

Cases: storage / parameter types to depth 4 (named and unnamed pairs and unions, duplicate names, named inner pairs,
`:type` names, empty names, enums, unions of pairs, options, lists, sets and maps with composite keys, big_map literals
and ids) and random values of each.  About a third of the types with a pair / union node are deliberately given a
FORMER COLLISION SHAPE (`gen_c12.lookalike`): a declared name equal to the name `prim_j` another leaf of the same layout
would be generated — declared before or after that leaf, in pairs and unions, at the root or nested, as %field or :type
name, optionally with a third leaf declaring the first way out `prim_j_` (counted in `former-collision-shape`).

Streams compared with the Lean mirror (`lean/Driver/C12.lean`): `to_python_object(lazy_diff=None)`, the comparable
rendering of key types, `from_python_object` of that object (and of shuffled / malformed objects), the layout (field
names) of every pair / union node, and the Lean `PyInvertible` against the independent Python statement
(`gen_c12.excluded`).

Oracle on the real code: from_python_object(to_python_object(v)) == v; field names of EVERY pair / union node pairwise
different (no exception for generated-looking declared names), equal to the documented naming, unchanged from the old
naming wherever that had no collision, and equal to the keys actually used; ContractData.decode/encode and
ContractEntrypoint.encode/decode are mutual inverses."""
from harness import gen_c12 as G
from translator import extract

PROP = 'C12'


def classify(e):
    root = e
    while root.__cause__ is not None:
        root = root.__cause__
    if isinstance(root, KeyError):
        return 'err:key'
    if isinstance(root, TypeError):
        return 'err:type'
    if isinstance(root, OverflowError):
        return 'err:overflow'
    return 'err:assert'


class Real:
    """the real classes for one type tree"""

    def __init__(self, t):
        from pytezos.michelson.types.base import MichelsonType
        self.t = t
        self.err = None
        try:
            self.cls = MichelsonType.match(G.ty_expr(t))
        except Exception as e:
            self.cls, self.err = None, classify(e)

    def value(self, v):
        """real instance or error string"""
        try:
            return self.cls.from_micheline_value(G.val_expr(self.t, v))
        except Exception as e:
            return classify(e)

    def canon(self, inst):
        return G.val_of_expr(self.t, inst.to_micheline_value(mode='legacy_optimized', lazy_diff=None), inst)

    def to_py(self, inst, comparable=False):
        try:
            return True, inst.to_python_object(lazy_diff=None, comparable=comparable)
        except Exception as e:
            return False, classify(e)

    def of_py(self, py):
        try:
            res = self.canon(self.cls.from_python_object(py))
        except Exception as e:
            res = classify(e)
        # a dict is a dict in whatever order its keys were written: the same object with the keys of every dict interleaved
        # (odd positions first, then the even ones, reversed) must convert alike
        alt = _reorder_dicts(py)
        if alt is not None:
            try:
                res2 = self.canon(self.cls.from_python_object(alt))
            except Exception as e:
                res2 = classify(e)
            if res2 != res:
                Real.order_dependent.append((self.t, py, alt, res, res2))
        return res

    def layout(self):
        """('dict', [(path, name)]) | ('tuple', [path])"""
        p2k, _, idx = self.cls.get_type_layout(infer_names=True) if self.t[0] == 'o' else self.cls.get_type_layout()
        if p2k is None:
            return 'tuple', [idx[i] for i in range(len(idx))]
        return 'dict', list(p2k.items())


def _reorder_dicts(o):
    """the same object with every dict of three or more keys re-keyed in an interleaved order; None when nothing changes"""
    changed = [False]

    def go(x):
        if isinstance(x, dict):
            items = [(k, go(v)) for k, v in x.items()]
            if len(items) >= 3:
                items = items[1::2] + items[0::2][::-1]
                changed[0] = True
            return dict(items)
        if isinstance(x, list):
            return [go(v) for v in x]
        if isinstance(x, tuple):
            return tuple(go(v) for v in x)
        return x
    try:
        r = go(o)
    except Exception:      # noqa: BLE001 — unhashable keys etc.: leave it
        return None
    return r if changed[0] else None


Real.order_dependent = []

_FACTS = {}


def fact(text):
    """`<texthex>:<mask>:<rawhex|->`: what the library's own base58 helpers say about a string (the `valid` / `raw` parameters
    of the model; base58 itself is C09's)"""
    if text not in _FACTS:
        from pytezos.crypto import encoding as E
        mask = ''.join('1' if f(text) else '0' for f in (E.is_address, E.is_pkh, E.is_public_key, E.is_sig, E.is_chain_id))
        try:
            raw = E.base58_decode(text.encode()).hex() or '-'
        except Exception:
            raw = '-'
        _FACTS[text] = f"{text.encode().hex() or '-'}:{mask}:{raw}"
    return _FACTS[text]


def code_facts(code):
    """`c:<codehex>:<texthex>`: the source text of a lambda body (the `codeText` parameter of the model; formatting is C18's)"""
    import json
    from pytezos.michelson.format import micheline_to_michelson
    return f"c:{code.encode().hex()}:{micheline_to_michelson(json.loads(code)).encode().hex() or '-'}"


def parse_facts(text):
    """`p:<texthex>:<codehex>`: what a text parses and normalises to as a lambda body, nothing when that raises (`codeOfText`)"""
    from pytezos.michelson.micheline import Micheline
    from pytezos.michelson.parse import michelson_to_micheline
    try:
        e = michelson_to_micheline(text)
        assert isinstance(e, list)
        return [f"p:{text.encode().hex() or '-'}:{G.code_text(Micheline.match(e).as_micheline_expr()).encode().hex()}"]
    except Exception:
        return []


def with_facts(line, t):
    """the protocol line, followed by what the library says about every string / lambda body it mentions (only for types with
    a base58 leaf, a contract, a ticket or a lambda)"""
    subs = list(G.subterms(t))
    b58 = any((x[0] == 's' and x[2] in G.B58) or x[0] in 'ck' for x in subs)
    lam = any(x[0] == 'f' for x in subs)
    if not b58 and not lam:
        return line
    texts, codes = [], []
    for tok in line.split(' '):
        if len(tok) > 2 and tok[0] in 'sfK' and all(c_ in '0123456789abcdef' for c_ in tok[1:]) and len(tok) % 2 == 1:
            try:
                (codes if tok[0] == 'f' else texts).append(bytes.fromhex(tok[1:]).decode())
            except ValueError:
                pass
    out = []
    if b58:
        seen = []
        for x in texts + [ORIGINATED0]:
            for y in (x, x.partition('%')[0]):
                if y not in seen and len(y) < 200 and ' ' not in y and '|' not in y:
                    seen.append(y)
        out += [fact(x) for x in seen]
    if lam:
        out += [code_facts(x) for x in dict.fromkeys(codes)]
        if line.startswith('ofpy '):
            for x in dict.fromkeys(texts):
                out += parse_facts(x)
    return line + ' | ' + ' '.join(out)


ORIGINATED0 = 'KT1BEqzn5Wx8uJrZNvuS9DVHmLvG9td3fDLi'     # get_originated_address(0), compared with the real function in run()


def show(x, toks):
    return x if isinstance(x, str) else ' '.join(toks(x))


def roundtrip(t, v, real=None):
    """None if the value converts to its Python object and back to an equal value on the real code, else (stage, detail)"""
    real = real or Real(t)
    if real.err:
        return None
    inst = real.value(v)
    if isinstance(inst, str):
        return None                   # not a value of the type as far as the implementation is concerned
    ok, py = real.to_py(inst)
    if not ok:
        return 'to_python_object-raises', f'to_python_object raised {py}'
    back = real.of_py(py)
    if isinstance(back, str):
        return 'from_python_object-raises', f'to_python_object = {py!r}; from_python_object of that raised {back}'
    if back != real.canon(inst):
        return 'roundtrip-differs', f'to_python_object = {py!r}; converting back gives {G.val_str(back)}'
    return None


# ---------------------------------------------------------------------------------------------- shrinking
def tcands(t):
    """smaller types (for the parts of a type the value does not reach)"""
    if t[1] != G.NOANN:
        yield G.with_ann(t, G.NOANN)
        if t[1][0] is not None and t[1][1] is not None:
            yield G.with_ann(t, (t[1][0], None))
    if t[0] == 's':
        if t[2] != 'unit':
            yield ('s', t[1], 'unit')
        return
    yield ('s', t[1], 'unit')
    ch = list(t[2:])
    for i, a in enumerate(ch):
        if t[0] in 'po':
            yield G.with_ann(a, t[1])
        for a2 in tcands(a):
            if t[0] in 'po' or a2[1][0] is None:
                yield (t[0], t[1]) + tuple(ch[:i] + [a2] + ch[i + 1:])


def shrink_type(t, fails):
    """a locally minimal pair / union type on which `fails` still holds"""
    changed, steps = True, 0
    while changed and steps < 400:
        changed = False
        for t2 in tcands(t):
            steps += 1
            try:
                if t2[0] in 'po' and fails(t2):
                    t, changed = t2, True
                    break
            except Exception:
                pass
    return t


def real_names(t):
    """field names the real code gives a pair / union node (None: tuple layout / type rejected)"""
    r = Real(t)
    if r.err:
        return None
    mode, lay = r.layout()
    return [k for _, k in lay] if mode == 'dict' else None


def shrink(t, v, fails):
    def cands(t, v):
        k = t[0]
        if t[1] != G.NOANN:
            yield G.with_ann(t, G.NOANN), v
            if t[1][0] is not None and t[1][1] is not None:
                yield G.with_ann(t, (t[1][0], None)), v
        if k == 's':
            if t[2] != 'unit':
                yield ('s', t[1], 'unit'), ('U',)
            return
        yield ('s', t[1], 'unit'), ('U',)
        if k == 'p':
            yield G.with_ann(t[2], t[1]), v[1]
            yield G.with_ann(t[3], t[1]), v[2]
            for a, x in cands(t[2], v[1]):
                yield (k, t[1], a, t[3]), ('P', x, v[2])
            for a, x in cands(t[3], v[2]):
                yield (k, t[1], t[2], a), ('P', v[1], x)
        elif k == 'o':
            side = 2 if v[0] == 'L' else 3
            yield G.with_ann(t[side], t[1]), v[1]
            other = 5 - side
            if t[other] != ('s', G.NOANN, 'unit'):
                tt = list(t)
                tt[other] = ('s', t[other][1], 'unit')
                yield tuple(tt), v
            for a, x in cands(t[side], v[1]):
                tt = list(t)
                tt[side] = a
                yield tuple(tt), (v[0], x)
            for a in tcands(t[other]):
                tt = list(t)
                tt[other] = a
                yield tuple(tt), v
        elif k == 'O':
            if v[0] == 'J':
                yield G.with_ann(t[2], t[1]), v[1]
                for a, x in cands(t[2], v[1]):
                    yield (k, t[1], a), ('J', x)
            elif t[2] != ('s', G.NOANN, 'unit'):
                yield (k, t[1], ('s', G.NOANN, 'unit')), v
        elif k == 'k':
            yield G.with_ann(t[2], t[1]), v[2]                      # the contents alone
            for a, x in cands(t[2], v[2]):
                if a[1][0] is None:
                    yield (k, t[1], a), ('K', v[1], x, v[3])
        elif k in 'lS':
            xs = v[1]
            for i in range(len(xs)):
                yield t, (v[0], xs[:i] + xs[i + 1:])
            if len(xs) == 1:
                yield G.with_ann(t[2], t[1]), xs[0]
                for a, x in cands(t[2], xs[0]):
                    if a[1][0] is None:
                        yield (k, t[1], a), (v[0], [x])
            if not xs and t[2] != ('s', G.NOANN, 'unit'):
                yield (k, t[1], ('s', G.NOANN, 'unit')), v
        elif k in 'mb' and v[0] != 'B':
            xs = v[1]
            for i in range(len(xs)):
                yield t, (v[0], xs[:i] + xs[i + 1:])
            if len(xs) == 1:
                yield G.with_ann(t[2], t[1]), xs[0][0]
                yield G.with_ann(t[3], t[1]), xs[0][1]
                for a, x in cands(t[2], xs[0][0]):
                    if a[1][0] is None:
                        yield (k, t[1], a, t[3]), (v[0], [(x, xs[0][1])])
                for a, x in cands(t[3], xs[0][1]):
                    if a[1][0] is None:
                        yield (k, t[1], t[2], a), (v[0], [(xs[0][0], x)])
            if k == 'b':
                yield ('m', t[1], t[2], t[3]), ('m', xs)

    changed, steps = True, 0
    while changed and steps < 400:
        changed = False
        for t2, v2 in cands(t, v):
            steps += 1
            if (t2, v2) == (t, v):
                continue
            try:
                if fails(t2, v2):
                    t, v, changed = t2, v2, True
                    break
            except Exception:
                pass
    return t, v


# ---------------------------------------------------------------------------------------------- the check
CORPUS = [
    # DESIGN §5 C12
    (('O', G.NOANN, ('O', G.NOANN, ('s', G.NOANN, 'nat'))), ('J', ('N',))),
    (('O', G.NOANN, ('O', G.NOANN, ('s', G.NOANN, 'nat'))), ('J', ('J', ('I', 3)))),
    (('p', G.NOANN, ('s', ('nat_1', None), 'nat'), ('s', G.NOANN, 'nat')), ('P', ('I', 1), ('I', 2))),
    (('p', G.NOANN, ('s', G.NOANN, 'nat'), ('s', ('nat_0', None), 'nat')), ('P', ('I', 1), ('I', 2))),
    (('o', G.NOANN, ('s', ('string_1', None), 'nat'), ('s', G.NOANN, 'string')), ('L', ('I', 1))),
    (('b', G.NOANN, ('s', G.NOANN, 'nat'), ('s', G.NOANN, 'string')), ('b', [(('I', 1), ('s', 'a')), (('I', 2), ('s', 'b'))])),
    (('b', G.NOANN, ('s', G.NOANN, 'nat'), ('s', G.NOANN, 'string')), ('B', 42)),
    (('p', G.NOANN, ('b', ('ledger', None), ('s', G.NOANN, 'string'), ('s', G.NOANN, 'nat')), ('s', ('n', None), 'nat')), ('P', ('b', []), ('I', 0))),
    (('S', G.NOANN, ('s', G.NOANN, 'unit')), ('S', [('U',)])),
    (('m', G.NOANN, ('O', G.NOANN, ('s', G.NOANN, 'unit')), ('s', G.NOANN, 'nat')), ('m', [(('N',), ('I', 1)), (('J', ('U',)), ('I', 2))])),
    (('S', G.NOANN, ('p', G.NOANN, ('s', G.NOANN, 'nat'), ('s', G.NOANN, 'nat'))), ('S', [('P', ('I', 1), ('I', 5)), ('P', ('I', 2), ('I', 3))])),
    (('S', G.NOANN, ('p', G.NOANN, ('s', G.NOANN, 'int'), ('s', G.NOANN, 'int'))),
     ('S', [('P', ('I', a), ('I', b)) for a, b in [(-3, 9), (0, 7), (1, 5), (2, 3), (2, 4), (5, 0), (8, -1), (100, 1)]])),
    (('p', G.NOANN, ('p', ('x', None), ('s', G.NOANN, 'nat'), ('s', G.NOANN, 'nat')), ('s', ('y', None), 'nat')), ('P', ('P', ('I', 1), ('I', 2)), ('I', 3))),
    (('p', G.NOANN, ('p', G.NOANN, ('s', ('a', None), 'nat'), ('s', ('b', None), 'nat')), ('s', ('a', None), 'nat')), ('P', ('P', ('I', 1), ('I', 2)), ('I', 3))),
    (('o', G.NOANN, ('s', ('a', None), 'unit'), ('o', G.NOANN, ('s', ('b', None), 'unit'), ('s', G.NOANN, 'unit'))), ('R', ('R', ('U',)))),
    (('o', G.NOANN, ('p', ('mint', None), ('s', ('to', None), 'string'), ('s', ('amount', None), 'nat')), ('s', ('burn', None), 'nat')),
     ('L', ('P', ('s', 'tz1'), ('I', 5)))),
    (('m', G.NOANN, ('p', G.NOANN, ('s', ('owner', None), 'string'), ('o', G.NOANN, ('s', G.NOANN, 'nat'), ('s', G.NOANN, 'string'))), ('l', G.NOANN, ('s', G.NOANN, 'nat'))),
     ('m', [(('P', ('s', 'a'), ('L', ('I', 1))), ('l', [('I', 1)])), (('P', ('s', 'a'), ('R', ('s', 'z'))), ('l', []))])),
    (('O', G.NOANN, ('s', G.NOANN, 'unit')), ('J', ('U',))),
    # the nested-option class inside a ticket (shrinks to the known `option (option unit)` input)
    (('k', G.NOANN, ('O', G.NOANN, ('O', G.NOANN, ('s', G.NOANN, 'nat')))), ('K', 'tz1KjV2FmM27uiyejy9vBeYS3VaVN682Uso5', ('J', ('N',)), 1)),
    (('k', G.NOANN, ('p', G.NOANN, ('s', G.NOANN, 'nat'), ('s', G.NOANN, 'nat'))), ('K', 'KT1BEqzn5Wx8uJrZNvuS9DVHmLvG9td3fDLi', ('P', ('I', 1), ('I', 2)), 10)),
    (('p', G.NOANN, ('s', ('', None), 'nat'), ('s', (None, 't'), 'nat')), ('P', ('I', 1), ('I', 2))),
    # former collision shapes (fixes/C12-1): declared before / after, pair / or, :type name, the first way out taken as well, nested
    (('o', G.NOANN, ('s', ('string_1', None), 'nat'), ('s', G.NOANN, 'string')), ('R', ('s', 'a'))),
    (('o', G.NOANN, ('s', G.NOANN, 'nat'), ('s', ('nat_0', None), 'string')), ('L', ('I', 1))),
    (('o', G.NOANN, ('s', G.NOANN, 'nat'), ('s', ('nat_0', None), 'string')), ('R', ('s', 'a'))),
    (('p', G.NOANN, ('s', (None, 'nat_1'), 'nat'), ('s', G.NOANN, 'nat')), ('P', ('I', 1), ('I', 2))),
    (('p', G.NOANN, ('s', ('nat_1', None), 'nat'), ('p', G.NOANN, ('s', G.NOANN, 'nat'), ('s', ('nat_1_', None), 'nat'))), ('P', ('I', 1), ('P', ('I', 2), ('I', 3)))),
    (('p', G.NOANN, ('s', ('nat_2', None), 'nat'), ('p', G.NOANN, ('s', ('nat_2', None), 'nat'), ('s', G.NOANN, 'nat'))), ('P', ('I', 1), ('P', ('I', 2), ('I', 3)))),
    (('p', G.NOANN, ('s', G.NOANN, 'unit'), ('p', G.NOANN, ('s', G.NOANN, 'bool'), ('s', ('unit_0', 'bool_1'), 'int'))), ('P', ('U',), ('P', ('T',), ('I', -1)))),
    (('o', G.NOANN, ('s', ('unit_1', None), 'unit'), ('o', G.NOANN, ('s', G.NOANN, 'unit'), ('s', ('unit_1_', None), 'unit'))), ('R', ('L', ('U',)))),
    (('o', G.NOANN, ('s', ('a', None), 'nat'), ('p', ('b', None), ('s', G.NOANN, 'string'), ('s', ('string_0', None), 'bytes'))), ('R', ('P', ('s', 'x'), ('x', b'\x01')))),
    (('p', G.NOANN, ('s', ('k', None), 'nat'), ('o', G.NOANN, ('s', ('pair_1', None), 'unit'), ('p', G.NOANN, ('s', G.NOANN, 'nat'), ('s', G.NOANN, 'nat')))), ('P', ('I', 1), ('R', ('P', ('I', 2), ('I', 3))))),
    (('l', G.NOANN, ('p', G.NOANN, ('s', G.NOANN, 'nat'), ('s', ('nat_0', None), 'nat'))), ('l', [('P', ('I', 1), ('I', 2)), ('P', ('I', 3), ('I', 4))])),
    (('m', G.NOANN, ('o', G.NOANN, ('s', ('int_1', None), 'nat'), ('s', G.NOANN, 'int')), ('p', G.NOANN, ('s', ('string_1', None), 'nat'), ('s', G.NOANN, 'string'))),
     ('m', [(('L', ('I', 1)), ('P', ('I', 1), ('s', 'a'))), (('R', ('I', -1)), ('P', ('I', 2), ('s', 'b')))])),
    (('p', G.NOANN, ('O', ('option_1', None), ('s', G.NOANN, 'nat')), ('O', G.NOANN, ('s', G.NOANN, 'nat'))), ('P', ('N',), ('J', ('I', 1)))),
]


def gen_cases(ctx):
    rng = ctx.rng
    cases = [('corpus', t, v) for t, v in CORPUS]
    n = 3900 if ctx.tier == "quick" else 150000
    while len(cases) < n:
        d = rng.choice([1, 2, 2, 3, 3, 4])
        t = G.rand_type(rng, d, p_field=rng.choice([0.2, 0.5, 0.9]), p_type=rng.choice([0.0, 0.15, 0.4]))
        origin = 'random'
        if rng.random() < 0.35 and any(True for _ in G.layout_nodes(t)):
            t2 = G.lookalike(rng, t)
            if t2 != t:
                t, origin = t2, 'random-lookalike'
        if rng.random() < 0.15:
            t = G.with_ann(t, G.rand_ann(rng, 0.5, 0.3))
        if not G.inhabited(t):
            continue
        for _ in range(rng.choice([1, 1, 2])):
            cases.append((origin, t, G.rand_value(rng, t)))
    return cases


def run(ctx):
    st = extract.generate(PROP)
    ctx.prepare_lean(st)
    ctx.extra['rule'] = ('random types to depth 4 over unit/bool/nat/int/mutez/timestamp/string/bytes, address/key_hash/key/signature/chain_id '
                         '(valid base58 texts of every prefix: tz1-tz4, KT1, sr1 with and without %entrypoint, edpk/sppk/p2pk/BLpk, edsig/spsig/p2sig/sig/BLsig, Net; '
                         'all-zero / all-0xff / mixed payloads), contract p, ticket t (t comparable), lambda, bls12_381_fr/g1/g2, never (only where the type stays inhabited), pair, or (incl. enums), option, list, set, '
                         'map, big_map with %field / :type names from a pool that contains duplicates, empty names and generated-looking names '
                         '(`nat_1`, `pair_0`, ...); about a third of the types with a pair / union node get a deliberate former collision shape '
                         '(a declared name equal to the `prim_j` another leaf of the same layout would be generated: declared before or after it, '
                         'pair or union, root or nested node, %field or :type, sometimes `prim_j_` declared as well); random values (sets / maps '
                         'sorted in the library\'s own order of the key type, big_map literal or id); non-trivial = type has a pair, union or collection.  '
                         'Leaf-form stream: every accepted and many refused input forms of each leaf (int / RFC 3339 text with offsets and fractions / '
                         'decimal text for timestamp; int / Decimal / text incl. exponents, NaN, Infinity, >28 digits for mutez; bytes / hex text with '
                         '0x, upper case, white space for bytes and bls12_381; int / little-endian bytes / hex for bls12_381_fr; base58 text, %default, '
                         'broken checksum, wrong kind, bytes for the base58 leaves; None for contract), bare and inside option / list / pair / named pair / '
                         'union / map / big_map / set, as value and as key')
    ctx.assumptions += [
        'values are those the implementation itself builds from Micheline (from_micheline_value); their Micheline coding is C11',
        'to_python_object is called with lazy_diff=None (what ContractData.decode does): with the default lazy_diff=False a big_map literal '
        'raises "Big_map id is not defined" (API nuance, not counted)',
        'Python set iteration order is modelled as list order; sound when __lt__ is a strict total order on the element type (C03)',
        'unmodelled Python input shapes (bool where int is expected; bytes objects for key_hash / key / signature / chain_id, which the code '
        'stores as they are; number text with `_` or non-ASCII digits / white space; Decimal exponents of more than 5 digits; Decimal as a dict '
        'key) are not sent, except `1_0` for mutez (answered `unmodelled`, counted)',
        'base58 validity (`is_address`, `is_pkh`, `is_public_key`, `is_sig`, `is_chain_id`) and `base58_decode` are parameters of the model: each '
        'protocol line carries what the library says about the strings it mentions (C09 owns base58)',
        'decimal arithmetic runs in Python\'s default context (prec=28, ROUND_HALF_EVEN), which the mirror follows',
        'only public keys are sent for `key` (`is_public_key` also passes secret-key texts, on which KeyType.__lt__ raises KeyError)',
        'lambda bodies are opaque to the model: their source text and what a text parses to are parameters (each protocol line carries the '
        'library\'s own answers; formatting / parsing is C18), the round-trip theorems assume the law CodeLaw',
        'try_unpack=True: the base58 texts `blind_unpack` produces and the object of readable PACKed content are parameters of the model (each '
        'protocol line carries the library\'s own answers); the decision which reading applies is mirrored',
        'ContractEntrypoint.encode/decode is checked on the real code only (composition with C13); the Lean theorem covers ContractData',
    ]
    from pytezos.michelson.types.core import unit as unit_cls
    try:
        hash(unit_cls())
        unit_hashable = True
    except TypeError:
        unit_hashable = False
    probe = Real(('p', G.NOANN, ('s', G.NOANN, 'nat'), ('s', G.NOANN, 'nat')))
    a, b = probe.value(('P', ('I', 1), ('I', 5))), probe.value(('P', ('I', 2), ('I', 3)))
    pair_lt_lex = bool(a < b) and not bool(b < a)
    ctx.extra['tree_flags'] = {'unit_hashable': unit_hashable, 'pair_lt_lexicographic': pair_lt_lex}

    from pytezos.context.abstract import get_originated_address
    if get_originated_address(0) != ORIGINATED0:
        ctx.mismatch('originated-address', 'get_originated_address(0)', get_originated_address(0), ORIGINATED0)
    leaf_stream(ctx)
    unpack_stream(ctx)
    cases = gen_cases(ctx)
    lines, plan = [], []
    node_seen = {}
    for origin, t, v in cases:
        real = Real(t)
        if real.err:
            ctx.count('skipped', 'type-rejected:' + real.err)
            continue
        inst = real.value(v)
        if isinstance(inst, str):
            ctx.count('skipped', 'value-rejected:' + inst)
            continue
        toks = ' '.join(G.ty_toks(t))
        en = {'origin': origin, 't': t, 'v': v, 'real': real, 'inst': inst, 'i0': len(lines)}
        lines.append(with_facts('topy ' + toks + ' ' + ' '.join(G.val_toks(v)), t))
        ok, py = real.to_py(inst)
        en['py'] = (ok, py)
        if ok:
            en['ofpy_line'] = len(lines)
            lines.append(with_facts('ofpy ' + toks + ' ' + ' '.join(G.py_toks(py)), t))
        en['inv_line'] = len(lines)
        lines.append('inv ' + toks)
        # layouts of every pair / union node of the type (once per distinct node)
        en['nodes'] = []
        for n_ in G.subterms(t):
            if n_[0] in 'po' and n_ not in node_seen:
                node_seen[n_] = len(lines)
                lines.append('layout ' + ' '.join(G.ty_toks(n_)))
                en['nodes'].append(n_)
        # comparable rendering of key types
        en['keys'] = []
        for n_ in G.subterms(t):
            if n_[0] in 'Smb' and len(en['keys']) < 2:
                kt = n_[2]
                kv = G.rand_value(ctx.rng, kt)
                kreal = Real(kt)
                kinst = kreal.value(kv) if not kreal.err else 'err'
                if not isinstance(kinst, str):
                    en['keys'].append((kt, kv, kreal, kinst, len(lines)))
                    lines.append(with_facts('topyc ' + ' '.join(G.ty_toks(kt)) + ' ' + ' '.join(G.val_toks(kv)), kt))
        # a malformed / non-canonical object
        if ok and ctx.rng.random() < 0.3:
            bad = mutate_py(ctx.rng, py)
            if bad is not None:
                en['bad'] = (bad, len(lines))
                lines.append(with_facts('ofpy ' + toks + ' ' + ' '.join(G.py_toks(bad)), t))
        plan.append(en)
    model = ctx.model(lines)
    if model and model[0] == 'unrecognised-source':
        model = None     # the translator did not recognise the source (obligation already broken): oracle only

    def cmp(stream, desc, impl, idx):
        if model is not None and model[idx] != impl:
            ctx.mismatch(stream, desc, impl, model[idx])

    shrunk = {}
    for en in plan:
        t, v, real, inst = en['t'], en['v'], en['real'], en['inst']
        tdesc, vdesc = G.ty_str(t), G.val_str(v)
        desc = {'type': tdesc, 'value': vdesc}
        ctx.case(desc, nontrivial=any(x[0] != 's' for x in G.subterms(t)))
        ctx.count('origin', en['origin'])
        ctx.count('depth', G.depth(t))
        ctx.count('root', G.prim(t) if t[0] != 's' else 'scalar')
        ok, py = en['py']
        excl_now = G.excluded(t, False, unit_hashable, pair_lt_lex)              # the classes excluded on this tree
        impl_py = ' '.join(G.py_toks(py)) if ok else py
        cmp('to-python-object', desc, impl_py, en['i0'])
        cmp('pyinvertible-vs-python-spec', tdesc, 'false' if excl_now else 'true', en['inv_line'])
        ctx.count('invertible', 'yes' if not excl_now else ','.join(sorted({c for c, _ in excl_now})))
        if ok:
            back = real.of_py(py)
            got = show(back, G.val_toks)
            # which of KeyError / AssertionError a non-invertible object trips first is not compared: wrap_pair reports
            # a missing field before any leaf is converted, the mirror converts while it descends
            if not (model is not None and got in ('err:key', 'err:assert') and model[en['ofpy_line']] in ('err:key', 'err:assert')):
                cmp('from-python-object', desc, got, en['ofpy_line'])
        # ---- field names: unique, as documented, and the ones actually used
        for n_ in en['nodes']:
            nreal = Real(n_)
            mode, lay = nreal.layout()
            impl_line = mode + ' ' + ' '.join((p or '.') + ('=' + (k.encode().hex() or '-') if mode == 'dict' else '') for p, k in (lay if mode == 'dict' else [(p, '') for p in lay]))
            cmp('layout', G.ty_str(n_), impl_line.strip(), node_seen[n_])
            names = [k for _, k in lay] if mode == 'dict' else None
            for fc in sorted(set(G.former_collisions(n_))):
                ctx.count('former-collision-shape', f'{fc[0]}:{fc[1]}:' + ('root' if n_ == t else 'nested'))
            if names is not None and len(set(names)) != len(names):
                # the property itself: no two fields of a node share a name, whatever the declared names look like
                m_ = shrink_type(n_, lambda x: (lambda ns: ns is not None and len(set(ns)) != len(ns))(real_names(x)))
                mn = real_names(m_)
                ctx.violation(f'field-names-not-unique[{G.ty_str(m_)}]', f'{G.ty_str(m_)}: field names {mn} are not unique (expected pairwise different names, '
                              f'e.g. {G.node_names(m_)})', {'type': G.ty_expr(m_), 'names': mn, 'found_on': G.ty_str(n_)})
                continue
            want = G.node_names(n_)
            if names != want:
                ctx.violation(f'field-names-not-as-documented:{G.ty_str(n_)}', f'{G.ty_str(n_)}: field names {names}, documented naming gives {want}', {'type': G.ty_expr(n_)})
                continue
            old, _, _ = G.first_pass_names(G.node_leaves(n_))
            if names is not None and len(set(old)) == len(old) and names != old:
                ctx.violation(f'field-names-changed-without-collision:{G.ty_str(n_)}', f'{G.ty_str(n_)}: field names {names}, but the names {old} '
                              'had no collision and must stay', {'type': G.ty_expr(n_)})
        # ---- the round trip
        f = roundtrip(t, v, real)
        ctx.count('roundtrip', 'ok' if f is None else f[0])
        if f is not None:
            classes = sorted({c for c, _ in excl_now})
            sig = (f[0], tuple(classes))
            if sig in shrunk and shrunk[sig][2] >= 3:
                k, what, _ = shrunk[sig]
                ctx.violation(k, what, {'type': G.ty_expr(t), 'value': G.val_expr(t, v), 'note': 'not shrunk (same class as an earlier one)'})
            else:
                cls0 = set(classes)

                def still(a, b):
                    r = roundtrip(a, b)
                    if r is None:
                        return False
                    if not cls0:
                        return r[0] == f[0]          # an unexplained failure: keep the stage while shrinking
                    ca = {c for c, _ in G.excluded(a, False, unit_hashable, pair_lt_lex)}
                    return bool(ca) and ca <= cls0   # stay inside the classes that can explain it (down to a single one)
                t2, v2 = shrink(t, v, still)
                f2 = roundtrip(t2, v2)
                ex2 = sorted({c for c, _ in G.excluded(t2, False, unit_hashable, pair_lt_lex)})
                if not ex2:
                    key = f'{f[0]}[{G.ty_str(t2)} | {G.val_str(v2)}]'
                elif ex2 == ['option-of-option']:
                    key = f'option-of-option[{G.ty_str(t2)} | {G.val_str(v2)}]'
                else:
                    key = f'{"+".join(ex2)}[{G.ty_str(t2)} | {G.val_str(v2)}]'
                what = f'{G.ty_str(t2)}, value {G.val_str(v2)}: {f2[1]} (expected the value back)'
                prev = shrunk.get(sig)
                shrunk[sig] = (key, what, (prev[2] if prev else 0) + 1)
                ctx.violation(key, what, {'type': G.ty_expr(t2), 'value': G.val_expr(t2, v2), 'stage': f[0], 'found_on': {'type': tdesc, 'value': vdesc}})
        elif ok and isinstance(py, dict) and t[0] == 'p':
            want = G.node_names(t)
            if want is not None and list(py.keys()) != want:
                ctx.violation(f'keys-differ-from-layout:{tdesc}', f'{tdesc}: to_python_object keys {list(py.keys())}, layout {want}', {'type': G.ty_expr(t), 'value': G.val_expr(t, v)})
        # ---- key rendering
        for kt, kv, kreal, kinst, idx in en['keys']:
            kok, kpy = kreal.to_py(kinst, comparable=True)
            cmp('to-python-object-comparable', {'type': G.ty_str(kt), 'value': G.val_str(kv)}, ' '.join(G.py_toks(kpy)) if kok else kpy, idx)
        if 'bad' in en:
            bad, idx = en['bad']
            # rejected-or-not and the value are compared; which exception class a malformed object trips first is not
            # (wrap_pair checks for missing fields before any leaf is converted, the mirror converts while descending)
            got = show(real.of_py(bad), G.val_toks)
            ctx.count('malformed_object', 'rejected' if got.startswith('err:') else 'accepted')
            if model is not None and model[idx] != 'unmodelled' and not (got.startswith('err:') and model[idx].startswith('err:')) and got != model[idx]:
                ctx.mismatch('from-python-object-malformed', {'type': tdesc, 'object': repr(bad)[:200]}, got, model[idx])
        # ---- contract-level helpers
        if f is None and ok and ctx.evaluations % 3 == 0:
            contract_data(ctx, t, v, real, inst, py)
    entrypoint_stream(ctx)
    # dict key order (collected by Real.of_py): the smallest offending object
    ctx.extra['dict_reorderings_checked'] = True
    if Real.order_dependent:
        t, py, alt, res, res2 = min(Real.order_dependent, key=lambda x: len(repr(x[1])))
        ctx.violation(f'from_python_object-depends-on-dict-order[{G.ty_str(t)}]'[:200],
                      f'{G.ty_str(t)}: from_python_object({py!r}) = {res if isinstance(res, str) else G.val_str(res)}, but with the same keys written in the order {alt!r}: '
                      f'{res2 if isinstance(res2, str) else G.val_str(res2)}', {'type': G.ty_expr(t), 'object': repr(py), 'reordered': repr(alt)})
        Real.order_dependent.clear()


STRING_SPOILERS = ['\t', '\x01', '\x7f', '\x00', '\r', '\x1f', 'é', '\n']      # the last one leaves a valid Michelson string


def spoil_string(rng, py):
    """the object with one string leaf (not a dict key) given a control / non-ASCII character or a newline; None if it has none"""
    if isinstance(py, str):
        c = rng.choice(STRING_SPOILERS)
        i = rng.randrange(len(py) + 1)
        return py[:i] + c + py[i:]
    if isinstance(py, (tuple, list)):
        for i in rng.sample(range(len(py)), len(py)):
            r = spoil_string(rng, py[i])
            if r is not None:
                return type(py)(list(py[:i]) + [r] + list(py[i + 1:]))
    if isinstance(py, dict):
        keys = list(py)
        for k in rng.sample(keys, len(keys)):
            r = spoil_string(rng, py[k])
            if r is not None:
                return {kk: (r if kk == k else vv) for kk, vv in py.items()}
    return None


def mutate_py(rng, py):
    """a non-canonical or malformed variant of a Python object (shuffled dict, list for tuple, dropped / extra field, a string
    with a character `StringType.from_value` refuses — or a newline, which it takes)"""
    if rng.random() < 0.4:
        r = spoil_string(rng, py)
        if r is not None:
            return r
    if isinstance(py, dict) and py:
        items = list(py.items())
        k = rng.randrange(4)
        if k == 0:
            rng.shuffle(items)
            return dict(items)
        if k == 1:
            return dict(items[:-1])
        if k == 2 and all(isinstance(kk, str) for kk, _ in items):
            return dict(items + [('no_such_field', 1)])
        return None
    if isinstance(py, tuple) and py:
        k = rng.randrange(3)
        if k == 0:
            return list(py)
        if k == 1:
            return py[:-1]
        return py + (1,)
    if isinstance(py, list) and len(py) > 1:
        x = list(py)
        rng.shuffle(x)
        return x
    if isinstance(py, int) and not isinstance(py, bool):
        return [py]
    return None


def has_signature(t):
    return any(x[0] == 's' and x[2] == 'signature' for x in G.subterms(t))


def contract_data(ctx, t, v, real, inst, py):
    """ContractData.decode / encode are mutual inverses (on values whose Micheline coding itself round-trips: timestamps kept in range)"""
    from pytezos.context.impl import ExecutionContext
    from pytezos.contract.data import ContractData
    try:
        cd = ContractData(ExecutionContext(), inst)
    except Exception:
        ctx.count('contract_data', 'not-constructible')
        return
    # the optimized Micheline form of a signature does not carry its base58 prefix (C11: the text comes back as `sig…`, same
    # bytes), so types with a signature leaf go through the readable form, which keeps the text
    mode = 'readable' if has_signature(t) else 'legacy_optimized'
    m = inst.to_micheline_value(mode=mode, lazy_diff=None)
    tdesc = G.ty_str(t)
    try:
        obj = cd.decode(m)
        m2 = cd.encode(obj, mode=mode)
        obj2 = cd.decode(m2)
    except Exception as e:
        ctx.violation(f'contract-data-raises[{tdesc} | {G.val_str(v)}]', f'ContractData.decode/encode raised {classify(e)} on a value that converts back', {'type': G.ty_expr(t), 'value': m})
        return
    ctx.count('contract_data', 'checked')
    same = (m2 == m) if G.has_instance_leaf(t) else (G.val_of_expr(t, m2) == G.val_of_expr(t, m))
    if not same or G.py_toks(obj2) != G.py_toks(obj) or G.py_toks(obj) != G.py_toks(py):
        ctx.violation(f'contract-data-not-inverse[{tdesc} | {G.val_str(v)}]', f'{tdesc}: encode(decode(m)) = {m2}, m = {m}', {'type': G.ty_expr(t), 'value': m})


def entrypoint_stream(ctx):
    """ContractEntrypoint.encode / decode on parameter types whose entrypoints are annotated leaves: decode(encode_e(obj)) = {e: obj}
    and encoding that again gives the same parameters"""
    from pytezos.context.impl import ExecutionContext
    from pytezos.contract.entrypoint import ContractEntrypoint
    rng = ctx.rng
    n = 150 if ctx.tier == 'quick' else 4000
    done = 0
    for _ in range(n * 3):
        if done >= n:
            break
        k = rng.choice([1, 2, 3, 4])
        names = rng.sample(['mint', 'burn', 'transfer', 'default', 'set_admin', 'pause', 'x'], k)
        leaves = []
        for nm in names:
            lt = G.rand_type(rng, rng.choice([0, 1, 2]), storage=False)
            if G.excluded(lt) or lt[0] == 'o' or not G.inhabited(lt):    # union-typed entrypoints (inner nodes) are C13's subject
                continue
            leaves.append(G.with_ann(lt, (nm, None)))
        if not leaves:
            continue

        def tree(xs):
            if len(xs) == 1:
                return xs[0]
            i = rng.randrange(1, len(xs))
            return ('o', G.NOANN, tree(xs[:i]), tree(xs[i:]))
        pt = tree(leaves)
        ectx = ExecutionContext()
        ectx.parameter_expr = {'prim': 'parameter', 'args': [G.ty_expr(pt)]}
        for lt in leaves:
            e = lt[1][0]
            if len(leaves) == 1:
                continue   # a non-union parameter has only its root entrypoint (covered by C13)
            real = Real(G.with_ann(lt, G.NOANN))
            if real.err:
                continue
            v = G.rand_value(rng, lt)
            inst = real.value(v)
            if isinstance(inst, str):
                continue
            ok, obj = real.to_py(inst)
            if not ok:
                continue
            done += 1
            desc = {'parameter': G.ty_str(pt), 'entrypoint': e, 'arg': G.val_str(v)}
            ctx.case(desc, nontrivial=True)
            ctx.count('entrypoint-stream', 'case')
            try:
                ep = ContractEntrypoint(ectx, e)
                mode = 'readable' if has_signature(pt) else 'legacy_optimized'     # see contract_data
                params = ep.encode(obj, mode=mode)
                dec = ep.decode(params['value'], entrypoint=params['entrypoint'])
                again = ContractEntrypoint(ectx, e).encode(dec[e], mode=mode) if isinstance(dec, dict) and e in dec else None
            except Exception as ex:
                ctx.violation(f'contract-entrypoint-raises[{G.ty_str(pt)} | {e} | {G.val_str(v)}]', f'ContractEntrypoint.encode/decode raised {type(ex).__name__}: {str(ex)[:200]}', desc)
                continue
            if G.is_enum(pt):
                good = params['entrypoint'] == e and dec == e      # an enum parameter reads back as the entrypoint name
            else:
                good = params['entrypoint'] == e and isinstance(dec, dict) and list(dec.keys()) == [e] and G.py_toks(dec[e]) == G.py_toks(obj) and again == params
            if not good:
                ctx.violation(f'contract-entrypoint-not-inverse[{G.ty_str(pt)} | {e} | {G.val_str(v)}]',
                              f'encode -> {params}; decode -> {dec!r}; expected {{{e!r}: {obj!r}}}', desc)


# ---------------------------------------------------------------------------------------------- input forms of the leaves
def _rfc(t):
    """RFC 3339 text of a unix time, written without pytezos"""
    import datetime
    d = datetime.datetime(1970, 1, 1) + datetime.timedelta(seconds=t)
    return '%04d-%02d-%02dT%02d:%02d:%02dZ' % (d.year, d.month, d.day, d.hour, d.minute, d.second)


def _mangle(text):
    """the same base58 text with one character changed (checksum broken)"""
    i = len(text) // 2
    return text[:i] + ('2' if text[i] != '2' else '3') + text[i + 1:]


def leaf_forms(rng):
    """[(scalar / contract type, Python object, expected)]: expected = the value tree the object stands for, 'reject', or None
    (accepted or not is left to the comparison with the model: context rounding of Decimal, negative zero amounts, fractions of
    a second).  The meaning is stated here on its own: calendar arithmetic by `datetime`, amounts by `fractions.Fraction`."""
    from decimal import Decimal
    from fractions import Fraction
    P = G.pools()
    S = lambda sc: ('s', G.NOANN, sc)
    out = []
    # ---- timestamp: int, RFC 3339 text, decimal text
    ts = [0, -1, 1, 1700000000, -62135596800, 253402300799, 951782400, 68169599, rng.randrange(-62135596800, 253402300800), rng.randrange(0, 2 * 10 ** 9)]
    for t in ts:
        out.append((S('timestamp'), _rfc(t), ('I', t)))
        out.append((S('timestamp'), str(t), ('I', t)))
    t = rng.choice(ts)
    hh, mm = rng.randrange(0, 24), rng.randrange(0, 60)
    out.append((S('timestamp'), _rfc(t)[:-1] + '+%02d:%02d' % (hh, mm), ('I', t - hh * 3600 - mm * 60)))
    out.append((S('timestamp'), _rfc(t)[:-1] + '-%02d:%02d' % (hh, mm), ('I', t + hh * 3600 + mm * 60)))
    out.append((S('timestamp'), _rfc(t)[:-1] + '.5Z', None))
    out.append((S('timestamp'), _rfc(t)[:-1] + '.999999999999Z', None))
    for n in (2 ** 40, -2 ** 40, 253402300800, -62135596801):
        out.append((S('timestamp'), n, ('I', n)))
        out.append((S('timestamp'), str(n), ('I', n)))
    out += [(S('timestamp'), ' 12 ', ('I', 12)), (S('timestamp'), '+7', ('I', 7)), (S('timestamp'), '-5', ('I', -5)), (S('timestamp'), '007', ('I', 7)),
            (S('timestamp'), '\t3\n', ('I', 3))]
    for bad in ('x', '', ' ', '2020-13-01T00:00:00Z', '2021-02-29T00:00:00Z', '2020-02-30T00:00:00Z', '1970-01-01t00:00:00z', '1970-01-01T00:00:60Z', '1970-01-01T24:00:00Z',
                '1970-01-01 00:00:00Z', '1970-01-01T00:00:00', '0000-01-01T00:00:00Z', '1.5', '1e3', '- 5', '0x10', b'\x01', None, (1,)):
        out.append((S('timestamp'), bad, 'reject'))
    out.append((S('timestamp'), '2020-02-29T23:59:59Z', ('I', 1583020799)))
    # ---- mutez: int, Decimal, text (an amount in tez)
    for n in (0, 1, 2 ** 63 - 1, rng.randrange(10 ** 12)):
        out.append((S('mutez'), n, ('I', n)))
    out += [(S('mutez'), 2 ** 63, 'reject'), (S('mutez'), -1, 'reject')]
    texts = ['0', '1', '1.5', '0.000001', '0.0000019', '1E+3', '1e3', '2.5E-3', '.5', '5.', ' 2 ', '+3', '007.10', '9223372036854.775807', '12345.678901',
             '%d.%06d' % (rng.randrange(10 ** 6), rng.randrange(10 ** 6)), '%d' % rng.randrange(10 ** 9), '0e5', '0.0', '1_0']
    for x in texts:
        want = None
        if '_' not in x:
            q = Fraction(x.strip()) * 10 ** 6
            want = ('I', q.numerator // q.denominator)
        out.append((S('mutez'), x, want))
        if '_' not in x:
            out.append((S('mutez'), Decimal(x), want))
    for bad in ('9223372036854.775808', '1e30', '-1', '-0.000001', 'NaN', 'nan', 'sNaN', 'Infinity', '-Infinity', 'inf', 'abc', '', ' ', '1e', '--1', '1.2.3', 'e5', '.', '0x10', '1 000', b'\x01', None):
        out.append((S('mutez'), bad, 'reject'))
    for bad in ('-1', 'NaN', 'Infinity', '9223372036854.775808'):
        out.append((S('mutez'), Decimal(bad), 'reject'))
    for odd in ('-0.0000001', '-0', '0.9999999999999999999999999999999', '1.0000000000000000000000000000001', '123456789012.1234567890123456789012', '0.99999949999999999999999999999999',
                '2.0000005000000000000000000000000', '2.0000015000000000000000000000000', '0.%s' % ''.join(rng.choice('0123456789') for _ in range(rng.randrange(20, 40)))):
        out.append((S('mutez'), odd, None))
        out.append((S('mutez'), Decimal(odd), None))
    # ---- bytes and the bls12_381 points: bytes, hex text (optional 0x)
    for sc in ('bytes', 'bls12_381_g1', 'bls12_381_g2'):
        for b in (b'', b'\x00', b'\x0a\xff', bytes(96), bytes(range(192)), bytes(rng.randrange(256) for _ in range(rng.randrange(1, 8)))):
            out.append((S(sc), b, ('x', b)))
            out.append((S(sc), b.hex(), ('x', b)))
            out.append((S(sc), '0x' + b.hex(), ('x', b)))
            out.append((S(sc), b.hex().upper(), ('x', b)))
        out += [(S(sc), '0a ff', ('x', b'\x0a\xff')), (S(sc), '0a\tff\n', ('x', b'\x0a\xff')), (S(sc), ' 0a', ('x', b'\x0a'))]
        for bad in ('zz', 'abc', '0X0a', '0 a', '0x0x', 'a', 5, None, [1]):
            out.append((S(sc), bad, 'reject'))
    # ---- bls12_381_fr: int (any, taken modulo the order), little-endian bytes (at most 32), hex text
    p = G.FR_MODULUS
    for n in (0, 1, -1, p - 1, p, p + 5, 2 ** 256, -p - 3, rng.randrange(p), rng.randrange(-10 ** 9, 10 ** 9)):
        out.append((S('bls12_381_fr'), n, ('I', n % p)))
    for b in (b'', b'\x01', b'\x01\x00', b'\x00\x01', b'\xff' * 32, bytes(31) + b'\x80', bytes(rng.randrange(256) for _ in range(rng.randrange(1, 33)))):
        out.append((S('bls12_381_fr'), b, ('I', int.from_bytes(b, 'little') % p)))
        out.append((S('bls12_381_fr'), '0x' + b.hex(), ('I', int.from_bytes(b, 'little') % p)))
        out.append((S('bls12_381_fr'), b.hex(), ('I', int.from_bytes(b, 'little') % p)))
    for bad in (bytes(33), '0x' + '00' * 33, 'zz', None, (1,)):
        out.append((S('bls12_381_fr'), bad, 'reject'))
    # ---- base58 leaves: the text itself; an address / contract loses `%default`; anything else is refused
    for sc in G.B58:
        for x in rng.sample(P[sc], min(4, len(P[sc]))):
            out.append((S(sc), x, ('s', x)))
            if '%' in x:
                continue
            out.append((S(sc), _mangle(x), 'reject'))
            out.append((S(sc), x[:-1], 'reject'))
            out.append((S(sc), x + '1', 'reject'))
        for other in G.B58:
            if other != sc and not (sc == 'address' and other == 'key_hash'):
                out.append((S(sc), rng.choice([y for y in P[other] if '%' not in y and not (sc == 'key_hash' and y.startswith('tz'))]), 'reject'))
        for bad in ('', 'tz1', 5, None, ('a',), '%default'):
            out.append((S(sc), bad, 'reject'))
    out.append((S('address'), rng.choice(P['key_hash']), None))         # an implicit account is an address too
    out.append((S('key_hash'), P['address'][-1], 'reject'))
    out.append((S('address'), P['address'][0].encode(), 'reject'))
    for ct in (S('address'), ('c', G.NOANN, S('unit')), ('c', G.NOANN, ('p', G.NOANN, S('nat'), S('address')))):
        for x in rng.sample([y for y in P['address'] if '%' not in y], 3):
            out.append((ct, x + '%default', ('s', x)))
            out.append((ct, x + '%', ('s', x + '%')))
            out.append((ct, x + '%default%x', ('s', x + '%default%x')))
            out.append((ct, x + '%Default', ('s', x + '%Default')))
            out.append((ct, x + '%foo', ('s', x + '%foo')))
            out.append((ct, '%default' + x, 'reject'))
    for ct in (('c', G.NOANN, S('unit')), ('c', G.NOANN, S('nat'))):
        out.append((ct, None, ('s', ORIGINATED0)))
        out.append((ct, rng.choice(P['address']), None))
        out.append((ct, 7, 'reject'))
        out.append((ct, rng.choice(P['key']), 'reject'))
    # ---- ticket: (ticketer, item, amount) — a tuple or a list of exactly three; the item in the key rendering
    tk = [y for y in P['address'] if '%' not in y]
    nat = S('nat')
    for tt, item, iv in ((('k', G.NOANN, nat), 5, ('I', 5)),
                         (('k', G.NOANN, ('p', G.NOANN, nat, S('string'))), (1, 'a'), ('P', ('I', 1), ('s', 'a'))),
                         (('k', G.NOANN, ('p', G.NOANN, G.with_ann(nat, ('a', None)), G.with_ann(nat, ('b', None)))), (1, 2), ('P', ('I', 1), ('I', 2))),
                         (('k', G.NOANN, ('p', G.NOANN, nat, ('p', G.NOANN, nat, nat))), (1, 2, 3), ('P', ('I', 1), ('P', ('I', 2), ('I', 3)))),
                         (('k', G.NOANN, ('o', G.NOANN, nat, S('bytes'))), ('bytes_1', b'\x01'), ('R', ('x', b'\x01'))),
                         (('k', G.NOANN, ('O', G.NOANN, S('key_hash'))), None, ('N',)),
                         (('k', G.NOANN, S('unit')), None, ('U',))):
        x = rng.choice(tk)
        amt = rng.choice([0, 1, 2 ** 70])
        out.append((tt, (x, item, amt), ('K', x, iv, amt)))
        out.append((tt, [x, item, amt], ('K', x, iv, amt)))
        out.append((tt, (x + '%default', item, amt), ('K', x, iv, amt)))
        out.append((tt, (x + '%mint', item, amt), ('K', x + '%mint', iv, amt)))
        out.append((tt, (x, item), 'reject'))
        out.append((tt, (x, item, amt, 0), 'reject'))
        out.append((tt, (x, item, -1), 'reject'))
        out.append((tt, (_mangle(x), item, amt), 'reject'))
        out.append((tt, (rng.choice(P['key']), item, amt), 'reject'))
        out.append((tt, (x, item, 'many'), 'reject'))
        out.append((tt, {'ticketer': x, 'item': item, 'amount': amt} if item is None or isinstance(item, (int, str)) else 7, 'reject'))
        if isinstance(item, tuple) and len(item) > 1 and tt[2][0] == 'p':
            out.append((tt, (x,) + item + (amt,), 'reject'))           # the item's fields spread out: not what to_python_object shows
    # ---- lambda: Michelson source text of the body
    for code, src in zip(G.code_pool(), G.CODE_SOURCES):
        lt = ('f', G.NOANN, nat, nat)
        out.append((lt, src, ('f', code)))
        out.append((lt, ' ' + src.replace(' ; ', ';') + '\n', None))
    for bad in (5, None, b'{}', ['DUP'], ('{}',)):
        out.append((('f', G.NOANN, nat, S('unit')), bad, 'reject'))
    for odd in ('DUP', '', '{ DUP', '{ NOSUCHPRIM }', '{ DUP ; }', '{ DUUP }', '{ IF_SOME { DROP } { } }', 'Unit', '"a"', '{ PUSH nat }', '(Pair 1 2)', '{ dup }'):
        out.append((('f', G.NOANN, nat, nat), odd, None))
    # ---- unit, never
    from pytezos.michelson.types.core import Unit
    out += [(S('unit'), None, ('U',)), (S('unit'), Unit, ('U',)), (S('unit'), 0, 'reject'), (S('unit'), 'Unit', 'reject'),
            (S('never'), None, 'reject'), (S('never'), Unit, 'reject'), (S('never'), 0, 'reject')]
    return out


def wrap_form(rng, t, obj, want):
    """put a leaf form inside an option / list / pair / map / big_map / set (as a key too, where the type is comparable and the
    object hashable): (type, object, expected)"""
    comparable = t[0] == 's' and t[2] in G.COMPARABLE
    try:
        hash(obj)
        hashable = True
    except TypeError:
        hashable = False
    nat = ('s', G.NOANN, 'nat')
    choices = ['id', 'id', 'option', 'list', 'pair', 'named-pair', 'map-value', 'big_map-value', 'or']
    if comparable and hashable:
        choices += ['set', 'map-key', 'big_map-key', 'pair-key']
    k = rng.choice(choices)
    W = (lambda f: want if want in ('reject', None) else f(want))
    if k == 'id':
        return t, obj, want
    if k == 'option':
        return ('O', G.NOANN, t), obj, (want if obj is None and t[2] not in ('unit',) and t[0] == 's' else W(lambda w: ('J', w))) if not (obj is None) else None
    if k == 'list':
        return ('l', G.NOANN, t), [obj], W(lambda w: ('l', [w]))
    if k == 'pair':
        return ('p', G.NOANN, t, nat), (obj, 7), W(lambda w: ('P', w, ('I', 7)))
    if k == 'named-pair':
        return ('p', G.NOANN, G.with_ann(t, ('x', None)), G.with_ann(nat, ('n', None))), {'n': 7, 'x': obj}, W(lambda w: ('P', w, ('I', 7)))
    if k == 'or':
        return ('o', G.NOANN, G.with_ann(nat, ('a', None)), G.with_ann(t, ('b', None))), {'b': obj}, W(lambda w: ('R', w))
    if k == 'map-value':
        return ('m', G.NOANN, nat, t), {3: obj}, W(lambda w: ('m', [(('I', 3), w)]))
    if k == 'big_map-value':
        return ('b', G.NOANN, nat, t), {3: obj}, W(lambda w: ('b', [(('I', 3), w)]))
    if k == 'set':
        return ('S', G.NOANN, t), [obj], W(lambda w: ('S', [w]))
    if k == 'map-key':
        return ('m', G.NOANN, t, nat), {obj: 3}, W(lambda w: ('m', [(w, ('I', 3))]))
    if k == 'big_map-key':
        return ('b', G.NOANN, t, nat), {obj: 3}, W(lambda w: ('b', [(w, ('I', 3))]))
    return ('m', G.NOANN, ('p', G.NOANN, t, nat), nat), {(obj, 1): 3}, W(lambda w: ('m', [(('P', w, ('I', 1)), ('I', 3))]))


def leaf_stream(ctx):
    """from_python_object on every accepted input form of the leaves (and on refused ones), bare and inside containers: the real
    classes against the Lean mirror, and against the meaning stated in `leaf_forms`"""
    rng = ctx.rng
    forms = leaf_forms(rng)
    if ctx.tier != 'quick':
        for _ in range(5):
            forms += leaf_forms(rng)
    plan, lines = [], []
    for t0, obj0, want0 in forms:
        for rep in range(2):
            t, obj, want = (t0, obj0, want0) if rep == 0 else wrap_form(rng, t0, obj0, want0)
            real = Real(t)
            if real.err:
                ctx.count('leaf-forms', 'type-rejected')
                continue
            try:
                toks = G.py_toks(obj)
            except ValueError:
                continue
            plan.append((t, obj, want, real, len(lines)))
            lines.append(with_facts('ofpy ' + ' '.join(G.ty_toks(t)) + ' ' + ' '.join(toks), t))
    model = ctx.model(lines)
    if model and model[0] == 'unrecognised-source':
        model = None
    for t, obj, want, real, idx in plan:
        desc = {'type': G.ty_str(t), 'object': repr(obj)[:160]}
        ctx.case(desc, nontrivial=True)
        leaf = next(x for x in G.subterms(t) if x[0] in 'sckf' and not (x == ('s', G.NOANN, 'nat') and t[0] != 's'))
        ctx.count('leaf-forms', G.prim(leaf) + ':' + type(obj).__name__ + ':' + ('reject' if want == 'reject' else 'meaning' if want else 'model-only'))
        back = real.of_py(obj)
        got = show(back, G.val_toks)
        if model is not None:
            m = model[idx]
            if m == 'unmodelled':
                ctx.count('leaf-forms', 'unmodelled')
            elif not (got.startswith('err:') and m.startswith('err:')) and got != m:
                ctx.mismatch('from-python-object-leaf-forms', desc, got, m)
        key = f'{G.ty_str(t)} | {obj!r}'[:200]
        if want == 'reject' and not isinstance(back, str):
            ctx.violation(f'leaf-form-accepted[{key}]', f'{G.ty_str(t)}: from_python_object({obj!r}) = {G.val_str(back)} (expected a refusal)', {'type': G.ty_expr(t), 'object': repr(obj)})
        elif want not in ('reject', None) and back != want:
            ctx.violation(f'leaf-form-meaning[{key}]', f'{G.ty_str(t)}: from_python_object({obj!r}) = {got if isinstance(back, str) else G.val_str(back)} '
                          f'(expected {G.val_str(want)})', {'type': G.ty_expr(t), 'object': repr(obj)})
        elif want not in ('reject', None):
            # object -> value -> object -> value: the object a value is shown as converts back to it
            inst = real.cls.from_python_object(obj)
            ok, py = real.to_py(inst)
            if not ok or real.of_py(py) != want:
                ctx.violation(f'leaf-form-roundtrip[{key}]', f'{G.ty_str(t)}: {obj!r} -> value -> {py!r} does not convert back to the value', {'type': G.ty_expr(t), 'object': repr(obj)})


# ---------------------------------------------------------------------------------------------- try_unpack=True
def unpack_facts(data):
    """what the library says about one bytes value, for the `b58` / `unpackMich` parameters of the model: every base58 text
    `blind_unpack` could ask for, and the object of the PACKed content if `unforge_micheline` reads it"""
    from pytezos.crypto.encoding import base58_encode
    from pytezos.michelson.forge import unforge_micheline
    from pytezos.michelson.micheline import micheline_value_to_python_object
    cands = [(b'Net', data), (b'sig', data), (b'BLsig', data)]
    for pre in (b'tz1', b'tz2', b'tz3', b'tz4'):
        cands += [(pre, data[1:]), (pre, data[2:])]
    for pre in (b'KT1', b'txr1', b'sr1'):
        cands.append((pre, data[1:-1]))
    for pre in (b'edpk', b'sppk', b'p2pk', b'BLpk'):
        cands.append((pre, data[1:]))
    out = []
    for pre, pl in cands:
        try:
            tx = base58_encode(pl, pre).decode()
        except ValueError:
            continue
        out.append(f"e:{pre.hex()}:{pl.hex() or '-'}:{tx.encode().hex()}")
    if data[:1] == b'\x05':
        try:
            o = micheline_value_to_python_object(unforge_micheline(data[1:]))
            out.append('u:' + (data[1:].hex() or '-') + ':' + '~'.join(G.py_toks(o)))
        except Exception:
            pass          # not readable: blind_unpack has to go on to the next reading
    return out


PACKED = [   # hand-made PACKed data and what it shows as
    (bytes.fromhex('050100000003616263'), 'abc'),
    (bytes.fromhex('05002a'), 42),
    (bytes.fromhex('050041'), -1),
    (bytes.fromhex('0507070001000200'[:14]), (1, 2)),
    (bytes.fromhex('05070701000000016100ff01'), ('a', -127)),
    (bytes.fromhex('050a00000001ff'), b'\xff'),
    (bytes.fromhex('050a0000000161'), 'a'),
    (bytes.fromhex('05030b'), 'Unit'),
    (bytes.fromhex('050200000000'), '{}'),
]


def rand_bytes_for_unpack(rng):
    k = rng.randrange(8)
    if k == 0:
        return rng.choice(PACKED)[0]
    if k == 1:     # text
        return rng.choice(['', 'a', 'hello', 'é', '\x05x', 'tz1', '\x00', 'ab\ncd', '€uro', '\U0001f600']).encode()
    if k == 2:     # broken UTF-8 / surrogates / overlong
        return rng.choice([b'\xff', b'\xc3', b'\xc0\x80', b'\xed\xa0\x80', b'\xf4\x90\x80\x80', b'\xe2\x82', b'a\x80', b'\xf0\x9f\x98'])
    n = rng.choice([0, 1, 2, 3, 4, 5, 6, 8, 20, 21, 22, 23, 30, 32, 33, 34, 48, 49, 50, 63, 64, 65, 95, 96, 97])
    b = bytes(rng.randrange(256) if rng.random() < 0.6 else rng.choice([0, 1, 2, 3, 5, 7, 10, 97, 255]) for _ in range(n))
    if k == 3 and n:           # a forged address / key shape
        b = bytes([rng.choice([0, 0, 1, 2, 3, 4])]) + b[1:]
        if rng.random() < 0.5:
            b = b[:-1] + b'\x00'
        if rng.random() < 0.4 and n > 1:
            b = b[:1] + bytes([rng.choice([0, 1, 2, 3, 4])]) + b[2:]
    if k == 4:                 # looks PACKed
        b = b'\x05' + b
    if k == 5:                 # PACKed data cut short / with a tail
        p_ = rng.choice(PACKED)[0]
        b = p_[:rng.randrange(1, len(p_))] if rng.random() < 0.5 else p_ + bytes([rng.randrange(256)])
    return b


def bytes_leaves(t, v):
    if t[0] == 's':
        return [v[1]] if t[2] == 'bytes' else []
    if t[0] in 'cf' or v[0] in 'NB':
        return []
    if t[0] == 'k':
        return bytes_leaves(t[2], v[2])
    if t[0] == 'p':
        return bytes_leaves(t[2], v[1]) + bytes_leaves(t[3], v[2])
    if t[0] == 'o':
        return bytes_leaves(t[2] if v[0] == 'L' else t[3], v[1])
    if t[0] == 'O':
        return bytes_leaves(t[2], v[1])
    if t[0] in 'lS':
        return [b for x in v[1] for b in bytes_leaves(t[2], x)]
    return [b for k_, x in v[1] for b in bytes_leaves(t[2], k_) + bytes_leaves(t[3], x)]


def unpack_all(o, unpack):
    """the object with every bytes object in it (dict keys too) replaced by what `unpack` shows it as"""
    if isinstance(o, bytes):
        return unpack(o)
    if isinstance(o, tuple):
        return tuple(unpack_all(x, unpack) for x in o)
    if isinstance(o, list):
        return [unpack_all(x, unpack) for x in o]
    if isinstance(o, dict):
        return {unpack_all(k, unpack): unpack_all(x, unpack) for k, x in o.items()}
    return o


def unpack_stream(ctx):
    """`blind_unpack` on bytes of every interesting length / tag (the real function against the mirror `blindUnpack`; it must
    return — the value itself when nothing reads it — and show hand-made PACKed data as its content), and
    `to_python_object(try_unpack=True)` of composite values with bytes leaves against the mirror"""
    from pytezos.michelson.micheline import blind_unpack
    rng = ctx.rng
    n = 600 if ctx.tier == 'quick' else 20000
    datas = [d for d, _ in PACKED] + [b'\x05', b'\x05\x03\xaf', b'', b'\x05\x00', b'\x05\x02\x00\x00\x00\x05', b'\x05\x01\x00\x00\x00\x01\xff']
    while len(datas) < n:
        datas.append(rand_bytes_for_unpack(rng))
    lines = ['unpack ' + (d.hex() or '-') + ' | ' + ' '.join(unpack_facts(d)) for d in datas]
    # composite values
    comp = []
    m = 150 if ctx.tier == 'quick' else 5000
    tries = 0
    while len(comp) < m and tries < 40 * m:
        tries += 1
        t = G.rand_type(rng, rng.choice([1, 2, 2, 3]), p_field=0.5)
        if not G.inhabited(t) or not any(x == ('s', x[1], 'bytes') for x in G.subterms(t) if x[0] == 's'):
            continue
        v = G.rand_value(rng, t)
        # put interesting bytes into the leaves
        leaves = bytes_leaves(t, v)
        if not leaves:
            continue
        real = Real(t)
        if real.err:
            continue
        inst = real.value(v)
        if isinstance(inst, str):
            continue
        facts = []
        for b in leaves:
            facts += unpack_facts(b)
        comp.append((t, v, real, inst, len(lines)))
        ln = with_facts('topyu ' + ' '.join(G.ty_toks(t)) + ' ' + ' '.join(G.val_toks(v)), t)
        lines.append(ln + (' ' if ' | ' in ln else ' | ') + ' '.join(dict.fromkeys(facts)))
    model = ctx.model(lines)
    if model and model[0] == 'unrecognised-source':
        model = None
    want = dict(PACKED)
    for i, d in enumerate(datas):
        desc = {'blind_unpack': d.hex()}
        ctx.case(desc, nontrivial=True)
        try:
            r = blind_unpack(d)
            got = ' '.join(G.py_toks(r))
        except Exception as e:
            r, got = e, 'raises:' + type(e).__name__
        ctx.count('blind_unpack', type(r).__name__ if not isinstance(r, Exception) else 'raises')
        if model is not None and model[i] != got:
            ctx.mismatch('blind-unpack', desc, got, model[i])
        if isinstance(r, Exception):
            ctx.violation(f'blind-unpack-raises[0x{d.hex()}]', f'bytes 0x{d.hex()}: to_python_object(try_unpack=True) raises {type(r).__name__} '
                          '(expected the bytes themselves when they are not readable as PACKed data)', {'type': {'prim': 'bytes'}, 'value': {'bytes': d.hex()}, 'try_unpack': True})
        elif isinstance(r, bytes) and r != d and d[:1] != b'\x05':
            ctx.violation(f'blind-unpack-other-bytes[0x{d.hex()}]', f'bytes 0x{d.hex()} shown as other bytes 0x{r.hex()}', {'value': {'bytes': d.hex()}})
        elif d in want and r != want[d]:
            ctx.violation(f'blind-unpack-content[0x{d.hex()}]', f'PACKed data 0x{d.hex()} shown as {r!r} (expected {want[d]!r})', {'value': {'bytes': d.hex()}})
    for t, v, real, inst, idx in comp:
        desc = {'type': G.ty_str(t), 'value': G.val_str(v), 'try_unpack': True}
        ctx.case(desc, nontrivial=True)
        ctx.count('try_unpack', 'composite')
        try:
            py = inst.to_python_object(try_unpack=True, lazy_diff=None)
            got = ' '.join(G.py_toks(py))
            # try_unpack only changes how the bytes leaves are shown (bls12_381 points are bytes objects that stay as they are)
            if not any(x[0] == 's' and x[2] in ('bls12_381_g1', 'bls12_381_g2') for x in G.subterms(t)):
                plain = inst.to_python_object(lazy_diff=None)
                want_py = unpack_all(plain, blind_unpack)
                if G.py_toks(want_py) != G.py_toks(py):
                    ctx.violation(f'try-unpack-differs[{G.ty_str(t)} | {G.val_str(v)}]', f'{G.ty_str(t)}, value {G.val_str(v)}: to_python_object(try_unpack=True) = {py!r}, '
                                  f'expected {want_py!r} (the plain object with every bytes leaf shown unpacked)', {'type': G.ty_expr(t), 'value': G.val_expr(t, v), 'try_unpack': True})
        except Exception as e:
            got = classify(e)
            ctx.violation(f'try-unpack-raises[{G.ty_str(t)} | {G.val_str(v)}]', f'{G.ty_str(t)}, value {G.val_str(v)}: to_python_object(try_unpack=True) raises '
                          f'{type(e).__name__}: {str(e)[:120]}', {'type': G.ty_expr(t), 'value': G.val_expr(t, v), 'try_unpack': True})
        if model is not None and model[idx] != got:
            ctx.mismatch('to-python-object-try-unpack', desc, got, model[idx])
