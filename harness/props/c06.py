"""C06 — local operation forging.

Cases are operation groups in pytezos' own JSON shape (real base58 strings).  For every group:

  impl      forge_operation_group(group).hex()                      (the real code)
  model     Impl.OpForge.forgeGroup on the structured form of the group   (Lean mirror driven by the regenerated layouts)
  oracle 1  an independent canonical *writer* (SCHEMA below: my transcription of the Tezos operation encoding,
            not derived from the pytezos code) must produce the same bytes
  oracle 2  an independent canonical *reader* applied to the REAL bytes must return the (normalised) input group
  oracle 3  two different normalised groups never forge to the same bytes
  model 2   Spec.Op.decodeGroup (Lean) applied to the real bytes must return the same group as oracle 2
  model 3   Spec.Op.writeGroup (Lean canonical writer) must produce the same bytes as oracle 1's writer

base58 is not part of this property (C09/C10): strings are converted to (prefix, payload) with the `base58` package
and the Tezos prefix table written out below."""
import hashlib
import json

from harness import mich
from translator import extract

PROP = 'C06'

# ---- base58 (Tezos prefixes, written from the Tezos docs; independent of pytezos.crypto.encoding) ---------------
B58 = {
    'tz1': (bytes([6, 161, 159]), 20), 'tz2': (bytes([6, 161, 161]), 20), 'tz3': (bytes([6, 161, 164]), 20),
    'tz4': (bytes([6, 161, 166]), 20), 'KT1': (bytes([2, 90, 121]), 20), 'sr1': (bytes([6, 124, 117]), 20),
    'src1': (bytes([17, 165, 134, 138]), 32), 'B': (bytes([1, 52]), 32),
    'edpk': (bytes([13, 15, 37, 217]), 32), 'sppk': (bytes([3, 254, 226, 86]), 33), 'p2pk': (bytes([3, 178, 139, 127]), 33),
    'BLpk': (bytes([6, 149, 135, 204]), 48), 'BLsig': (bytes([40, 171, 64, 207]), 96),
}


def b58e(prefix, payload):
    import base58
    binp, n = B58[prefix]
    assert len(payload) == n
    return base58.b58encode_check(binp + payload).decode()


def b58d(s, prefixes):
    """-> (prefix, payload)"""
    import base58
    for p in prefixes:
        if s.startswith(p):
            raw = base58.b58decode_check(s)
            binp, n = B58[p]
            assert raw.startswith(binp) and len(raw) == len(binp) + n, s
            return p, raw[len(binp):]
    raise ValueError(s)


PKH = ('tz1', 'tz2', 'tz3', 'tz4')
ADDR = PKH + ('KT1', 'sr1')
PK = ('edpk', 'sppk', 'p2pk', 'BLpk')

# ---- the Tezos operation encoding (protocol 023 and later), transcribed by hand --------------------------------
# codecs: N zarith natural · pkh 21 bytes · addr 22 bytes · pk · fix:<prefix> fixed-width hash shown in base58 ·
# hex:<n> fixed-width bytes shown in hex · dynb58:<prefix> / dynhex / dyntext / dynname (4-byte length) · mich (4-byte
# length + expression) · ep · msgs (4-byte length + (4-byte length + bytes)*) · ('opt', …) presence byte ff/00
MANAGER = [('source', 'pkh'), ('fee', 'N'), ('counter', 'N'), ('gas_limit', 'N'), ('storage_limit', 'N')]
SCHEMA = {
    'reveal': (107, MANAGER + [('public_key', 'pk'), ('proof', 'opt', [('proof', 'dynb58:BLsig')])]),
    'transaction': (108, MANAGER + [('amount', 'N'), ('destination', 'addr'),
                                    ('parameters', 'opt', [('parameters.entrypoint', 'ep'), ('parameters.value', 'mich')])]),
    'origination': (109, MANAGER + [('balance', 'N'), ('delegate', 'opt', [('delegate', 'pkh')]),
                                    ('script.code', 'mich'), ('script.storage', 'mich')]),
    'delegation': (110, MANAGER + [('delegate', 'opt', [('delegate', 'pkh')])]),
    'register_global_constant': (111, MANAGER + [('value', 'mich')]),
    'transfer_ticket': (158, MANAGER + [('ticket_contents', 'mich'), ('ticket_ty', 'mich'), ('ticket_ticketer', 'addr'),
                                        ('ticket_amount', 'N'), ('destination', 'addr'), ('entrypoint', 'dynname')]),
    'smart_rollup_add_messages': (201, MANAGER + [('message', 'msgs')]),
    'smart_rollup_execute_outbox_message': (206, MANAGER + [('rollup', 'fix:sr1'), ('cemented_commitment', 'fix:src1'),
                                                            ('output_proof', 'dynhex')]),
    'failing_noop': (17, [('arbitrary', 'dyntext')]),
    'activate_account': (4, [('pkh', 'fix:tz1'), ('secret', 'hex:20')]),
}
KIND_OF_TAG = {t: k for k, (t, _) in SCHEMA.items()}
RESERVED = ['default', 'root', 'do', 'set_delegate', 'remove_delegate', 'deposit', 'stake', 'unstake', 'finalize_unstake',
            'set_delegate_parameters']
VALIDATION_PASS = {'failing_noop': -1, 'activate_account': 2, **{k: 3 for k in SCHEMA if k not in ('failing_noop', 'activate_account')}}
UNIT = {'prim': 'Unit'}


class Reject(Exception):
    pass


def get(content, name):
    a, _, b = name.partition('.')
    return content[a][b] if b else content[a]


def put(content, name, v):
    a, _, b = name.partition('.')
    if b:
        content.setdefault(a, {})[b] = v
    else:
        content[a] = v


def len4(b):
    return len(b).to_bytes(4, 'big') + b


def z_nat(n):
    assert n >= 0
    out = bytearray()
    while True:
        b, n = n & 0x7F, n >> 7
        if n:
            out.append(b | 0x80)
        else:
            out.append(b)
            return bytes(out)


def z_int(v):
    n = abs(v)
    first, n = n & 0x3F, n >> 6
    first |= 0x40 if v < 0 else 0
    if not n:
        return bytes([first])
    return bytes([first | 0x80]) + z_nat(n)


def enc_mich(m, tags):
    if isinstance(m, list):
        return b'\x02' + len4(b''.join(enc_mich(x, tags) for x in m))
    if 'int' in m:
        return b'\x00' + z_int(int(m['int']))
    if 'string' in m:
        return b'\x01' + len4(m['string'].encode())
    if 'bytes' in m:
        return b'\x0a' + len4(bytes.fromhex(m['bytes']))
    args, annots = m.get('args', []), m.get('annots', [])
    ann = ' '.join(annots).encode()
    head = lambda t: bytes([t]) + tags[m['prim']]
    if len(args) >= 3:
        return head(9) + len4(b''.join(enc_mich(a, tags) for a in args)) + len4(ann)
    return head(3 + 2 * len(args) + (1 if annots else 0)) + b''.join(enc_mich(a, tags) for a in args) + (len4(ann) if annots else b'')


def enc_field(codec, v, tags):
    if codec == 'N':
        return z_nat(int(v))
    if codec == 'pkh':
        p, h = b58d(v, PKH)
        return bytes([PKH.index(p)]) + h
    if codec == 'addr':
        p, h = b58d(v, ADDR)
        return (b'\x00' + bytes([PKH.index(p)]) + h) if p in PKH else (bytes([{'KT1': 1, 'sr1': 3}[p]]) + h + b'\x00')
    if codec == 'pk':
        p, k = b58d(v, PK)
        return bytes([PK.index(p)]) + k
    if codec.startswith('fix:'):
        return b58d(v, (codec[4:],))[1]
    if codec.startswith('hex:'):
        b = bytes.fromhex(v)
        assert len(b) == int(codec[4:])
        return b
    if codec.startswith('dynb58:'):
        return len4(b58d(v, (codec[7:],))[1])
    if codec == 'dynhex':
        return len4(bytes.fromhex(v))
    if codec == 'dyntext':
        return len4(v.encode())
    if codec == 'dynname':
        assert 0 < len(v.encode()) <= 31
        return len4(v.encode())
    if codec == 'mich':
        return len4(enc_mich(v, tags))
    if codec == 'ep':
        if v in RESERVED:
            return bytes([RESERVED.index(v)])
        b = v.encode()
        assert 0 < len(b) <= 31
        return b'\xff' + bytes([len(b)]) + b
    if codec == 'msgs':
        return len4(b''.join(len4(bytes.fromhex(x)) for x in v))
    raise AssertionError(codec)


def spec_encode(group, tags):
    """canonical bytes of a *normalised* group"""
    out = b58d(group['branch'], ('B',))[1]
    for c in group['contents']:
        tag, fields = SCHEMA[c['kind']]
        out += bytes([tag])
        for f in fields:
            if f[1] == 'opt':
                if f[0] in c:
                    out += b'\xff' + b''.join(enc_field(cd, get(c, n), tags) for n, cd in f[2])
                else:
                    out += b'\x00'
            else:
                out += enc_field(f[1], get(c, f[0]), tags)
    return out


class Reader:
    def __init__(self, b):
        self.b, self.i = b, 0

    def take(self, n):
        if self.i + n > len(self.b):
            raise Reject('truncated')
        r = self.b[self.i:self.i + n]
        self.i += n
        return r

    def byte(self):
        return self.take(1)[0]

    def dyn(self):
        return self.take(int.from_bytes(self.take(4), 'big'))

    def nat(self):
        v, shift, n = 0, 0, 0
        while True:
            c = self.byte()
            n += 1
            v |= (c & 0x7F) << shift
            shift += 7
            if not c & 0x80:
                if c == 0 and n > 1:
                    raise Reject('non-minimal N')
                return v


def dec_field(codec, r, prim_of_tag):
    from harness.props import c05
    if codec == 'N':
        return str(r.nat())
    if codec == 'pkh':
        c = r.byte()
        if c > 3:
            raise Reject(f'public key hash tag {c}')
        return b58e(PKH[c], r.take(20))
    if codec == 'addr':
        t = r.byte()
        if t == 0:
            return dec_field('pkh', r, prim_of_tag)
        if t not in (1, 3):
            raise Reject(f'contract tag {t}')
        s = b58e({1: 'KT1', 3: 'sr1'}[t], r.take(20))
        if r.byte() != 0:
            raise Reject('padding')
        return s
    if codec == 'pk':
        c = r.byte()
        if c > 3:
            raise Reject(f'public key tag {c}')
        return b58e(PK[c], r.take(B58[PK[c]][1]))
    if codec.startswith('fix:'):
        return b58e(codec[4:], r.take(B58[codec[4:]][1]))
    if codec.startswith('hex:'):
        return r.take(int(codec[4:])).hex()
    if codec.startswith('dynb58:'):
        b = r.dyn()
        if len(b) != B58[codec[7:]][1]:
            raise Reject('width of ' + codec)
        return b58e(codec[7:], b)
    if codec == 'dynhex':
        return r.dyn().hex()
    if codec in ('dyntext', 'dynname'):
        b = r.dyn()
        if codec == 'dynname' and not 0 < len(b) <= 31:
            raise Reject('entrypoint name length')
        try:
            return b.decode()
        except UnicodeDecodeError:
            raise Reject('text field is not UTF-8 (a length prefix that cuts a character?)')
    if codec == 'mich':
        try:
            return mich.normalize(c05.spec_decode(r.dyn(), prim_of_tag))
        except (c05.Reject, c05.DontCare) as e:
            raise Reject(f'micheline: {e}')
    if codec == 'ep':
        t = r.byte()
        if t < len(RESERVED):
            return RESERVED[t]
        if t != 255:
            raise Reject(f'entrypoint tag {t}')
        n = r.byte()
        if not 0 < n <= 31:
            raise Reject(f'entrypoint name length {n}')
        name = r.take(n).decode()
        if name in RESERVED:
            raise Reject(f'reserved entrypoint `{name}` written as a named entrypoint (canonical: tag {RESERVED.index(name)})')
        return name
    if codec == 'msgs':
        sub, out = Reader(r.dyn()), []
        while sub.i < len(sub.b):
            out.append(sub.dyn().hex())
        return out
    raise AssertionError(codec)


def spec_decode(bs, prim_of_tag):
    """canonical reader -> normalised group; raises Reject"""
    r = Reader(bs)
    group = {'branch': b58e('B', r.take(32)), 'contents': []}
    if r.i == len(bs):
        raise Reject('no contents')
    while r.i < len(bs):
        tag = r.byte()
        if tag not in KIND_OF_TAG:
            raise Reject(f'operation tag {tag}')
        kind = KIND_OF_TAG[tag]
        c = {'kind': kind}
        for f in SCHEMA[kind][1]:
            if f[1] == 'opt':
                flag = r.byte()
                if flag == 0xFF:
                    for n, cd in f[2]:
                        put(c, n, dec_field(cd, r, prim_of_tag))
                    if f[0] == 'parameters' and c['parameters'] == {'entrypoint': 'default', 'value': UNIT}:
                        raise Reject('parameters (default, Unit) written explicitly (canonical: absent)')
                elif flag != 0:
                    raise Reject(f'presence byte {flag}')
            else:
                try:
                    put(c, f[0], dec_field(f[1], r, prim_of_tag))
                except Reject as e:
                    raise Reject(f'{kind}.{f[0]}: {e}')
        group['contents'].append(c)
    return group


# ---- normalisation (what Tezos reads back) ------------------------------------------------------------------------
def norm_content(c):
    kind = c['kind']
    out = {'kind': kind}
    for f in SCHEMA[kind][1]:
        if f[1] == 'opt':
            name = f[0]
            if name == 'proof':
                present = 'proof' in c
            else:
                present = bool(c.get(name))
            if present and name == 'parameters':
                p = c['parameters']
                if p['entrypoint'] == 'default' and mich.normalize(p['value']) == UNIT:
                    present = False
            if present:
                for n, cd in f[2]:
                    put(out, n, norm_value(cd, get(c, n)))
        else:
            put(out, f[0], norm_value(f[1], get(c, f[0])))
    return out


def norm_value(codec, v):
    if codec == 'N':
        return str(int(v))
    if codec == 'mich':
        return mich.normalize(v)
    if codec in ('dynhex',) or codec.startswith('hex:'):
        return v.lower()
    if codec == 'msgs':
        return [x.lower() for x in v]
    return v


def norm_group(g):
    return {'branch': g['branch'], 'contents': [norm_content(c) for c in g['contents']]}


# ---- protocol line --------------------------------------------------------------------------------------------------
def hx(b):
    return b.hex() or '-'


def val_tokens(codec, v):
    if codec == 'N':
        return [f'N{int(v)}']
    if codec == 'pkh':
        p, h = b58d(v, PKH)
        return [f'A{p}:{hx(h)}']
    if codec == 'addr':
        p, h = b58d(v, ADDR)
        return [f'A{p}:{hx(h)}']
    if codec == 'pk':
        p, k = b58d(v, PK)
        return [f'K{p}:{hx(k)}']
    if codec.startswith('fix:') or codec.startswith('dynb58:'):
        return ['H' + hx(b58d(v, (codec.split(':')[1],))[1])]
    if codec.startswith('hex:') or codec == 'dynhex':
        return ['H' + hx(bytes.fromhex(v))]
    if codec in ('dyntext', 'dynname'):
        return ['H' + hx(v.encode())]
    if codec == 'mich':
        return ['M'] + mich.to_tokens(mich.normalize(v))
    if codec == 'ep':
        return ['E' + hx(v.encode())]
    if codec == 'msgs':
        return [f'L{len(v)}'] + [hx(bytes.fromhex(x)) for x in v]
    raise AssertionError(codec)


def content_tokens(c, present):
    """`present(content, optname)`: the presence rule (python truthiness for the input side)"""
    kind = c['kind']
    toks, m = [], 0
    for f in SCHEMA[kind][1]:
        if f[1] == 'opt':
            if present(c, f[0]):
                m += 1
                toks += [f[0], f'O{len(f[2])}']
                for n, cd in f[2]:
                    toks += [n] + val_tokens(cd, get(c, n))
        else:
            m += 1
            toks += [f[0]] + val_tokens(f[1], get(c, f[0]))
    return [kind, str(m)] + toks


def py_present(c, name):
    return (name in c) if name == 'proof' else bool(c.get(name))


def group_line(g, present=py_present):
    toks = [hx(b58d(g['branch'], ('B',))[1]), str(len(g['contents']))]
    for c in g['contents']:
        toks += content_tokens(c, present)
    return ' '.join(toks)


def parse_val(codec, ts, i):
    t = ts[i]
    body = t[1:]
    raw = lambda h: bytes.fromhex('' if h == '-' else h)
    if t[0] == 'N':
        return body, i + 1
    if t[0] in 'AK':
        p, h = body.split(':')
        return b58e(p, raw(h)), i + 1
    if t[0] == 'E':
        return raw(body).decode(), i + 1
    if t[0] == 'H':
        b = raw(body)
        if codec.startswith('fix:') or codec.startswith('dynb58:'):
            return b58e(codec.split(':')[1], b), i + 1
        if codec in ('dyntext', 'dynname'):
            return b.decode(), i + 1
        return b.hex(), i + 1
    if t[0] == 'L':
        n = int(body)
        return [raw(h).hex() for h in ts[i + 1:i + 1 + n]], i + 1 + n
    if t[0] == 'M':
        m, j = mich.from_tokens(ts, i + 1)
        return mich.normalize(m), j
    raise ValueError(t)


def parse_group_line(line):
    ts = line.split(' ')
    g = {'branch': b58e('B', bytes.fromhex(ts[0])), 'contents': []}
    i = 2
    for _ in range(int(ts[1])):
        kind, m = ts[i], int(ts[i + 1])
        i += 2
        c = {'kind': kind}
        codecs = {}
        for f in SCHEMA[kind][1]:
            for n, cd in (f[2] if f[1] == 'opt' else [(f[0], f[1])]):
                codecs[n] = cd
        for _ in range(m):
            name = ts[i]
            if ts[i + 1][0] == 'O':
                k = int(ts[i + 1][1:])
                i += 2
                for _ in range(k):
                    n = ts[i]
                    v, i = parse_val(codecs[n], ts, i + 1)
                    put(c, n, v)
            else:
                v, i = parse_val(codecs[name], ts, i + 1)
                put(c, name, v)
        g['contents'].append(c)
    assert i == len(ts)
    return g


# ---- generators ---------------------------------------------------------------------------------------------------------
def gen_nat(rng, wide=True):
    k = rng.randrange(10)
    if k == 0:
        return rng.choice([0, 1, 127, 128, 255, 256, 16383, 16384, 2**63 - 1, 2**63, 2**64 - 1, 2**64, 2**64 + 1, 2**200, 2**200 - 1])
    if k == 1:
        j = rng.randrange(1, 30)
        return rng.choice([2 ** (7 * j) - 1, 2 ** (7 * j), 2 ** (7 * j) + 1])
    if k == 2 and wide:
        return rng.getrandbits(rng.choice([65, 100, 200, 256]))
    if k == 3:
        return rng.getrandbits(rng.choice([32, 62, 63, 64]))
    return rng.randrange(0, rng.choice([10, 1000, 100000, 10**9]))


def as_json_nat(rng, n):
    return n if rng.random() < 0.2 else str(n)


# a few implicit accounts that recur in every role (source, delegate, destination, pkh) within one run and within one group: the
# 21-byte key-hash form and the 22-byte contract-id form of one address must never be confused, whatever was forged before
ACCOUNTS = []


def gen_pkh(rng, curves=PKH):
    if ACCOUNTS and rng.random() < 0.3:
        cand = [a for a in ACCOUNTS if a[:3] in curves]
        if cand:
            return rng.choice(cand)
    return b58e(rng.choice(curves), rng.bytes_(20))


def gen_addr(rng):
    if ACCOUNTS and rng.random() < 0.3:
        return rng.choice(ACCOUNTS)
    return b58e(rng.choice(ADDR), rng.bytes_(20))


NAME_CHARS = 'abcdefghijklmnopqrstuvwxyzABCDEFGHIJKLMNOPQRSTUVWXYZ0123456789_'


def gen_name(rng):
    k = rng.randrange(6)
    n = 31 if k == 0 else 1 if k == 1 else 30 if k == 2 else rng.randrange(1, 32)
    while True:
        s = ''.join(rng.choice(NAME_CHARS) for _ in range(n))
        if s not in RESERVED:
            return s


def gen_entrypoint(rng):
    return rng.choice(RESERVED) if rng.random() < 0.55 else gen_name(rng)


def gen_mich(rng, prims):
    return mich.random_mich(rng, prims, rng.choice([0, 1, 1, 2, 3]), max_args=4)


def gen_manager(rng, kind):
    c = {'kind': kind, 'source': gen_pkh(rng)}
    for f in ('fee', 'counter', 'gas_limit', 'storage_limit'):
        c[f] = as_json_nat(rng, gen_nat(rng))
    return c


def gen_content(rng, kind, prims):
    if kind == 'failing_noop':
        return {'kind': kind, 'arbitrary': ''.join(rng.choice('abc XYZ09\n"\\é€') for _ in range(rng.choice([0, 1, 5, 40])))}
    if kind == 'activate_account':
        return {'kind': kind, 'pkh': gen_pkh(rng, ('tz1',)), 'secret': rng.bytes_(20).hex()}
    c = gen_manager(rng, kind)
    if kind == 'reveal':
        pk = rng.choice(PK)
        c['public_key'] = b58e(pk, rng.bytes_(B58[pk][1]))
        if pk == 'BLpk' or rng.random() < 0.15:
            c['proof'] = b58e('BLsig', rng.bytes_(96))
    elif kind == 'transaction':
        c['amount'] = as_json_nat(rng, gen_nat(rng))
        c['destination'] = gen_addr(rng)
        k = rng.randrange(10)
        if k < 2:
            pass
        elif k == 2:
            c['parameters'] = rng.choice([None, {}])
        elif k == 3:
            c['parameters'] = {'entrypoint': 'default', 'value': dict(UNIT)}
        elif k == 4:
            c['parameters'] = {'entrypoint': 'default', 'value': gen_mich(rng, prims)}
        elif k == 5:
            c['parameters'] = {'entrypoint': gen_entrypoint(rng), 'value': dict(UNIT)}
        else:
            c['parameters'] = {'entrypoint': gen_entrypoint(rng), 'value': gen_mich(rng, prims)}
    elif kind == 'origination':
        c['balance'] = as_json_nat(rng, gen_nat(rng))
        k = rng.randrange(4)
        if k == 0:
            c['delegate'] = gen_pkh(rng)
        elif k == 1:
            c['delegate'] = rng.choice([None, ''])
        c['script'] = {'code': gen_mich(rng, prims), 'storage': gen_mich(rng, prims)}
    elif kind == 'delegation':
        k = rng.randrange(3)
        if k == 0:
            c['delegate'] = gen_pkh(rng)
        elif k == 1:
            c['delegate'] = rng.choice([None, ''])
    elif kind == 'register_global_constant':
        c['value'] = gen_mich(rng, prims)
    elif kind == 'transfer_ticket':
        c['ticket_contents'] = gen_mich(rng, prims)
        c['ticket_ty'] = gen_mich(rng, prims)
        c['ticket_ticketer'] = gen_addr(rng)
        c['ticket_amount'] = as_json_nat(rng, max(1, gen_nat(rng)))
        c['destination'] = gen_addr(rng)
        c['entrypoint'] = rng.choice(['default', gen_name(rng), gen_name(rng)])
    elif kind == 'smart_rollup_add_messages':
        c['message'] = [rng.bytes_(rng.choice([0, 1, 2, 30, 300])).hex() for _ in range(rng.choice([0, 1, 1, 2, 5]))]
    elif kind == 'smart_rollup_execute_outbox_message':
        c['rollup'] = b58e('sr1', rng.bytes_(20))
        c['cemented_commitment'] = b58e('src1', rng.bytes_(32))
        c['output_proof'] = rng.bytes_(rng.choice([0, 1, 40, 400])).hex()
    return c


def gen_group(rng, prims):
    n = rng.choice([1, 1, 1, 2, 2, 3, 4, 5, 6, 7, 8])
    kinds = list(SCHEMA)
    contents = [gen_content(rng, rng.choice(kinds), prims) for _ in range(n)]
    if rng.random() < 0.25:      # one account in two roles inside the group: destination = source (stake / self transfer), delegate = source
        for c in contents:
            if 'destination' in c and c.get('source', '')[:2] == 'tz' and rng.random() < 0.6:
                c['destination'] = c['source']
            if c.get('delegate') and rng.random() < 0.6:
                c['delegate'] = c['source']
    return {'branch': b58e('B', rng.bytes_(32)), 'contents': contents}


def fixed_groups(rng, prims):
    """always-run corner cases"""
    out = []
    base = lambda: gen_manager(rng, 'transaction') | {'amount': '0', 'destination': gen_addr(rng)}
    for ep in RESERVED + ['a', 'a' * 31, 'Stake', 'defaul', 'default_']:
        for val in (dict(UNIT), {'int': '1'}):
            out.append({'branch': b58e('B', rng.bytes_(32)), 'contents': [base() | {'parameters': {'entrypoint': ep, 'value': val}}]})
    for curve in PKH:
        for dest in ADDR:
            c = base() | {'source': gen_pkh(rng, (curve,)), 'destination': b58e(dest, rng.bytes_(20))}
            out.append({'branch': b58e('B', rng.bytes_(32)), 'contents': [c]})
    for n in (0, 127, 128, 2**63 - 1, 2**63, 2**64 - 1, 2**64, 2**200):
        c = base()
        for f in ('fee', 'counter', 'gas_limit', 'storage_limit', 'amount'):
            c[f] = str(n)
        out.append({'branch': b58e('B', rng.bytes_(32)), 'contents': [c]})
    for kind in SCHEMA:
        out.append({'branch': b58e('B', rng.bytes_(32)), 'contents': [gen_content(rng, kind, prims)]})
    return out


# ---- shrinking / keys ---------------------------------------------------------------------------------------------------
def shrink_content(c, fails):
    """greedy: simpler field values while the singleton group still fails"""
    c = json.loads(json.dumps(c))
    for f in SCHEMA[c['kind']][1]:
        names = f[2] if f[1] == 'opt' else [(f[0], f[1])]
        if f[1] == 'opt' and f[0] in c:
            trial = {k: v for k, v in c.items() if k != f[0]}
            if fails(trial):
                c = trial
                continue
        for n, cd in names:
            try:
                cur = get(c, n)
            except (KeyError, TypeError):
                continue
            for simple in {'N': ['0', '128', str(2**64)], 'mich': [dict(UNIT)], 'dynhex': [''], 'dyntext': [''], 'msgs': [[]]}.get(cd, []):
                if cur == simple:
                    break
                trial = json.loads(json.dumps(c))
                put(trial, n, simple)
                if fails(trial):
                    c = trial
                    break
    return c


def run(ctx):
    st = extract.generate(PROP)
    ctx.prepare_lean(st)
    from pytezos.michelson.tags import prim_tags
    from pytezos.operation import forge as opforge
    from pytezos.rpc import kind as rpckind
    from translator import c06 as tr

    ctx.extra['rule'] = ('operation groups of 1..8 contents drawn from the ten kinds (pytezos JSON shape, real base58): sources tz1-tz4, '
                         'destinations tz1-tz4/KT1/sr1, all ten reserved entrypoints and named ones of length 1..31, absent/None/empty/'
                         '(default,Unit)/other parameters, optional delegate and proof, naturals around 2^7k, 2^63, 2^64, 2^200 and random '
                         'up to 256 bits, random Micheline; plus a fixed list of corner groups.  non-trivial = some content has a '
                         'present optional group, a multi-byte natural or a Micheline field')
    ctx.assumptions += [
        'SCHEMA / Spec.Op.tezosOps are my transcription of the Tezos operation encoding (Operation_repr, protocol 023 "Seoul" or later: '
        'reveal ends with the optional proof field; earlier protocols have no such byte); Octez is not in the sandbox',
        'base58 <-> bytes is outside this property (C09/C10): done in the harness with the `base58` package and a hand-written prefix table',
        'failing_noop: `arbitrary` is taken as the message text (UTF-8 bytes are what is encoded); recent protocols show this field as '
        'a hex string in RPC JSON - whether pytezos content should carry hex there is not asserted',
        'transaction / transfer_ticket destination: the reader accepts contract tags 0 (implicit), 1 (originated) and 3 (smart rollup); '
        'I am not sure current protocols still accept tag 3 in a manager transaction (Contract_repr vs Destination_repr); bytes for tz/KT1 are unaffected',
        'semantic bounds are not part of the binary layout and are not modelled: mutez < 2^63 and the 10-byte size check on N fields, '
        'ticket_amount > 0, tz4 reveal requires a proof, only manager operations may be batched, txr1 (tag 2) is legacy and outside the domain',
        'transfer_ticket.entrypoint is read as a 4-byte-length string of 1..31 bytes; the stricter Tezos guard on its characters is not modelled',
        'Micheline inside fields relies on C05 (Impl.Forge.forge, Spec.Micheline.decode); un-normalised JSON (empty args/annots lists) is '
        'normalised when a group is turned into a protocol line',
    ]
    # ---- table self-check: what the translator wrote vs the imported module
    ctx.obligation('self-check:operation_tags', tr.LAST.get('operation_tags') == dict(rpckind.operation_tags), 'translator table vs imported module')
    ctx.obligation('self-check:validation_passes', tr.LAST.get('validation_passes') == dict(rpckind.validation_passes), 'translator table vs imported module')
    ctx.obligation('self-check:reserved_entrypoints', tr.LAST.get('reserved_entrypoints') == dict(opforge.reserved_entrypoints), 'translator table vs imported module')

    protocol_prims = sorted(k for k, v in prim_tags.items() if v != b'\xee')
    prim_of_tag = {prim_tags[k][0]: k for k in protocol_prims}
    n_groups = 3000 if ctx.tier == 'quick' else 100000
    ACCOUNTS[:] = [b58e(PKH[i % len(PKH)], ctx.rng.bytes_(20)) for i in range(6)]
    groups = fixed_groups(ctx.rng, protocol_prims)
    for _ in range(n_groups):
        groups.append(gen_group(ctx.rng, protocol_prims))

    def real(g):
        try:
            return opforge.forge_operation_group(g).hex()
        except Exception as e:  # noqa
            return 'err'

    def check(g):
        """-> (real hex, problem | None)"""
        got = real(g)
        ng = norm_group(g)
        want = spec_encode(ng, prim_tags).hex()
        if got == 'err':
            return got, 'forge_operation_group raised on a well-formed group'
        if got != want:
            try:
                spec_decode(bytes.fromhex(got), prim_of_tag)
                why = 'bytes differ from the canonical encoding'
            except Reject as e:
                why = str(e)
            return got, f'non-canonical bytes: {why}'
        try:
            back = spec_decode(bytes.fromhex(got), prim_of_tag)
        except Reject as e:
            return got, f'canonical reader rejects the forged bytes: {e}'
        if back != ng:
            return got, 'canonical reader returns a different group'
        return got, None

    def broken_variants(g):
        """malformed groups made from `g` whose forging starts well and then raises: a failed call must leave nothing behind"""
        good = json.loads(json.dumps(g['contents'][0]))
        out = []
        for mut in range(4):
            c = json.loads(json.dumps(g['contents'][-1]))
            if mut == 0:
                c['kind'] = 'no_such_kind'
            elif mut == 1:
                c.pop('fee', None) if 'fee' in c else c.pop(sorted(k for k in c if k != 'kind')[0], None)
            elif mut == 2:
                if 'source' in c:
                    c['source'] = c['source'][:-1]
                else:
                    c['kind'] = 'transaction'
            else:
                for k in ('counter', 'amount', 'balance', 'level'):
                    if k in c:
                        c[k] = 'x1'
            out.append({'branch': g['branch'], 'contents': [good, c]})
        out.append({'branch': g['branch'][:-2], 'contents': [good]})
        out.append({'contents': [good]})
        return out

    results, lines = [], []
    n_after_failure = 0
    for gi, g in enumerate(groups):
        if gi % 6 == 5:
            # history: a call that fails half-way (malformed later content) right before a well-formed group
            for bg in broken_variants(groups[gi - 1])[gi // 6 % 6:][:2]:
                try:
                    opforge.forge_operation_group(bg)
                    ctx.count('failed-call-before', 'accepted')
                except Exception as e:  # noqa
                    ctx.count('failed-call-before', type(e).__name__)
                    n_after_failure += 1
                    got, problem = check(g)
                    if problem is not None and check(g)[1] is None:      # wrong only right after the failed call
                        ctx.violation('after-failed-call:' + type(e).__name__,
                                      f'forge_operation_group raises {type(e).__name__} on {json.dumps(bg)[:300]}; the NEXT call, on the well-formed group '
                                      f'{json.dumps(g)[:300]}, returns {got[:120]}… ({problem}); called again it returns the canonical bytes',
                                      {'failing_call': bg, 'group': g, 'forged_after_failure': got, 'problem': problem})
        got, problem = check(g)
        results.append((got, problem))
        lines.append('forge ' + group_line(g))
        lines.append('decode ' + (got if got != 'err' else '00'))
    model = ctx.model(lines)
    # Lean canonical writer (Spec.Op.writeGroup, Tezos tables only) vs the independent Python writer
    n_canon = len(groups) if ctx.tier == 'quick' else min(len(groups), 20000)
    canon = ctx.model(['canon ' + group_line(norm_group(g), present=lambda c, name: name in c) for g in groups[:n_canon]]) if model is not None else None
    seen = {}
    n_bad = 0
    for i, g in enumerate(groups):
        ng = norm_group(g)
        got, problem = results[i]
        kinds = [c['kind'] for c in g['contents']]
        nontrivial = any(any(int(v) >= 128 for k, v in c.items() if k in ('fee', 'counter', 'gas_limit', 'storage_limit', 'amount', 'balance', 'ticket_amount'))
                         or any(k in c for k in ('parameters', 'delegate', 'proof', 'script', 'value', 'ticket_ty')) for c in ng['contents'])
        ctx.case({'kinds': kinds, 'sha1': hashlib.sha1(json.dumps(ng, sort_keys=True).encode()).hexdigest()[:16]}, nontrivial=nontrivial)
        ctx.count('contents', len(kinds))
        for c in g['contents']:
            ctx.count('kind', c['kind'])
            ctx.count('source', c['source'][:3] if 'source' in c else '-')
            if 'destination' in c:
                ctx.count('destination', c['destination'][:3])
            if c['kind'] == 'transaction':
                p = c.get('parameters')
                ctx.count('parameters', 'absent' if not p else 'default-unit' if norm_content(c).get('parameters') is None else
                          'reserved:' + p['entrypoint'] if p['entrypoint'] in RESERVED else f'named')
                if p and p['entrypoint'] not in RESERVED:
                    ctx.count('named_len', len(p['entrypoint'].encode()))
            for k in ('fee', 'counter', 'gas_limit', 'storage_limit', 'amount', 'balance', 'ticket_amount'):
                if k in c:
                    b = int(c[k]).bit_length()
                    ctx.count('nat_bits', '0-7' if b <= 7 else '8-62' if b <= 62 else '63-64' if b <= 64 else '65-128' if b <= 128 else '129+')
        if problem is not None and n_bad < 40:
            n_bad += 1
            # shrink: a single content, then simpler fields
            bad = next((c for c in g['contents'] if check({'branch': g['branch'], 'contents': [c]})[1] is not None), None)
            if bad is not None:
                small = shrink_content(bad, lambda c: check({'branch': g['branch'], 'contents': [c]})[1] is not None)
                sg = {'branch': g['branch'], 'contents': [small]}
                got_s, problem_s = check(sg)
                p = small.get('parameters') or {}
                if small['kind'] == 'transaction' and p.get('entrypoint') in RESERVED and 'reserved entrypoint' in problem_s:
                    key = f"reserved-entrypoint-forged-as-named:{p['entrypoint']}"
                else:
                    key = f"{small['kind']}:{problem_s[:60]}"
                ctx.violation(key, f'forge_operation_group({json.dumps(sg)}) = {got_s}: {problem_s}; canonical = {spec_encode(norm_group(sg), prim_tags).hex()}',
                              {'group': sg, 'forged': got_s, 'canonical': spec_encode(norm_group(sg), prim_tags).hex(), 'problem': problem_s})
            else:
                ctx.violation(f'group:{problem[:60]}', f'forge_operation_group({json.dumps(g)[:400]}) = {got[:200]}: {problem}', {'group': g, 'forged': got, 'problem': problem})
        elif problem is not None:
            n_bad += 1
        if got != 'err':
            if got in seen and seen[got] != ng:
                ctx.violation(f'collision:{got[:60]}', f'two different groups forge to {got[:120]}', {'a': ng, 'b': seen[got]})
            seen[got] = ng
        if model is not None:
            if model[2 * i] != got:
                ctx.mismatch('forge', g if len(json.dumps(g)) < 1500 else {'kinds': kinds}, got[:400], model[2 * i][:400])
            # Lean Spec.decodeGroup on the real bytes vs the independent Python reader on the same bytes
            try:
                want = spec_decode(bytes.fromhex(got), prim_of_tag) if got != 'err' else None
            except Reject:
                want = None
            lean = None if model[2 * i + 1] in ('err', 'bad-op') else parse_group_line(model[2 * i + 1])
            if canon is not None and i < n_canon and canon[i] != spec_encode(ng, prim_tags).hex():
                ctx.mismatch('spec-writer', {'kinds': kinds}, spec_encode(ng, prim_tags).hex()[:300], canon[i][:300])
            if got != 'err' and lean != want:
                ctx.mismatch('spec-decode', {'bytes': got[:300]}, json.dumps(want)[:300], json.dumps(lean)[:300])
    ctx.extra['non_canonical_groups'] = n_bad

    # ---- un-normalised spellings of Unit in `parameters` (JSON that Tezos reads as the same expression): oracle only
    base = {'kind': 'transaction', 'source': b58e('tz1', bytes(20)), 'fee': '0', 'counter': '0', 'gas_limit': '0', 'storage_limit': '0',
            'amount': '0', 'destination': b58e('KT1', bytes(20))}
    for spelling in ({'prim': 'Unit', 'args': []}, {'prim': 'Unit', 'annots': []}, {'prim': 'Unit', 'args': [], 'annots': []}):
        g = {'branch': b58e('B', bytes(32)), 'contents': [base | {'parameters': {'entrypoint': 'default', 'value': spelling}}]}
        got, problem = check(g)
        ctx.case({'unit-spelling': spelling}, nontrivial=True)
        if problem is not None:
            ctx.violation('default-unit-spelling-not-elided', f'parameters (default, {json.dumps(spelling)}) forged as {got[-24:]}: {problem}',
                          {'group': g, 'forged': got, 'canonical': spec_encode(norm_group(g), prim_tags).hex()})

    # ---- ill-formed inputs: only mirror vs code (the property says nothing about them)
    odd = []
    for n in (0, 32, 100, 255, 256, 300):
        odd.append(('entrypoint ' + hx(b'e' * n), lambda n=n: opforge.forge_entrypoint('e' * n).hex()))
    for name in RESERVED + ['x', 'Default']:
        odd.append(('entrypoint ' + hx(name.encode()), lambda name=name: opforge.forge_entrypoint(name).hex()))
    outs = ctx.model([ln for ln, _ in odd])
    for j, (ln, f) in enumerate(odd):
        try:
            got = f()
        except Exception:
            got = 'err'
        ctx.case({'stream': 'entrypoint', 'line': ln}, nontrivial=True)
        if outs is not None and outs[j] != got:
            ctx.mismatch('forge_entrypoint', ln, got, outs[j])
