"""C30 — protocol source diffs.  The real make_patch / apply_patch (and Protocol.diff / Protocol.patch on in-memory
protocols) are run on text pairs; observable = the patch text, the two applied texts (or the error class).
`difflib.unified_diff` is not modelled: every real patch is parsed (independently of apply_patch) into an edit script whose
validity for (old, new) and whose rendering are checked by the Lean side — that validates the assumption the theorem
rests on for that very case."""
import itertools
import re

from translator import extract

PROP = 'C30'

MARKER = '\\ No newline at end of file\n'
ALPHABETS = [
    ('a', 'b', ''),
    ('\\ No newline at end of file', '@@ -1 +1 @@', '--- f'),
    ('+', '-', ' '),
    ('+++ f', '\\', '@'),
]
TRICKY = ['a', 'b', 'c', '', ' ', '+', '-', '--- f', '+++ f', '---', '@@ -1 +1 @@', '@@ -0,0 +1 @@', '@', '\\', MARKER[:-1],
          '\\ No newline', '-a', '+a', ' a', 'let x = 1', '  (* comment *)', '\t', '0', '@@']


def hx(s):
    return s.encode('latin-1').hex() or '-'


def split_lines(s):
    """lines including their '\\n' (the only boundary in the domain) — independent of str.splitlines"""
    return re.findall(r'[^\n]*\n|[^\n]+', s)


def texts_upto(alphabet, max_lines):
    out = ['']
    for k in range(1, max_lines + 1):
        for combo in itertools.product(alphabet, repeat=k):
            body = '\n'.join(combo)
            out.append(body + '\n')
            if combo[-1] != '':          # a last line without '\n' must be non-empty
                out.append(body)
    return out


def parse_script(patch, old, fname):
    """real patch text -> edit script [('K', [lines]) | ('H', [(tag, line)])]; None when the text does not have the
    unified format"""
    lines = split_lines(patch)
    old_lines = split_lines(old)
    if not lines:
        return [('K', old_lines)] if old_lines else []
    if len(lines) < 3 or lines[0] != f'--- {fname}\n' or lines[1] != f'+++ {fname}\n':
        return None
    i, pos, segs = 2, 0, []
    while i < len(lines):
        m = re.fullmatch(r'@@ -(\d+)(?:,(\d+))? \+(\d+)(?:,(\d+))? @@\n', lines[i])
        if not m:
            return None
        a_cnt = int(m.group(2)) if m.group(2) is not None else 1
        b_cnt = int(m.group(4)) if m.group(4) is not None else 1
        a_idx = int(m.group(1)) - 1 if a_cnt else int(m.group(1))
        if a_idx < pos or a_idx > len(old_lines):
            return None
        if old_lines[pos:a_idx]:
            segs.append(('K', old_lines[pos:a_idx]))
        i += 1
        ops = []
        while i < len(lines) and not lines[i].startswith('@'):
            ln = lines[i]
            if ln[0] not in ' -+' or not ln.endswith('\n'):
                return None
            body = ln[1:]
            if i + 1 < len(lines) and lines[i + 1] == MARKER:
                body = body[:-1]
                i += 1
            ops.append((ln[0], body))
            i += 1
        if sum(1 for t, _ in ops if t in ' -') != a_cnt or sum(1 for t, _ in ops if t in ' +') != b_cnt:
            return None
        segs.append(('H', ops))
        pos = a_idx + a_cnt
    if old_lines[pos:]:
        segs.append(('K', old_lines[pos:]))
    return segs


def script_tokens(segs):
    toks = []
    for kind, items in segs:
        if kind == 'K':
            toks.append('K')
            toks += ['=' + hx(l) for l in items]
        else:
            toks.append('H')
            toks += [{' ': 'c', '-': '-', '+': '+'}[t] + hx(l) for t, l in items]
    return toks


def real_apply(source, patch, revert):
    from pytezos.protocol.diff import apply_patch
    try:
        return 'ok ' + hx(apply_patch(source, patch, revert))
    except ValueError as e:
        msg = str(e)
        return 'error regex-mismatch' if msg.startswith('Regex mismatch') else ('error bad-line-num' if msg.startswith('Bad line num') else 'error value-error')
    except Exception as e:  # noqa
        return f'error other:{type(e).__name__}'


def mutate(rng, patch):
    lines = split_lines(patch)
    if not lines:
        lines = ['@@ -1 +1 @@\n']
    k = rng.randrange(9)
    i = rng.randrange(len(lines))
    if k == 0:
        del lines[i]
    elif k == 1:
        lines.insert(i, rng.choice(['x\n', '\n', MARKER, '@@ -1 +1 @@\n', '@@ -0,0 +1 @@\n', '@@ bad\n', ' ctx\n', '-del\n', '+add\n', '--- f\n', '@\n']))
    elif k == 2:
        hs = [j for j, l in enumerate(lines) if l.startswith('@@')]
        if hs:
            j = rng.choice(hs)
            lines[j] = re.sub(r'\d+', lambda m: str(max(0, int(m.group(0)) + rng.choice([-2, -1, 1, 2, 7]))), lines[j], count=rng.randrange(1, 3))
    elif k == 3:
        hs = [j for j, l in enumerate(lines) if l.startswith('@@')]
        if hs:
            j = rng.choice(hs)
            lines[j] = rng.choice(['@@ -1, +1 @@\n', '@@ -0 +0 @@\n', '@@ -1,0 +1,0 @@\n', '@@ -01,00 +1 @@\n', '@@ -1 +1 @@ \n', '@@ -1 +1 @@',
                                   '@@ -1,1 +1,1 @@\n', '@@ -2 +2 @@\n', ' @@ -1 +1 @@\n', '@@ -12 +3,4 @@\n', '@@ -1,2,3 +1 @@\n', '@@  -1 +1 @@\n'])
    elif k == 4:
        lines = lines[2:] if len(lines) > 2 else lines      # no file header
    elif k == 5:
        lines[i] = lines[i].rstrip('\n')                   # glue two lines
    elif k == 6:
        lines = lines + lines[2:]                           # hunks twice
    elif k == 7:
        lines[i] = rng.choice(['\\', '@', 'x', '']) + lines[i][1:]
    else:
        rng.shuffle(lines)
    return ''.join(lines)


def run(ctx):
    ctx.prepare_lean(extract.generate(PROP))
    quick = ctx.tier == 'quick'
    rng = ctx.rng
    ctx.assumptions += [
        'difflib.unified_diff is not modelled: the theorem is stated for every valid edit script; each real patch is parsed into a script and the '
        'Lean side checks that it is valid for (old, new) and renders to exactly the real patch text',
        "only '\\n' is a line boundary (str.splitlines also splits at \\r, \\v, \\f, \\x1c-\\x1e, \\x85, U+2028, U+2029: such texts are outside the domain)",
        'characters are Latin-1 on the line protocol; the regex class \\d and int() are modelled for ASCII digits',
        'files_to_proto / proto_to_files (hex encoding, component naming) are exercised, not modelled; component names are lower-case module names',
    ]
    pairs = []   # (a, b, n, fname)
    ex_lines = 2 if quick else 4
    for ai, alphabet in enumerate(ALPHABETS):
        lim = ex_lines if (ai == 0 or quick) else 3
        ts = texts_upto(alphabet, lim)
        for a in ts:
            for b in ts:
                for n in range(4):
                    pairs.append((a, b, n, 'f'))
    if quick:
        ts = texts_upto(ALPHABETS[0], 4)
        for _ in range(2500):
            pairs.append((rng.choice(ts), rng.choice(ts), rng.randrange(4), 'f'))
    for _ in range(400 if quick else 8000):
        pool = rng.sample(TRICKY, rng.randrange(2, 7))
        la = [rng.choice(pool) for _ in range(rng.randrange(0, 40))]
        lb = list(la)
        for _ in range(rng.randrange(0, 6)):      # a few edits of `la`
            k = rng.randrange(3)
            j = rng.randrange(len(lb) + 1)
            if k == 0:
                lb.insert(j, rng.choice(pool))
            elif k == 1 and lb:
                del lb[min(j, len(lb) - 1)]
            elif lb:
                lb[min(j, len(lb) - 1)] = rng.choice(pool)
        if rng.random() < 0.15:
            lb = [rng.choice(pool) for _ in range(rng.randrange(0, 30))]

        def text(ls):
            s = '\n'.join(ls)
            if ls and (ls[-1] == '' or rng.random() < 0.6):
                s += '\n'
            return s
        pairs.append((text(la), text(lb), rng.randrange(0, 6), rng.choice(['f', 'alpha_context.ml', 'dir/x y.mli', ''])))
    ctx.extra['rule'] = (
        f'text pairs: exhaustive over all texts with <= {ex_lines} lines over the alphabet {ALPHABETS[0]!r} (with/without final newline, empty text) '
        f'and <= {ex_lines if quick else 3} lines over three alphabets of lines that look like patch syntax, x context 0..3; '
        + ('a random sample of the <= 4 line space; ' if quick else '')
        + 'random texts up to 40 lines derived from each other by a few edits, context 0..5; mutated patches (correspondence only); '
        'in-memory protocols of 1..4 files.  non-trivial = the two texts differ')
    ctx.extra['exhaustive_lines'] = ex_lines

    from pytezos.protocol.diff import apply_patch, make_patch

    lines, post = [], []
    worst = {}

    def report(key, size, what, rep):
        if key not in worst or size < worst[key][0]:
            worst[key] = (size, what, rep)

    mut_budget = 1500 if quick else 30000
    mut_every = max(1, len(pairs) // mut_budget)
    for idx, (a, b, n, fname) in enumerate(pairs):
        patch = make_patch(a, b, fname, n)
        desc = {'old': a, 'new': b, 'context': n, 'filename': fname}
        ctx.case(desc, nontrivial=(a != b))
        ctx.count('context', n)
        ctx.count('old lines', min(len(split_lines(a)), 10))
        ctx.count('final newline (old,new)', f'{a.endswith(chr(10)) or not a},{b.endswith(chr(10)) or not b}')
        fwd = real_apply(a, patch, False)
        rev = real_apply(b, patch, True)
        size = (len(split_lines(a)) + len(split_lines(b)), len(a) + len(b), n)
        if fwd != 'ok ' + hx(b):
            got = bytes.fromhex(fwd[3:]).decode('latin-1') if fwd.startswith('ok ') and fwd != 'ok -' else fwd
            report('apply_patch(old, make_patch(old, new)) != new', size,
                   f'old={a!r} new={b!r} context={n}: patch {patch!r} applied to old gives {got!r}', dict(desc, patch=patch, got=got))
        if rev != 'ok ' + hx(a):
            got = bytes.fromhex(rev[3:]).decode('latin-1') if rev.startswith('ok ') and rev != 'ok -' else rev
            report('apply_patch(new, make_patch(old, new), revert=True) != old', size,
                   f'old={a!r} new={b!r} context={n}: patch {patch!r} reverted on new gives {got!r}', dict(desc, patch=patch, got=got))
        script = parse_script(patch, a, fname)
        if script is None:
            ctx.mismatch('difflib-contract', desc, patch, 'not a unified diff for (old, new)')
        else:
            lines.append(' '.join(['render', hx(fname), hx(a), hx(b)] + script_tokens(script)))
            post.append(('render', desc, 'valid ' + hx(patch)))
        lines.append(f'apply 0 {hx(a)} {hx(patch)}')
        post.append(('apply', desc, fwd))
        lines.append(f'apply 1 {hx(b)} {hx(patch)}')
        post.append(('apply-revert', desc, rev))
        if idx % mut_every == 0:
            bad = mutate(rng, patch)
            src = rng.choice([a, b, a + 'extra\n'])
            r = rng.random() < 0.5
            got = real_apply(src, bad, r)
            ctx.count('mutated patch outcome', 'ok' if got.startswith('ok') else got)
            lines.append(f'apply {int(r)} {hx(src)} {hx(bad)}')
            post.append(('apply-mutated', {'source': src, 'patch': bad, 'revert': r}, got))

    # ---- Protocol.diff / Protocol.patch on in-memory protocols -------------------------------------------------
    from pytezos.protocol.protocol import Protocol, files_to_proto

    class Query:                      # what diff()/patch() were written for: an RPC query object returning the proto dict
        def __init__(self, p):
            self.p = p

        def __call__(self):
            return self.p._proto

    names = ['alpha.ml', 'alpha.mli', 'beta.ml', 'gamma_context.mli', 'gamma_context.ml', 'delta.ml']
    small = texts_upto(ALPHABETS[0], 2)
    for k in range(60 if quick else 1500):
        def files():
            ns = sorted(rng.sample(names, rng.randrange(1, 5)), key=lambda x: (x.split('.')[0], x.split('.')[1] != 'mli'))
            return [(nm, rng.choice(small) if rng.random() < 0.7 else rng.choice(pairs)[rng.randrange(2)]) for nm in ns]
        yours, theirs = files(), files()
        if k == 0:
            yours, theirs = [('alpha.ml', 'a\n')], [('alpha.ml', 'b\n')]
        if rng.random() < 0.3:
            theirs = [(nm, t if rng.random() < 0.5 else dict(yours).get(nm, t)) for nm, t in theirs]
        ctxsize = rng.choice([None, 0, 1, 3])
        psize = (0, 0) if k == 0 else (len(theirs), sum(len(t) for _, t in yours + theirs))
        p1, p2 = Protocol(files_to_proto(yours)), Protocol(files_to_proto(theirs))
        want = list(p2)
        desc = {'yours': yours, 'theirs': theirs, 'context': ctxsize}
        ctx.case(desc, nontrivial=True)
        ctx.count('protocol files', len(theirs))
        kw = {} if ctxsize is None else {'context_size': ctxsize}
        # (1) as documented: both arguments are Protocol instances
        try:
            d = p1.diff(p2, **kw)
            res = p1.patch(d)
            out = 'ok ' + ' '.join(f'{hx(nm)}:{hx(t)}' for nm, t in d) + ' | ' + ' '.join(f'{hx(nm)}:{hx(t)}' for nm, t in res)
            if list(res) != want or res.hash() != p2.hash():
                report('yours.patch(yours.diff(theirs)) != theirs', psize,
                       f'yours={yours!r} theirs={theirs!r}: patched files {list(res)!r}', dict(desc, got=list(res)))
        except TypeError as e:
            out = 'error type-error'
            report('Protocol.diff/patch reject a Protocol argument', psize,
                   f'Protocol(files_to_proto({yours!r})).diff(Protocol(files_to_proto({theirs!r}))) raises TypeError: {e} '
                   '(and so does .patch() on the Protocol that diff() returns)', dict(desc, got=f'TypeError: {e}'))
        except Exception as e:  # noqa
            out = f'error other:{type(e).__name__}'
            report('yours.patch(yours.diff(theirs)) raises', psize,
                   f'yours={yours!r} theirs={theirs!r}: {type(e).__name__}: {str(e)[:120]}', dict(desc, got=f'{type(e).__name__}: {e}'))
        scripts = []
        ok = True
        for nm, t in want:
            old = dict(yours).get(nm, '')
            s = parse_script(make_patch(old, t, nm, 3 if ctxsize is None else ctxsize), old, nm)
            ok = ok and s is not None
            scripts.append((nm, s))
        if ok:
            lines.append(' '.join(['protocol'] + [x for nm, t in yours for x in ('Y', hx(nm), hx(t))]
                                  + [x for nm, s in scripts for x in [';', 'T', hx(nm)] + script_tokens(s)]))
            post.append(('protocol', desc, out))
        # (2) through callable stand-ins (works on every tree): the file-wise logic itself
        try:
            res2 = p1.patch(Query(p1.diff(Query(p2), **kw)))
            if list(res2) != want or res2.hash() != p2.hash():
                report('yours.patch(yours.diff(theirs)) != theirs', psize,
                       f'yours={yours!r} theirs={theirs!r}: patched files {list(res2)!r} (arguments wrapped in callables)', dict(desc, got=list(res2)))
        except Exception as e:  # noqa
            report('yours.patch(yours.diff(theirs)) raises', psize,
                   f'yours={yours!r} theirs={theirs!r}: {type(e).__name__}: {str(e)[:120]} (arguments wrapped in callables)',
                   dict(desc, got=f'{type(e).__name__}: {e}'))

    model = ctx.model(lines)
    if model is not None:
        for (stream, desc, impl), m in zip(post, model):
            if impl != m and m != 'error unrecognised-source':   # (the translator obligation already reports an unrecognised source)
                ctx.mismatch(stream, desc, impl[:400], m[:400])
    for key, (_, what, rep) in sorted(worst.items(), key=lambda kv: kv[1][0]):
        ctx.violation(key, what, rep)
