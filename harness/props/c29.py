"""C29 — chain-history search.  The real helpers of pytezos.rpc.search are run over piecewise-constant histories
(`get` is a recording closure, `equals` is `==`); observable = the returned list (or error class) and the sequence
of levels `get` was called on.  Oracle = linear scan for the change points."""
import bisect as _bisect
import itertools
import logging
import sys

from translator import extract

PROP = 'C29'

ERR = {'TypeError': 'error type-error', 'RecursionError': 'error recursion', 'ValueError': 'error value-error'}


class Hist:
    """value at level 0 and the (level, value) change points above it; constant after the last one"""

    def __init__(self, v0, cps):
        self.v0, self.cps = v0, list(cps)
        self.levels = [l for l, _ in self.cps]

    def __call__(self, level):
        i = _bisect.bisect_right(self.levels, level)
        return self.v0 if i == 0 else self.cps[i - 1][1]

    def text(self):
        return ' '.join([str(self.v0)] + [f'{l}:{v}' for l, v in self.cps])

    def table(self, lo, hi):
        return [self(l) for l in range(lo, hi + 1)]


def no_return(h, lo, hi):
    seen, prev = set(), object()
    for l in range(lo, hi + 1):
        v = h(l)
        if v != prev:
            if v in seen:
                return False
            seen.add(v)
            prev = v
    return True


def expected_changes(h, last, head):
    """the property's own statement: every level in (last, head] whose value differs from the level below"""
    return [(l, h(l)) for l in range(last + 1, head + 1) if h(l) != h(l - 1)]


def run_impl(op, args, h):
    from pytezos.rpc import search
    probes = []

    def get(level):
        probes.append(level)
        return h(level)

    def eq(x, y):
        return x == y

    try:
        if op == 'bisect':
            head, last, pred = args
            l, v = search.find_state_change(head, last, get, eq, pred)
            res, out = (l, v), f'{l}:{v}'
        elif op == 'walk':
            head, last, hv, lv = args
            res = list(search.walk_state_change_interval(head, last, get, eq, hv, lv))
            out = ' '.join(f'{l}:{v}' for l, v in res)
        elif op == 'intervals':
            head, last, step = args
            res = list(search.find_state_change_intervals(head, last, get, eq, step))
            out = ' '.join(':'.join(map(str, t)) for t in res)
        elif op == 'changes':
            head, last, step = args
            res = list(search.find_state_changes(head, last, get, eq, step))
            out = ' '.join(f'{l}:{v}' for l, v in res)
        elif op == 'changesd':
            head, last = args
            res = list(search.find_state_changes(head, last, get, eq))
            out = ' '.join(f'{l}:{v}' for l, v in res)
        else:
            raise AssertionError(op)
    except (TypeError, RecursionError, ValueError) as e:
        return None, ERR[type(e).__name__], probes
    return res, f'ok {out} | {" ".join(map(str, probes))}', probes


class _Capture(logging.Handler):
    """formats every record the helpers log at DEBUG level; a malformed lazy format string shows up here"""

    def __init__(self):
        super().__init__(logging.DEBUG)
        self.n, self.bad = 0, []

    def emit(self, record):
        self.n += 1
        try:
            record.getMessage()
        except RecursionError:   # emitted from inside the unbounded recursion of a degenerate bisect: not a format error
            pass
        except Exception as e:  # noqa
            if len(self.bad) < 3:
                self.bad.append(f'{record.msg!r} % {record.args!r}: {type(e).__name__}')


def monotone_histories(n):
    """all histories over n+1 consecutive levels up to renaming of values (labels 0,1,2… in order of appearance)"""
    for bits in itertools.product((0, 1), repeat=n):
        yield [i + 1 for i, b in enumerate(bits) if b]


def run(ctx):
    ctx.prepare_lean(extract.generate(PROP))
    quick = ctx.tier == 'quick'
    rng = ctx.rng
    ex_n = 7 if quick else 12
    n_random = 24 if quick else 320
    ctx.extra['rule'] = (
        f'histories = piecewise-constant value over levels last..head; exhaustive: every placement of change points on ranges 1..{ex_n} '
        f'(values renamed 0,1,2,…), every step 1..range+5, two base offsets; random: {n_random} histories with range <= 300 and <= 6 change '
        'points (distinct random values), every step 1..range+5 and the default step; each history also through find_state_change, '
        'walk_state_change_interval and find_state_change_intervals; plus out-of-domain histories (value returns) and head <= last, step 0 '
        'for the correspondence only.  non-trivial = in-domain case with at least one change point in (last, head]')
    ctx.extra['exhaustive_range'] = ex_n
    ctx.assumptions += ['`equals` is Python `==` on ints (a decidable equality in the model)',
                        'block levels are non-negative integers; `get` is a pure function of the level']

    cases = []   # (op, args, Hist, in_domain)

    def add_history(h, last, head, steps, in_domain=True):
        for s in steps:
            cases.append(('changes', (head, last, s), h, in_domain))
        cases.append(('intervals', (head, last, steps[len(steps) // 2]), h, in_domain))
        cases.append(('walk', (head, last, h(head), h(last)), h, in_domain))
        cases.append(('bisect', (head, last, h(last)), h, in_domain and h(head) != h(last)))

    # exhaustive small histories
    for n in range(1, ex_n + 1):
        offs = [0, rng.randrange(1, 50)] if (quick or n <= 9) else [rng.choice([0, 3])]
        for cps in monotone_histories(n):
            for off in offs:
                h = Hist(0, [(off + l, i + 1) for i, l in enumerate(cps)])
                add_history(h, off, off + n, list(range(1, n + 6)))
    # random larger histories, all steps
    for _ in range(n_random):
        span = rng.choice([rng.randrange(1, 40), rng.randrange(40, 301), 300, rng.randrange(100, 301)])
        last = rng.choice([0, 0, 1, rng.randrange(0, 1000)])
        head = last + span
        k = rng.randrange(0, min(6, span) + 1)
        levels = sorted(rng.sample(range(last + 1, head + 1), k))
        if levels and rng.random() < 0.4:   # put a change right above `last` / at `head`
            levels[0] = last + 1
        if levels and rng.random() < 0.3:
            levels[-1] = head
        levels = sorted(set(levels))
        vals = rng.sample(range(0, 50), len(levels) + 1)
        h = Hist(vals[0], list(zip(levels, vals[1:])))
        add_history(h, last, head, list(range(1, span + 6)))
        cases.append(('changesd', (head, last), h, True))
    # default step over longer ranges
    for _ in range(20 if quick else 300):
        span = rng.randrange(1, 1200)
        last = rng.randrange(0, 500)
        levels = sorted(set(rng.sample(range(last + 1, last + span + 1), min(span, rng.randrange(0, 7)))))
        vals = rng.sample(range(0, 50), len(levels) + 1)
        cases.append(('changesd', (last + span, last), Hist(vals[0], list(zip(levels, vals[1:]))), True))
    # correspondence only: the value returns; degenerate ranges; step 0
    for _ in range(150 if quick else 3000):
        span = rng.randrange(1, 60)
        last = rng.randrange(0, 20)
        head = last + span
        levels = sorted(set(rng.sample(range(last + 1, head + 1), min(span, rng.randrange(1, 8)))))
        vals = [rng.randrange(0, 3)]
        for _l in levels:
            vals.append(rng.choice([v for v in range(0, 4) if v != vals[-1]]))
        h = Hist(vals[0], list(zip(levels, vals[1:])))
        dom = no_return(h, last, head)
        kind = rng.randrange(6)
        if kind <= 2:
            cases.append(('changes', (head, last, rng.randrange(1, span + 3)), h, dom))
        elif kind == 3:
            cases.append(('bisect', (head, last, rng.choice([h(last), h(head), 7])), h, False))
        elif kind == 4:
            cases.append(('walk', (head, last, rng.choice([h(head), h(last)]), h(last)), h, False))
        else:
            cases.append(('intervals', (head, last, rng.randrange(1, span + 3)), h, False))
    for head, last in [(5, 5), (3, 7), (0, 0), (9, 9)]:
        h = Hist(0, [(4, 1), (8, 2)])
        cases.append(('changes', (head, last, 2), h, True))        # empty range: nothing to report
        cases.append(('bisect', (head, last, h(last)), h, False))   # the real code recurses without bound
        cases.append(('intervals', (head, last, 1), h, False))
        cases.append(('walk', (head, last, h(head), h(last)), h, False))
    cases.append(('changes', (10, 0, 0), Hist(0, [(4, 1)]), False))    # range() step 0
    cases.append(('intervals', (10, 0, 0), Hist(0, [(4, 1)]), False))

    lines = [f'{op} {" ".join(map(str, args))} ; {h.text()}' for op, args, h, _ in cases]
    model = ctx.model(lines)

    cap = _Capture()
    plog = logging.getLogger('pytezos')
    old_level, old_prop = plog.level, plog.propagate
    plog.addHandler(cap)
    plog.setLevel(logging.DEBUG)
    plog.propagate = False
    worst = {}   # key -> (size, what, replay)

    def report(key, size, what, replay):
        if key not in worst or size < worst[key][0]:
            worst[key] = (size, what, replay)

    try:
        for idx, (op, args, h, dom) in enumerate(cases):
            head, last = args[0], args[1]
            if head <= last:      # degenerate range: the real bisect recurses until RecursionError — keep that cheap
                limit = sys.getrecursionlimit()
                plog.setLevel(logging.WARNING)
                sys.setrecursionlimit(300)
                try:
                    res, out, probes = run_impl(op, args, h)
                finally:
                    sys.setrecursionlimit(limit)
                    plog.setLevel(logging.DEBUG)
            else:
                res, out, probes = run_impl(op, args, h)
            exp = expected_changes(h, last, head)
            ctx.case({'op': op, 'args': list(args), 'history': h.text()}, nontrivial=bool(dom and exp))
            ctx.count('op', op)
            ctx.count('domain', 'no-return' if dom else 'correspondence-only')
            if op in ('changes', 'changesd'):
                ctx.count('change points', len(exp))
            if model is not None and out != model[idx] and model[idx] != 'error unrecognised-source':
                ctx.mismatch(op, {'line': lines[idx]}, out, model[idx])
            if not dom:
                continue
            size = (head <= last, not exp, ('changes', 'changesd', 'bisect', 'walk', 'intervals').index(op), head - last, len(exp), args[2] if op == 'changes' else 0, idx)
            table = h.table(last, head) if head - last <= 40 else h.text()
            rep = {'op': op, 'head': head, 'last': last, 'values_last_to_head': table}
            if op in ('changes', 'changesd', 'walk'):
                if op == 'changes':
                    rep['step'] = args[2]
                if op == 'changes':
                    call = f'find_state_changes(head={head}, last={last}, step={args[2]})'
                elif op == 'changesd':
                    call = f'find_state_changes(head={head}, last={last})'
                else:
                    call = f'walk_state_change_interval(head={head}, last={last}, head_value={args[2]}, last_value={args[3]})'
                if res is None:
                    key = 'logging-format-typeerror' if out == ERR['TypeError'] else f'{op}-raises-{out.split()[-1]}'
                    report(key, size, f'{call} over values {table} raises {out.split()[-1]}, expected {exp}', dict(rep, got=out, expected=exp))
                elif res != exp:
                    rep.update(got=res, expected=exp)
                    got_set = set(res)
                    missing = [c for c in exp if c not in got_set]
                    extra = [c for c in res if c not in set(exp)]
                    what = f'{call} over values {table} returns {res}, expected {exp}'
                    classified = False
                    if op != 'walk' and missing and not extra:
                        lows = [l for l in probes if l > last]
                        low = min(lows) if lows else head
                        if all(l <= low for l, _ in missing) and last not in probes:
                            report('tail-interval-missed', size, what + f' (no get({last}); lowest level probed {low})', rep)
                            classified = True
                    kept = [c for c in res if c in set(exp)]
                    if not extra and kept != sorted(kept):
                        report('descending-interval-order', size, what, rep)
                        classified = True
                    if not classified:
                        report(f'wrong-result {op} head={head} last={last} history={h.text()}', size, what, rep)
            elif op == 'bisect':
                want = exp[0] if exp else None
                call = f'find_state_change(head={head}, last={last}, pred_value={args[2]})'
                if res is None:
                    key = 'logging-format-typeerror' if out == ERR['TypeError'] else f'bisect-raises-{out.split()[-1]}'
                    report(key, size, f'{call} over values {table} raises {out.split()[-1]}, expected {want}', dict(rep, got=out, expected=want))
                elif res != want:
                    report(f'wrong-result bisect head={head} last={last} history={h.text()}', size,
                           f'{call} over values {table} returns {res}, expected {want}', dict(rep, got=res, expected=want))
    finally:
        plog.removeHandler(cap)
        plog.setLevel(old_level)
        plog.propagate = old_prop
    for key, (_, what, rep) in sorted(worst.items(), key=lambda kv: kv[1][0]):
        ctx.violation(key, what, rep)
    ctx.obligation('logging statements of the helpers format cleanly at DEBUG level', not cap.bad,
                   '; '.join(cap.bad) if cap.bad else f'{cap.n} records formatted')
    ctx.extra['get_calls_compared'] = 'the full sequence of levels passed to get() is part of every compared output'
