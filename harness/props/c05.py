"""C05 — Micheline binary encoding.  Streams:
  forge      random trees: real forge_micheline vs Lean mirror; oracle: unforge(forge e) == e, injectivity
  unforge    valid encodings and their mutants: real unforge_micheline vs Lean mirror vs Lean Spec.decode;
             oracle: an independent strict Python decoder (Tezos data-encoding style) — whatever it rejects
             (outside the stated don't-care classes) must be rejected by the implementation."""
from harness import mich
from translator import extract

PROP = 'C05'


class Reject(Exception):
    pass


class DontCare(Exception):
    """input in a class where Tezos' behaviour is not asserted by the check (see DESIGN §5 C05)"""


def spec_decode(bs, prim_of_tag):
    """independent strict decoder; raises Reject / DontCare"""
    def arr(b):
        if len(b) < 4:
            raise Reject('short length prefix')
        n = int.from_bytes(b[:4], 'big')
        if len(b) < 4 + n:
            raise Reject('length prefix overruns')
        return b[4:4 + n], b[4 + n:]

    def zint(b):
        if not b:
            raise Reject('eof')
        first = b[0]
        neg = bool(first & 0x40)
        val = first & 0x3f
        shift, i = 6, 1
        more = bool(first & 0x80)
        while more:
            if i >= len(b):
                raise Reject('eof in int')
            c = b[i]
            more = bool(c & 0x80)
            if not more and c == 0:
                raise Reject('trailing zero (non-minimal)')
            val |= (c & 0x7f) << shift
            shift += 7
            i += 1
        if neg and val == 0:
            raise DontCare('negative zero')
        return (-val if neg else val), b[i:]

    def annots(b):
        v, r = arr(b)
        try:
            s = v.decode()
        except UnicodeDecodeError:
            raise DontCare('non-utf8 annotation')
        return (s.split(' ') if s else None), r

    def all_nodes(b):
        out = []
        while b:
            x, b = node(b)
            out.append(x)
        return out

    def prim(b):
        if not b:
            raise Reject('eof')
        if b[0] not in prim_of_tag:
            raise Reject('unknown primitive tag')
        return prim_of_tag[b[0]], b[1:]

    def mk(p, args, an):
        m = {'prim': p}
        if args:
            m['args'] = args
        if an:
            m['annots'] = an
        return m

    def node(b):
        if not b:
            raise Reject('eof')
        t, b = b[0], b[1:]
        if t == 0:
            v, r = zint(b)
            return {'int': str(v)}, r
        if t == 1:
            v, r = arr(b)
            try:
                return {'string': v.decode()}, r
            except UnicodeDecodeError:
                raise DontCare('non-utf8 string')
        if t == 2:
            v, r = arr(b)
            return all_nodes(v), r
        if 3 <= t <= 8:
            p, b = prim(b)
            args = []
            for _ in range((t - 3) // 2):
                a, b = node(b)
                args.append(a)
            an = None
            if (t - 3) % 2:
                an, b = annots(b)
            return mk(p, args, an), b
        if t == 9:
            p, b = prim(b)
            v, b = arr(b)
            args = all_nodes(v)
            an, b = annots(b)
            return mk(p, args, an), b
        if t == 10:
            v, r = arr(b)
            return {'bytes': v.hex()}, r
        raise Reject('unknown node tag')

    x, rest = node(bs)
    if rest:
        raise Reject('trailing bytes')
    return x


def mutate(rng, bs):
    b = bytearray(bs)
    k = rng.randrange(9)
    if k == 0 and len(b) > 1:
        return bytes(b[:rng.randrange(1, len(b))]), 'truncate'
    if k == 1:
        return bytes(b) + rng.bytes_(rng.choice([1, 1, 2, 5])), 'extend'
    if k == 2 and b:
        i = rng.randrange(len(b))
        b[i] ^= 1 << rng.randrange(8)
        return bytes(b), 'bitflip'
    if k == 3 and b:
        i = rng.randrange(len(b))
        b[i] = rng.choice([0, 1, 2, 9, 10, 11, 0x80, 0x9e, 0x9f, 0xee, 0xff])
        return bytes(b), 'byteset'
    if k == 4:
        # re-encode an int non-minimally: find a `00 xx` int node is hard in general; append a padded int node in a sequence
        v = rng.big_int(64)
        from pytezos.michelson.forge import forge_int
        enc = bytearray(forge_int(v))
        enc[-1] |= 0x80
        enc += b'\x00' if rng.random() < 0.7 else b'\x80\x00'
        body = bytes(b) + b'\x00' + bytes(enc)
        return b'\x02' + len(body).to_bytes(4, 'big') + body, 'nonminimal-int'
    if k == 5 and len(b) >= 5:
        # perturb a length prefix
        i = rng.randrange(len(b) - 3)
        n = int.from_bytes(b[i:i + 4], 'big')
        b[i:i + 4] = ((n + rng.choice([-1, 1, 2, 255])) % 2**32).to_bytes(4, 'big')
        return bytes(b), 'length'
    if k == 6:
        return b'\x03' + bytes([rng.choice([0xee, 0x9f, 0xa0, 0xff, 0x9e, 0x00])]), 'primtag'
    if k == 7 and b:
        i = rng.randrange(len(b))
        del b[i]
        return bytes(b), 'delete'
    i = rng.randrange(len(b) + 1)
    b[i:i] = rng.bytes_(1)
    return bytes(b), 'insert'


def respell(rng, m):
    """the same expression in a non-canonical but legal JSON spelling: `"annots": []` / `"args": []` present where the
    canonical shape omits the key (mich.normalize(respell(m)) == m)"""
    if isinstance(m, list):
        return [respell(rng, x) for x in m]
    if 'prim' not in m:
        return dict(m)
    out = {'prim': m['prim']}
    if 'args' in m:
        out['args'] = [respell(rng, a) for a in m['args']]
    elif rng.random() < 0.5:
        out['args'] = []
    if 'annots' in m:
        out['annots'] = list(m['annots'])
    elif rng.random() < 0.6:
        out['annots'] = []
    return out


def run(ctx):
    st = extract.generate(PROP)
    ctx.prepare_lean(st)
    from pytezos.michelson.forge import forge_micheline, unforge_micheline
    from pytezos.michelson.tags import prim_tags

    protocol_prims = sorted(k for k, v in prim_tags.items() if v != b'\xee')
    prim_of_tag = {prim_tags[k][0]: k for k in protocol_prims}
    ctx.extra['rule'] = ('random Micheline trees over all protocol primitives (depth<=5, arities 0..5, annotations, ints up to 4096 bits) '
                         'and byte-level mutants of their encodings (truncate/extend/bitflip/byteset/non-minimal int/length/primtag/delete/insert); '
                         'non-trivial = tree with >= 3 nodes, or a mutant')
    ctx.assumptions += ['Spec.decode / the Python strict decoder are my transcription of the Tezos data-encoding reader',
                        "don't-care inputs (not asserted either way): negative zero 0x40, non-UTF-8 strings/annotations",
                        'UTF-8 conversion uses Lean String.toUTF8/fromUTF8? (no theorem), exercised by this run']
    n_trees = 1500 if ctx.tier == 'quick' else 60000
    trees = []
    for i in range(n_trees):
        depth = ctx.rng.choice([1, 2, 3, 4, 5])
        trees.append(mich.random_mich(ctx.rng, protocol_prims, depth))
    # ---- forge stream
    forged, lines = [], []
    seen = {}
    for t in trees:
        try:
            b = forge_micheline(t)
        except Exception as e:
            b = None
        forged.append(b)
        lines.append('forge ' + mich.to_line(t))
    model = ctx.model(lines)
    for i, (t, b) in enumerate(zip(trees, forged)):
        ctx.case({'stream': 'forge', 'tree': t if mich.size(t) < 12 else f'<{mich.size(t)} nodes>'}, nontrivial=mich.size(t) >= 3)
        ctx.count('tree_size', min(mich.size(t) // 5 * 5, 50))
        impl = b.hex() if b else ('-' if b == b'' else 'err')
        if b is None:
            ctx.violation(f'forge-raises:{mich.to_line(t)[:80]}', f'forge_micheline raised on a well-formed tree {t}', {'tree': t})
            continue
        try:
            back = unforge_micheline(b)
            ok = mich.normalize(back) == t
        except Exception as e:
            back, ok = f'{type(e).__name__}: {e}', False
        if not ok:
            ctx.violation(f'roundtrip:{b.hex()[:60]}', f'unforge(forge e) != e for e={t}: got {back}', {'tree': t, 'bytes': b.hex(), 'back': back})
        if b in seen and seen[b] != t:
            ctx.violation(f'collision:{b.hex()[:60]}', f'two different trees forge to {b.hex()}', {'a': t, 'b': seen[b]})
        seen[b] = t
        if model is not None and model[i] != impl:
            ctx.mismatch('forge', t, impl, model[i])
    # ---- the same trees in a non-canonical JSON spelling (empty `annots` / `args` lists present): same bytes demanded
    n_spell = 0
    for i, (t, b) in enumerate(zip(trees, forged)):
        if b is None or i % 3 or mich.size(t) < 2:
            continue
        sp = respell(ctx.rng, t)
        if sp == t:
            continue
        n_spell += 1
        ctx.case({'stream': 'forge-respelled', 'tree': sp if mich.size(t) < 12 else f'<{mich.size(t)} nodes>'}, nontrivial=True)
        try:
            b2 = forge_micheline(sp)
        except Exception as e:
            b2 = f'{type(e).__name__}: {e}'
        if b2 != b:
            # shrink: respell one node at a time is overkill; report the smallest offending subtree
            def smallest(u, su):
                if isinstance(u, list):
                    kids = list(zip(u, su))
                elif 'prim' in u:
                    kids = list(zip(u.get('args', []), su.get('args', [])))
                else:
                    kids = []
                for a, sa in kids:
                    try:
                        bad = forge_micheline(sa) != forge_micheline(a)
                    except Exception:
                        bad = True
                    if bad:
                        return smallest(a, sa)
                return u, su
            u, su = smallest(t, sp)
            ctx.violation(f'forge-depends-on-json-spelling:{mich.to_line(u)[:60]}',
                          f'forge_micheline({su}) = {forge_micheline(su).hex() if not isinstance(b2, str) else b2}, but the same expression spelled {u} forges to {forge_micheline(u).hex()} '
                          '(an empty "annots"/"args" list is the absence of annotations/arguments)', {'tree': su, 'canonical': u})
    ctx.extra['respelled_trees'] = n_spell
    # ---- unforge stream: valid encodings + mutants
    inputs = []
    for b in forged:
        if b is None:
            continue
        inputs.append((b, 'valid'))
        for _ in range(3 if ctx.tier == 'quick' else 4):
            inputs.append(mutate(ctx.rng, b))
    # hand-picked corpus of historically interesting encodings
    for h, why in [('008100', 'nonminimal-int'), ('00c100', 'nonminimal-int'), ('0080808000', 'nonminimal-int'), ('03ee', 'primtag'),
                   ('0040', 'negzero'), ('0000', 'valid'), ('', 'truncate'), ('0200000000', 'valid'), ('020000000100', 'truncate'),
                   ('02000000020000', 'valid'), ('0200000001000000', 'length'), ('0b', 'nodetag'), ('0a00000000', 'valid'),
                   ('0900000000' , 'primtag'), ('090b0000000000000000', 'valid'), ('040b00000000', 'valid'), ('0100000001ff', 'nonutf8')]:
        inputs.append((bytes.fromhex(h), why))
    lines = []
    for b, _ in inputs:
        lines.append('unforge ' + (b.hex() or '-'))
        lines.append('spec ' + (b.hex() or '-'))
    model = ctx.model(lines)
    n_rej = 0
    for i, (b, why) in enumerate(inputs):
        ctx.case({'stream': 'unforge', 'kind': why, 'bytes': b.hex() if len(b) < 40 else f'<{len(b)} bytes>'}, nontrivial=True)
        ctx.count('mutation', why)
        try:
            got = mich.normalize(unforge_micheline(b))
            impl = mich.to_line(got)
        except Exception as e:
            got, impl = None, 'err'
        try:
            want = spec_decode(b, prim_of_tag)
            verdict = 'accept'
        except Reject as e:
            want, verdict = str(e), 'reject'
        except DontCare as e:
            want, verdict = str(e), 'dontcare'
        ctx.count('spec_verdict', verdict)
        ctx.count('impl_verdict', 'accept' if got is not None else 'reject')
        if verdict == 'reject' and got is not None:
            ctx.violation(f'accepts-invalid[{want}]', f'unforge_micheline accepts {b.hex()} ({want}) -> {got}', {'bytes': b.hex(), 'decoded': got, 'why': want})
        if verdict == 'accept' and got is not None and got != mich.normalize(want):
            ctx.violation(f'decodes-differently:{b.hex()[:60]}', f'{b.hex()} decodes to {got}, expected {want}', {'bytes': b.hex()})
        if verdict == 'accept' and got is None:
            # Tezos accepts, pytezos rejects: not part of the strictness claim unless it is a canonical encoding
            if why == 'valid':
                ctx.violation(f'rejects-valid:{b.hex()[:60]}', f'unforge_micheline rejects the valid encoding {b.hex()}', {'bytes': b.hex()})
        if model is not None:
            if model[2 * i] != impl:
                ctx.mismatch('unforge', b.hex(), impl, model[2 * i])
            # the model's own refinement claim, re-checked dynamically: Impl accepts => Spec accepts the same
            if model[2 * i] != 'err' and model[2 * i + 1] != model[2 * i]:
                ctx.mismatch('model:impl-vs-spec', b.hex(), model[2 * i], model[2 * i + 1])
