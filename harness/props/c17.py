"""C17 — type annotations do not change execution or serialization.

Streams
  helpers   random annotated comb values: the real `PairType.iter_comb / access_comb / update_comb / unpairn_comb /
            from_comb / to_micheline_value('optimized') / pack` and the instructions GET n / UPDATE n / UNPAIR n / PAIR n
            (through `Interpreter.execute` on a preset stack) and short comb programs  vs  the Lean mirror (`Impl.Comb`).
            Oracles on the real code: (a) the annotation-blind Michelson reference (Python re-statement, below) wherever
            it is defined; (b) metamorphic — the same operation on the same value built from the annotation-free type.
            GET 0 / UPDATE 0 are exercised on pairs and on non-pairs (atoms, options, ors, lists, maps), annotated and not, in every
            element/value combination; the reference there is: GET 0 = identity on any type, UPDATE 0 = the new element, any types.
  programs  well-typed-by-construction programs (harness/gen_c17.py) run three times through `Interpreter().execute`:
            as generated, randomly re-annotated, all annotations stripped.  Failure-or-not, final stack (optimized
            Micheline + type structure) and PACK bytes of every packable item must coincide.  No model needed.
"""
import json

from harness import gen_c17 as G
from harness import mich
from translator import extract

PROP = 'C17'


# ------------------------------------------------------------------------------------- real values <-> token trees
def tree_of(v):
    """runtime value -> ('p', field, type, l, r) … with the annotations pytezos keeps on the value's class"""
    from pytezos.michelson.types import ListType, OptionType, OrType, PairType
    f, t = type(v).field_name, type(v).type_name
    if isinstance(v, PairType):
        return ('p', f, t, tree_of(v.items[0]), tree_of(v.items[1]))
    if isinstance(v, OptionType):
        return ('n', f, t) if v.item is None else ('s', f, t, tree_of(v.item))
    if isinstance(v, OrType):
        return ('l', f, t, tree_of(v.items[0])) if v.is_left() else ('r', f, t, tree_of(v.items[1]))
    if isinstance(v, ListType):
        return ('q', f, t, [tree_of(x) for x in v.items])
    try:
        m = mich.normalize(v.to_micheline_value(mode='optimized'))
    except Exception:  # a leaf the real code cannot render: an observable outcome, not a harness error
        m = {'prim': 'RENDER_ERROR'}
    return ('a', f, t, m)


def _ann(x):
    return '~' if x is None else ('-' if x == '' else x.encode().hex())


def tokens(tr):
    k = tr[0]
    head = [k if k != 'q' else f'q{len(tr[3])}', _ann(tr[1]), _ann(tr[2])]
    if k == 'a':
        return head + mich.to_tokens(tr[3])
    if k == 'p':
        return head + tokens(tr[3]) + tokens(tr[4])
    if k == 'n':
        return head
    if k in 'slr':
        return head + tokens(tr[3])
    out = head
    for x in tr[3]:
        out = out + tokens(x)
    return out


def line_vals(trs):
    out = ['ok', str(len(trs))]
    for t in trs:
        out += tokens(t)
    return ' '.join(out)


def strip(tr):
    """annotation-free form (nested tuples, atoms as canonical JSON text)"""
    k = tr[0]
    if k == 'a':
        return ('a', json.dumps(tr[3], sort_keys=True))
    if k == 'p':
        return ('p', strip(tr[3]), strip(tr[4]))
    if k == 'n':
        return ('n',)
    if k in 'slr':
        return (k, strip(tr[3]))
    return ('q', tuple(strip(x) for x in tr[3]))


# ------------------------------------------------------------------------------------- the Michelson reference (annotation-blind)
def ref_getn(n, v):
    if n == 0:
        return v
    if v[0] != 'p':
        return None
    return v[1] if n == 1 else ref_getn(n - 2, v[2])


def ref_updaten(n, e, v):
    if n == 0:
        return e
    if v[0] != 'p':
        return None
    if n == 1:
        return ('p', e, v[2])
    r = ref_updaten(n - 2, e, v[2])
    return None if r is None else ('p', v[1], r)


def ref_unpairn(n, v):
    if n < 2:
        return None
    out = []
    for _ in range(n - 1):
        if v[0] != 'p':
            return None
        out.append(v[1])
        v = v[2]
    return out + [v]


def ref_pairn(n, st):
    if n < 2 or len(st) < n:
        return None
    t = st[n - 1]
    for x in reversed(st[:n - 1]):
        t = ('p', x, t)
    return [t] + st[n:]


def ref_layout(v):
    """optimized Micheline as Octez' unparse_pair builds it (incrementally, from the rendered right component)"""
    k = v[0]
    if k == 'a':
        return json.loads(v[1])
    if k == 'n':
        return {'prim': 'None'}
    if k in 'slr':
        return {'prim': {'s': 'Some', 'l': 'Left', 'r': 'Right'}[k], 'args': [ref_layout(v[1])]}
    if k == 'q':
        return [ref_layout(x) for x in v[1]]
    l, r = ref_layout(v[1]), ref_layout(v[2])
    r_pair = v[2][0] == 'p'
    rr_pair = r_pair and v[2][2][0] == 'p'
    if r_pair and isinstance(r, list):
        return [l] + r
    if rr_pair and isinstance(r, dict) and r.get('prim') == 'Pair' and len(r['args']) == 2 and isinstance(r['args'][1], dict) \
            and r['args'][1].get('prim') == 'Pair' and len(r['args'][1].get('args', [])) == 2:
        return [l, r['args'][0], r['args'][1]['args'][0], r['args'][1]['args'][1]]
    return {'prim': 'Pair', 'args': [l, r]}


# ------------------------------------------------------------------------------------- running the real code
class Real:
    def __init__(self):
        from pytezos.michelson.repl import Interpreter
        self.I = Interpreter()
        self.type_failures = []

    def value(self, ty, val):
        from pytezos.michelson.types.base import MichelsonType
        try:
            return MichelsonType.match(ty).from_micheline_value(val)
        except Exception as e:  # noqa: BLE001
            st = G.strip_type(ty)
            if st == ty:
                raise
            # the annotated type is refused where the same type without annotations is accepted: a failure that depends on annotations;
            # recorded (reported by run), the round goes on with the annotation-free value
            v = MichelsonType.match(st).from_micheline_value(val)
            self.type_failures.append((ty, val, f'{type(e).__name__}: {e.args[-1] if e.args else ""}'))
            return v

    def on_stack(self, vals, code):
        """execute `code` on a stack preset to vals (top first) -> list of trees | None on failure"""
        from pytezos.michelson.stack import MichelsonStack
        self.I.reset()
        self.I.stack = MichelsonStack.from_items(list(vals))
        r = self.I.execute(code)
        if r.error is not None:
            return None
        return [tree_of(x) for x in self.I.stack.items]

    def program(self, text):
        """observation of a whole program run"""
        self.I.reset()
        r = self.I.execute(text)
        if r.error is not None:
            return ('fail',)
        obs = []
        for x in self.I.stack.items:
            try:
                m = strip_annots(mich.normalize(x.to_micheline_value(mode='optimized')))
            except Exception:
                m = {'prim': 'RENDER_ERROR'}
            try:
                # a lambda value legitimately carries the annotations written in its code
                packed = x.pack().hex() if x.is_packable() and 'lambda' not in json.dumps(x.as_micheline_expr()) else None
            except Exception as e:  # noqa
                packed = 'pack-raises'
            obs.append((json.dumps(m, sort_keys=True), json.dumps(G.strip_type(x.as_micheline_expr()), sort_keys=True), packed))
        return ('ok', tuple(obs))


def strip_annots(m):
    if isinstance(m, list):
        return [strip_annots(x) for x in m]
    if 'prim' in m:
        d = {'prim': m['prim']}
        if m.get('args'):
            d['args'] = [strip_annots(a) for a in m['args']]
        return d
    return m


def minimal_witness(real, key):
    """smallest annotated comb on which the given helper family depends on the annotation: nat leaves 0,1,2,…, one annotated
    inner pair node, smallest n.  Returns (what, replay) or None."""
    fam = {'iter_comb': None, 'GET n': 'GET {}', 'UPDATE n': 'UPDATE {}', 'UNPAIR n': 'UNPAIR {}', 'PACK': None}
    if key not in fam:
        return None
    for m in (3, 4, 5):
        for j in range(0, m - 1):
            for ann in ((':x',) if j == 0 else ('%x', ':x')):
                sh = G.t_pairn([('nat',)] * m)
                ty = G.plain(sh)
                node = ty
                for _ in range(j):
                    node = node['args'][1]
                node['annots'] = [ann]
                val = None
                for i in reversed(range(m)):
                    val = {'int': str(i)} if val is None else {'prim': 'Pair', 'args': [{'int': str(i)}, val]}
                v, v0 = real.value(ty, val), real.value(G.plain(sh), val)
                tys, vs = G.fmt_type(ty, True), G.fmt_value(val, True)
                if key == 'iter_comb':
                    a, b = [strip(tree_of(x)) for x in v.iter_comb()], [strip(tree_of(x)) for x in v0.iter_comb()]
                    if a != b:
                        return (f'list(iter_comb()) of {vs} : {tys} has {len(a)} items, {len(b)} for the unannotated type',
                                {'type': tys, 'value': vs, 'op': 'iter_comb', 'annotated': len(a), 'unannotated': len(b)})
                    continue
                if key == 'PACK':
                    a, b = guarded(lambda: v.pack().hex()), guarded(lambda: v0.pack().hex())
                    if a != b:
                        return (f'PUSH ({tys}) ({vs}) ; PACK = 0x{a}, with the unannotated type 0x{b}',
                                {'type': tys, 'value': vs, 'op': 'PACK', 'packed': a, 'packed_unannotated': b})
                    continue
                for n in range(0, 2 * m + 1):
                    code = fam[key].format(n)
                    if key == 'UPDATE n':
                        e = real.value({'prim': 'nat'}, {'int': '9'})
                        a, b = real.on_stack([e, v], code), real.on_stack([real.value({'prim': 'nat'}, {'int': '9'}), v0], code)
                        code = 'PUSH nat 9 ; ' + code
                    else:
                        a, b = real.on_stack([v], code), real.on_stack([v0], code)
                    sa = None if a is None else [strip(x) for x in a]
                    sb = None if b is None else [strip(x) for x in b]
                    if sa != sb:
                        show = lambda r: 'fails' if r is None else 'stack ' + ' : '.join(json.dumps(ref_layout(x)) for x in r)
                        return (f'PUSH ({tys}) ({vs}) ; {code} -> {show(sa)}; with the unannotated type -> {show(sb)}',
                                {'program': f'PUSH ({tys}) ({vs}) ; {code}', 'annotated': show(sa), 'unannotated': show(sb)})
    return None


def zkind(tr, ty):
    """histogram key: is the operand a pair, does its type carry an annotation anywhere"""
    return ('pair' if tr[0] == 'p' else 'non-pair') + ('/annotated' if type_sites(ty, []) else '/plain')


def minimal_zero_witness(real, key):
    """smallest input on which GET 0 / UPDATE 0 differs from the reference rule (GET 0 :: a : S -> a : S on any a;
    UPDATE 0 :: a : b : S -> a : S on any a, b).  Returns (what, replay) or None."""
    nat = lambda k: real.value({'prim': 'nat'}, {'int': str(k)})
    pair = lambda: real.value({'prim': 'pair', 'args': [{'prim': 'nat'}, {'prim': 'nat'}]},
                              {'prim': 'Pair', 'args': [{'int': '1'}, {'int': '2'}]})
    show = lambda r: 'fails' if r is None else 'stack ' + ' : '.join(json.dumps(ref_layout(strip(x))) for x in r)
    if key == 'GET n':
        for mk, push, want in ((lambda: [nat(5)], 'PUSH nat 5', [nat(5)]), (lambda: [pair()], 'PUSH (pair nat nat) (Pair 1 2)', [pair()])):
            got = real.on_stack(mk(), 'GET 0')
            wt = [tree_of(x) for x in want]
            if got is None or [strip(x) for x in got] != [strip(x) for x in wt]:
                return (f'{push} ; GET 0 -> {show(got)} (reference: GET 0 is the identity on any type -> {show(wt)})',
                        {'program': f'{push} ; GET 0', 'got': show(got), 'want': show(wt)})
        return None
    if key == 'UPDATE n':
        for mk, push in ((lambda: [nat(7), nat(6)], 'PUSH nat 6 ; PUSH nat 7'),
                         (lambda: [nat(7), pair()], 'PUSH (pair nat nat) (Pair 1 2) ; PUSH nat 7'),
                         (lambda: [pair(), nat(6)], 'PUSH nat 6 ; PUSH (pair nat nat) (Pair 1 2)'),
                         (lambda: [pair(), pair()], 'PUSH (pair nat nat) (Pair 1 2) ; PUSH (pair nat nat) (Pair 1 2)')):
            st = mk()
            wt = [tree_of(st[0])]
            got = real.on_stack(st, 'UPDATE 0')
            if got is None or [strip(x) for x in got] != [strip(x) for x in wt]:
                return (f'{push} ; UPDATE 0 -> {show(got)} (reference: UPDATE 0 replaces the whole value, any types -> {show(wt)})',
                        {'program': f'{push} ; UPDATE 0', 'got': show(got), 'want': show(wt)})
        return None
    return None


def guarded(f):
    try:
        return f()
    except Exception:
        return None


INSTR_TXT = {'GET': 'GET {}', 'UPDATE': 'UPDATE {}', 'PAIRN': 'PAIR {}', 'UNPAIRN': 'UNPAIR {}', 'DIG': 'DIG {}', 'DUG': 'DUG {}'}


def comb_instr(rng, depth_hint):
    k = rng.choice(['GET', 'GET', 'UPDATE', 'UPDATE', 'PAIRN', 'UNPAIRN', 'UNPAIRN', 'PAIR', 'UNPAIR', 'CAR', 'CDR', 'SWAP', 'DUP', 'DROP', 'DIG', 'DUG'])
    if k in INSTR_TXT:
        n = rng.choice([0, 1, 2, 2, 3, 3, 4, 5, 6, 7]) if k in ('GET', 'UPDATE') else rng.choice([0, 1, 2, 2, 3, 3, 4]) if k in ('PAIRN', 'UNPAIRN') else rng.randrange(0, depth_hint + 1)
        tok = {'PAIRN': 'PAIR', 'UNPAIRN': 'UNPAIR'}.get(k, k)
        return INSTR_TXT[k].format(n), f'{tok}:{n}'
    return k, k


# ------------------------------------------------------------------------------------- program stream helpers
def annot_sites(seq, out):
    for ins in seq:
        if isinstance(ins, list):
            annot_sites(ins, out)
            continue
        if ins.get('annots'):
            out.append(ins)
        tpos = G.TYPE_ARG_POS.get(ins['prim'], [])
        for i, a in enumerate(ins.get('args', [])):
            if i in tpos:
                type_sites(a, out)
            elif isinstance(a, list) and (ins['prim'] in ('IF_NONE', 'IF_LEFT', 'IF_CONS') or (ins['prim'] == 'LAMBDA' and i == 2)):
                annot_sites(a, out)
    return out


def type_sites(ty, out):
    if ty.get('annots'):
        out.append(ty)
    for a in ty.get('args', []):
        type_sites(a, out)
    return out


ENTRYPOINT_PRIMS = ('SELF', 'CONTRACT', 'EMIT', 'TRANSFER_TOKENS', 'SET_DELEGATE', 'IMPLICIT_ACCOUNT', 'ADDRESS', 'CREATE_CONTRACT', 'VIEW')


def _show(code):
    try:
        from pytezos.michelson.format import micheline_to_michelson
        return micheline_to_michelson(code, inline=True)
    except Exception:  # noqa: BLE001 — display only
        return json.dumps(code)


def shrink(real, prog, ref_obs):
    """prog differs from the stripped run: shortest such prefix, then as few annotations as possible"""
    prog = json.loads(json.dumps(prog))      # no shared sub-objects
    for k in range(1, len(prog) + 1):
        pre = prog[:k]
        if real.program(G.fmt_program(pre)) != real.program(G.fmt_program(G.reannotate(None, pre, 'strip'))):
            prog = pre
            break
    def differs(pg):
        a, z = real.program(G.fmt_program(pg)), real.program(G.fmt_program(G.reannotate(None, pg, 'strip')))
        return a != z and z[0] == 'ok'      # the annotation-free program must stay well typed

    # drop leading instructions / whole earlier pushes that the difference does not need (greedy, a few passes)
    if differs(prog):
        changed, passes = True, 0
        while changed and passes < 4:
            changed, passes = False, passes + 1
            i = 0
            while i < len(prog) - 1:
                cand = prog[:i] + prog[i + 1:]
                if differs(cand):
                    prog, changed = cand, True
                else:
                    i += 1
    for site in annot_sites(prog, []):
        saved = site.pop('annots')
        if real.program(G.fmt_program(prog)) == real.program(G.fmt_program(G.reannotate(None, prog, 'strip'))):
            site['annots'] = saved
    return prog


def run(ctx):
    st = extract.generate(PROP)
    ctx.prepare_lean(st)
    import os, sys, time
    timing = os.environ.get('VERIF_TIMING')
    if timing:
        print(f'[c17] lean prepared at {time.time() - ctx.t0:.1f}s', file=sys.stderr)
    rng = ctx.rng
    real = Real()
    quick = ctx.tier == 'quick'
    ctx.extra['rule'] = (
        'helpers: random right combs (2..6 leaves, nested pairs / option / or / list / map leaves) whose type carries random %field / :type '
        'annotations (also empty names) on every node, with GET/UPDATE/UNPAIR/PAIR n for n in and out of range and short comb programs; '
        'every round also takes a non-pair value (atom / option / or / list / map, annotated or not): GET 0 on it, UPDATE 0 of any element onto it '
        'and of it onto the comb (reference: identity / whole-value replacement on any types), GET n / UPDATE n with n >= 1 on it (must fail); '
        'programs: typed generation over PUSH/PAIR/UNPAIR/PAIR n/UNPAIR n/GET n/UPDATE n/CAR/CDR/DUP/DUP n/SWAP/DIG/DUG/DROP/PACK/UNPACK/SOME/'
        'IF_NONE/LEFT/RIGHT/IF_LEFT/CONS/NIL/IF_CONS/LAMBDA+EXEC/map GET+UPDATE (GET 0 on any top, UPDATE 0 on any two items), each run as generated, re-annotated and stripped; '
        'wide: programs of the C01/C02 generator (all modelled instruction forms) with annotations on every written type and @var on instructions vs the same program as generated (annotation-free); '
        'non-trivial = some pair type node inside a comb carries an annotation, for the non-pair operands: some type node does (helpers) / the program has >= 3 instructions and uses a comb instruction or PACK (programs)')
    ctx.assumptions += [
        'values outside pair/option/or/list (maps, sets, lambdas, tickets, scalars) are opaque leaves of the comb model, given by their optimized Micheline',
        'Spec.Comb (GET n / UPDATE n / UNPAIR n / PAIR n, Octez unparse_pair in Optimized mode) is my transcription of the Michelson reference',
        'where the reference is undefined (ill-typed n) only annotation-independence is demanded; pytezos accepting some ill-typed UPDATE n / UNPAIR n is outside C17',
        'entrypoint names and Python-object field names are excluded by the property',
        'program-level annotation-independence beyond the comb fragment is checked metamorphically on the real interpreter, not proved',
    ]

    # ================================================================= helpers stream
    n_vals = 300 if quick else 2500
    lines, impl, descs = [], [], []
    witnessed = set()

    def add(line, got, desc):
        lines.append(line)
        impl.append(got)
        descs.append(desc)

    for ci in range(n_vals):
        m = rng.choice([2, 2, 3, 3, 4, 4, 5, 6])
        leaves = [G.rand_shape(rng, rng.choice([0, 0, 1, 2]), 0.6) for _ in range(m)]
        sh = G.t_pairn(leaves)
        ty = G.annotate(rng, sh, rng.choice([0.0, 0.3, 0.6, 1.0]))
        val = G.rand_value(rng, sh)
        v = real.value(ty, val)
        v0 = real.value(G.strip_type(ty), val)
        tr = tree_of(v)
        sv = strip(tr)
        vt = ' '.join(tokens(tr))
        inner_annot = any(s.get('annots') for s in type_sites(ty, []) if s['prim'] == 'pair' and s is not ty)
        desc = {'type': G.fmt_type(ty, True), 'value': G.fmt_value(val, True)}
        ctx.count('comb_leaves', m)
        ctx.count('annotated_inner_pair', inner_annot)

        def check(op, key, got_trees, got0_trees, want, nontrivial=True, on=None, nt=None):
            """got: real result on the annotated value; got0: on the stripped type; want: reference (None = undefined);
            on / nt: description and non-triviality of the operand when it is not the comb `v` of this round"""
            d = dict(desc if on is None else on, op=op)
            ctx.case(d, nontrivial=(inner_annot if nt is None else nt) and nontrivial)
            ctx.count('op', op.split(' ')[0])
            g = None if got_trees is None else [strip(x) for x in got_trees]
            g0 = None if got0_trees is None else [strip(x) for x in got0_trees]
            ctx.count('outcome', 'fail' if g is None else 'ok')
            if g != g0 and key not in witnessed:
                witnessed.add(key)
                w = minimal_witness(real, key)
                if w is not None:
                    ctx.violation(f'annotation-dependent:{key}', w[0], w[1])
                    return
            if g != g0:
                ctx.violation(f'annotation-dependent:{key}', f'{op} on {d["value"]} : {d["type"]} -> {"fails" if g is None else "ok"}, '
                              f'but on the unannotated type -> {"fails" if g0 is None else "ok"}{"" if (g is None) != (g0 is None) else " with a different result"}',
                              {'op': op, 'type': d['type'], 'value': d['value'], 'annotated': repr(g)[:400], 'unannotated': repr(g0)[:400]})
            elif want is not None and g != want and key in ('GET n', 'UPDATE n') and op.split(' ')[1] == '0' \
                    and (key, 0) not in witnessed and minimal_zero_witness(real, key) is not None:
                witnessed.add((key, 0))
                w0 = minimal_zero_witness(real, key)
                ctx.violation(f'differs-from-reference:{key}', w0[0], w0[1])
            elif want is not None and g != want:
                ctx.violation(f'differs-from-reference:{key}', f'{op} on {d["value"]} : {d["type"]} -> {repr(g)[:200]}, Michelson reference {repr(want)[:200]}',
                              {'op': op, 'type': d['type'], 'value': d['value'], 'got': repr(g)[:400], 'want': repr(want)[:400]})

        # iter_comb
        for nodes in (0, 1):
            got = [tree_of(x) for x in v.iter_comb(include_nodes=bool(nodes))]
            got0 = [tree_of(x) for x in v0.iter_comb(include_nodes=bool(nodes))]
            add(f'iter {nodes} {vt}', line_vals(got), dict(desc, op=f'iter_comb({nodes})'))
            check(f'iter_comb({nodes})', 'iter_comb', got, got0, None)
        # GET n
        for n in sorted(set([0, 1, 2, rng.randrange(0, 2 * m + 1), rng.randrange(0, 2 * m + 1), 2 * m - 2, 2 * m - 1])):
            got, got0 = real.on_stack([v], f'GET {n}'), real.on_stack([v0], f'GET {n}')
            add(f'get {n} {vt}', 'err' if got is None else line_vals(got), dict(desc, op=f'GET {n}'))
            w = ref_getn(n, sv)
            if n == 0:
                ctx.count('zero_index', f'GET 0 on {zkind(tr, ty)} value')
            check(f'GET {n}', 'GET n', got, got0, None if w is None else [w])
        # UPDATE n
        for n in sorted(set([0, 1, 2, rng.randrange(0, 2 * m + 2), rng.randrange(0, 2 * m + 2)])):
            esh = G.rand_shape(rng, rng.choice([0, 1, 2]), 0.7)
            ety = G.annotate(rng, esh, rng.choice([0.0, 0.5, 0.5, 1.0]))
            eval_ = G.rand_value(rng, esh)
            e, e0 = real.value(ety, eval_), real.value(G.strip_type(ety), eval_)
            et = tree_of(e)
            got, got0 = real.on_stack([e, v], f'UPDATE {n}'), real.on_stack([e0, v0], f'UPDATE {n}')
            add(f'upd {n} {" ".join(tokens(et))} {vt}', 'err' if got is None else line_vals(got),
                dict(desc, op=f'UPDATE {n}', elem=G.fmt_value(eval_, True), elem_type=G.fmt_type(ety, True)))
            w = ref_updaten(n, strip(et), sv)
            if n == 0:
                ctx.count('zero_index', f'UPDATE 0 {zkind(et, ety)} elem onto {zkind(tr, ty)} value')
            check(f'UPDATE {n} [elem {G.fmt_value(eval_, True)} : {G.fmt_type(ety, True)}]', 'UPDATE n', got, got0, None if w is None else [w])
        # GET 0 / UPDATE 0 on a value that is NOT a pair (reference: GET 0 is the identity on any type, UPDATE 0 replaces the whole
        # value whatever the two types are), and GET n / UPDATE n, n >= 1, on it (ill-typed: the real code and the mirror must both fail)
        wsh = G.rand_nonpair_shape(rng, rng.choice([0, 1, 2]))
        wty = G.annotate(rng, wsh, rng.choice([0.0, 0.5, 1.0]))
        wval = G.rand_value(rng, wsh)
        w_, w0_ = real.value(wty, wval), real.value(G.strip_type(wty), wval)
        wtr = tree_of(w_)
        swv = strip(wtr)
        wt = ' '.join(tokens(wtr))
        wdesc = {'type': G.fmt_type(wty, True), 'value': G.fmt_value(wval, True)}
        w_annot = bool(type_sites(wty, []))
        for n in (0, rng.choice([1, 2, 3])):
            got, got0 = real.on_stack([w_], f'GET {n}'), real.on_stack([w0_], f'GET {n}')
            add(f'get {n} {wt}', 'err' if got is None else line_vals(got), dict(wdesc, op=f'GET {n}'))
            r = ref_getn(n, swv)
            if n == 0:
                ctx.count('zero_index', f'GET 0 on {zkind(wtr, wty)} value')
            check(f'GET {n}', 'GET n', got, got0, None if r is None else [r], on=wdesc, nt=w_annot)
        for n, (x, x0, xtr, xty, xval), (y, y0, ytr, yty, yval) in (
                (0, (e, e0, et, ety, eval_), (w_, w0_, wtr, wty, wval)),        # any element onto a non-pair
                (0, (w_, w0_, wtr, wty, wval), (v, v0, tr, ty, val)),           # a non-pair element onto the comb
                (rng.choice([1, 2, 3]), (e, e0, et, ety, eval_), (w_, w0_, wtr, wty, wval))):
            got, got0 = real.on_stack([x, y], f'UPDATE {n}'), real.on_stack([x0, y0], f'UPDATE {n}')
            ydesc = {'type': G.fmt_type(yty, True), 'value': G.fmt_value(yval, True)}
            add(f'upd {n} {" ".join(tokens(xtr))} {" ".join(tokens(ytr))}', 'err' if got is None else line_vals(got),
                dict(ydesc, op=f'UPDATE {n}', elem=G.fmt_value(xval, True), elem_type=G.fmt_type(xty, True)))
            r = ref_updaten(n, strip(xtr), strip(ytr))
            if n == 0:
                ctx.count('zero_index', f'UPDATE 0 {zkind(xtr, xty)} elem onto {zkind(ytr, yty)} value')
            check(f'UPDATE {n} [elem {G.fmt_value(xval, True)} : {G.fmt_type(xty, True)}]', 'UPDATE n', got, got0, None if r is None else [r],
                  on=ydesc, nt=bool(type_sites(xty, []) or type_sites(yty, [])))
        # UNPAIR n
        for n in sorted(set([2, m, rng.randrange(0, m + 3)])):
            got, got0 = real.on_stack([v], f'UNPAIR {n}'), real.on_stack([v0], f'UNPAIR {n}')
            add(f'unpairn {n} {vt}', 'err' if got is None else line_vals(got), dict(desc, op=f'UNPAIR {n}'))
            check(f'UNPAIR {n}', 'UNPAIR n', got, got0, ref_unpairn(n, sv))
        # PAIR n on the leaves of this comb
        # (components taken structurally, not through iter_comb, so that this stream only exercises from_comb)
        if rng.random() < 0.5:
            items, items0 = [v.items[0], v.items[1], v], [v0.items[0], v0.items[1], v0]
        else:
            items, items0 = [v.items[0], v.items[1]], [v0.items[0], v0.items[1]]
        n = rng.choice([0, 1, 2, len(items), len(items), len(items) + 1])
        got, got0 = real.on_stack(items, f'PAIR {n}'), real.on_stack(items0, f'PAIR {n}')
        its = [tree_of(x) for x in items]
        add(f'pairn {n} {len(its)} ' + ' '.join(' '.join(tokens(t)) for t in its), 'err' if got is None else line_vals(got), dict(desc, op=f'PAIR {n}'))
        check(f'PAIR {n}', 'PAIR n', got, got0, ref_pairn(n, [strip(t) for t in its]), nontrivial=False)
        # layout / PACK
        gm = guarded(lambda: mich.normalize(v.to_micheline_value(mode='optimized')))
        gm0 = guarded(lambda: mich.normalize(v0.to_micheline_value(mode='optimized')))
        add(f'mich {vt}', 'err' if gm is None else mich.to_line(gm), dict(desc, op='to_micheline_value(optimized)'))
        gp, gp0 = guarded(lambda: v.pack().hex()), guarded(lambda: v0.pack().hex())
        add(f'pack {vt}', 'err' if gp is None else gp, dict(desc, op='pack'))
        ctx.case(dict(desc, op='PACK'), nontrivial=inner_annot)
        ctx.count('op', 'PACK')
        want = ref_layout(sv)
        w = None
        if (gm != gm0 or gp != gp0) and 'PACK' not in witnessed:
            witnessed.add('PACK')
            w = minimal_witness(real, 'PACK')
        if w is not None:
            ctx.violation('annotation-dependent:PACK', w[0], w[1])
        elif gm != gm0 or gp != gp0:
            ctx.violation('annotation-dependent:PACK', f'PACK of {desc["value"]} : {desc["type"]} = {gp}, of the same value with the unannotated type = {gp0}',
                          {'type': desc['type'], 'value': desc['value'], 'packed': gp, 'packed_unannotated': gp0})
        elif gm != mich.normalize(want):
            ctx.violation('differs-from-reference:PACK layout', f'optimized form of {desc["value"]} : {desc["type"]} is {gm}, reference {want}',
                          {'type': desc['type'], 'value': desc['value'], 'got': gm, 'want': want})
        # short comb programs on a small stack
        if ci % 2 == 0:
            extra = []
            for _ in range(rng.choice([0, 1, 2])):
                s2 = G.rand_shape(rng, 2, 0.8)
                t2 = G.annotate(rng, s2, 0.6)
                x2 = G.rand_value(rng, s2)
                extra.append((real.value(t2, x2), real.value(G.strip_type(t2), x2)))
            stack = [v] + [a for a, _ in extra]
            stack0 = [v0] + [b for _, b in extra]
            if rng.random() < 0.5:
                stack.reverse()
                stack0.reverse()
            ins = [comb_instr(rng, len(stack)) for _ in range(rng.choice([2, 3, 4, 6]))]
            code = ' ; '.join(a for a, _ in ins)
            got, got0 = real.on_stack(stack, code), real.on_stack(stack0, code)
            sts = [tree_of(x) for x in stack]
            add(f'exec {len(ins)} ' + ' '.join(b for _, b in ins) + f' {len(sts)} ' + ' '.join(' '.join(tokens(t)) for t in sts),
                'err' if got is None else line_vals(got), dict(desc, op='exec ' + code))
            check('exec ' + code, 'comb program', got, got0, None)

    if timing:
        print(f'[c17] helpers stream built at {time.time() - ctx.t0:.1f}s ({len(lines)} lines)', file=sys.stderr)
    model = ctx.model(lines)
    if timing:
        print(f'[c17] model answered at {time.time() - ctx.t0:.1f}s', file=sys.stderr)
    if model is not None:
        for ln, a, b, d in zip(lines, impl, model, descs):
            if a != b:
                ctx.mismatch('comb-helpers', d, a, b)
    seen_tf = set()
    for ty_, val_, why in real.type_failures:
        ctx.count('annotated-type-refused', why[:60])
        if why[:60] not in seen_tf and len(seen_tf) < 3:
            seen_tf.add(why[:60])
            # smallest annotated sub-type that is still refused
            best = ty_
            def _subs(t, out):
                out.append(t)
                for a_ in t.get('args', []):
                    if isinstance(a_, dict) and 'prim' in a_:
                        _subs(a_, out)
                return out
            for site in _subs(ty_, []):
                if G.strip_type(site) == site or len(json.dumps(site)) >= len(json.dumps(best)):
                    continue
                try:
                    from pytezos.michelson.types.base import MichelsonType
                    MichelsonType.match(site)
                except Exception:  # noqa: BLE001
                    best = site
            ctx.violation('annotation-dependent:type-construction', f'the type {G.fmt_type(best, True)} is refused ({why[:120]}); the same type without annotations is accepted',
                          {'type': best, 'why': why})

    # ================================================================= programs stream
    n_prog = 1600 if quick else 30000
    n_shrunk, max_shrunk = 0, (40 if quick else 200)
    for pi in range(n_prog):
        gen = G.ProgGen(rng)
        prog, _ = gen.gen([], rng.choice([2, 4, 6, 8, 10, 14]))
        twin = G.reannotate(rng, prog)
        bare = G.reannotate(rng, prog, 'strip')
        ta, tb, tc = G.fmt_program(prog), G.fmt_program(twin), G.fmt_program(bare)
        oa, ob, oc = real.program(ta), real.program(tb), real.program(tc)
        ps = G.prims(prog)
        nontriv = len(ps) >= 3 and any(p in ('GET n', 'UPDATE n', 'PAIR n', 'UNPAIR n', 'PACK', 'UNPACK') for p in ps)
        ctx.case({'program': ta if len(ta) < 400 else ta[:400] + '…', 'twin': tb if len(tb) < 400 else tb[:400] + '…'}, nontrivial=nontriv)
        ctx.count('program_len', min(len(ps) // 4 * 4, 24))
        for p in set(ps):
            ctx.count('instr', p)
        ctx.count('program_outcome', oc[0])
        if oc[0] == 'fail':
            # the generator only emits well-typed programs: a failure of the annotation-free program is a harness/generator matter,
            # recorded in the histogram; the metamorphic comparison below still applies
            ctx.count('stripped_program_fails', 1)
        if oa == ob == oc:
            continue
        bad = prog if oa != oc else twin
        n_shrunk += 1
        if n_shrunk > max_shrunk:
            tb_ = G.fmt_program(bad)
            ctx.violation('annotation-dependent:program (not shrunk)', f'`{tb_[:300]}` vs the same program without annotations: results differ',
                          {'program': tb_, 'program_without_annotations': tc})
            continue
        small = shrink(real, bad, oc)
        ts, tz = G.fmt_program(small), G.fmt_program(G.reannotate(None, small, 'strip'))
        os_, oz = real.program(ts), real.program(tz)
        last = G.prims(small[-1:])[0] if small else '?'
        if os_[0] == 'ok' and oz[0] == 'ok' and len(os_[1]) == len(oz[1]):
            # which observable differs on the final stack
            kinds = set()
            for x, y in zip(os_[1], oz[1]):
                if x[0] != y[0]:
                    kinds.add('value')
                elif x[2] != y[2]:
                    kinds.add('packed bytes')
                elif x[1] != y[1]:
                    kinds.add('type')
            what = f'final stack differs in {"/".join(sorted(kinds))}'
        else:
            what = f'annotated run: {os_[0]}, annotation-free run: {oz[0]}'
        ctx.violation(f'annotation-dependent:{last}', f'`{ts}` vs the same program without annotations: {what}',
                      {'program': ts, 'program_without_annotations': tz, 'annotated_result': repr(os_)[:600], 'unannotated_result': repr(oz)[:600]})

    # ================================================================= positional Python objects
    # a flat right comb of atoms given as a Python TUPLE: which component a tuple position feeds is decided by the position,
    # whatever subset of the components carries %field / :type annotations (names of fields may depend on annotations, places may not)
    from pytezos.michelson.types.base import MichelsonType as _MT
    atom_py = {'nat': lambda: rng.choice([0, 1, 7, 2 ** 64]), 'int': lambda: rng.choice([0, -1, 5, -2 ** 70]),
               'string': lambda: rng.choice(['', 'a', 'Zb 9']), 'bool': lambda: rng.random() < 0.5, 'mutez': lambda: rng.choice([0, 1, 10 ** 6])}
    n_pos, pos_bad = (300 if quick else 6000), None
    for _ in range(n_pos):
        m = rng.randrange(2, 7)
        atoms = [rng.choice(sorted(atom_py)) for _ in range(m)]
        vals = tuple(atom_py[a]() for a in atoms)

        def comb(leaves):
            t = leaves[-1]
            for x in reversed(leaves[:-1]):
                t = {'prim': 'pair', 'args': [x, t]}
            return t
        plain_t = comb([{'prim': a} for a in atoms])
        ann_leaves = [G.annotate(rng, (a,), rng.choice([0.0, 0.5, 1.0]), True, False) for a in atoms]
        if rng.random() < 0.3 and m >= 3:      # the same name twice / a name next to an unnamed component
            j = rng.randrange(m - 1)
            if ann_leaves[j].get('annots'):
                ann_leaves[j + 1] = dict(ann_leaves[j + 1], annots=list(ann_leaves[j]['annots']))
        ann_t = comb(ann_leaves)
        ctx.case({'stream': 'python-tuple', 'type': mich.to_line(ann_t)[:200], 'values': repr(vals)[:120]}, nontrivial=any(x.get('annots') for x in ann_leaves))
        ctx.count('op', 'from_python_object(tuple)')

        def conv(t):
            try:
                return json.dumps(mich.normalize(_MT.match(t).from_python_object(vals).to_micheline_value(mode='optimized')), sort_keys=True)
            except Exception as e:      # noqa: BLE001
                return f'raise {type(e).__name__}'
        a, b = conv(ann_t), conv(plain_t)
        if a != b and (pos_bad is None or len(atoms) < len(pos_bad[0])):
            pos_bad = (atoms, vals, ann_t, a, b)
    if pos_bad is not None:
        atoms, vals, ann_t, a, b = pos_bad
        ctx.violation('annotation-dependent:from_python_object(tuple)',
                      f'{vals!r} as a value of `{_show(ann_t)}` is {a}; as a value of the same type without annotations it is {b}',
                      {'type': ann_t, 'tuple': repr(vals), 'annotated': a, 'unannotated': b})

    # ================================================================= wide stream
    # every instruction form of the interpreter model (generator of C01/C02), randomly annotated, against itself without annotations
    from harness import gen_c17_wide as W
    from harness import gen_interp, interp_run
    from harness.props.c01 import gen_env
    g = gen_interp.Gen(rng)
    n_wide = 1100 if quick else 30000
    found = {}

    import signal

    class _Timeout(Exception):
        pass

    def _alarm(signum, frame):
        raise _Timeout()

    def obs(code, env, limit=3.0):
        # the real interpreter has no step budget: a shrinking candidate may loop for ever (a LOOP body without its decrement)
        old = signal.signal(signal.SIGALRM, _alarm)
        signal.setitimer(signal.ITIMER_REAL, limit)
        try:
            return W.observe(interp_run.run_real(code, env))
        except _Timeout:
            return ('timeout',)
        except Exception as e:      # noqa: BLE001 — an exception other than MichelsonRuntimeError escaping from the interpreter
            return ('crash', type(e).__name__)
        finally:
            signal.setitimer(signal.ITIMER_REAL, 0)
            signal.signal(signal.SIGALRM, old)

    shrunk_per_key = {}

    for wi in range(n_wide):
        code, _st = g.program(rng.choice([3, 5, 8, 12, 16]))
        env = gen_env(rng)
        text = json.dumps(code)
        if any(f'"{k}"' in text for k in ENTRYPOINT_PRIMS):
            # instructions whose annotations NAME something (an entrypoint, an event tag) or whose result carries the written type as data
            # (the type of an emitted event): the property excludes entrypoint names; C13 / C01 cover them
            ctx.count('wide-outcome', 'skipped:names-an-entrypoint-or-event')
            continue
        plain = obs(code, env)
        ctx.case({'stream': 'wide', 'code': code if gen_interp.code_size(code) < 10 else f'<{gen_interp.code_size(code)} instrs>', 'h': hash(text) & 0xffffffff},
                 nontrivial=any(k in text for k in ('"LAMBDA"', '"MAP"', '"ITER"', '"LOOP', '"IF', '"EMPTY_', '"NIL"', '"LEFT"', '"RIGHT"', '"NONE"')))
        ctx.count('wide-outcome', plain[0])
        for dens in (0.35, 1.0):
            ann = W.annotate_code(rng, code, dens)
            got = obs(ann, env)
            if got == plain:
                continue
            # shrink: drop top-level instructions while the annotated / plain pair still differs and the plain run keeps its outcome
            cur_a, cur_p = ann, code
            try:
                m0 = interp_run.run_real(ann, env)
                k0 = str(m0[1]).split(' ')[0] if m0[0] == 'err' else m0[0]
            except Exception as e:      # noqa: BLE001
                k0 = type(e).__name__
            shrunk_per_key[k0] = shrunk_per_key.get(k0, 0) + 1
            changed = shrunk_per_key[k0] <= 3          # shrink the first few of every kind only
            while changed:
                changed = False
                for path in W.seq_paths(cur_p):
                    ca, cp = W.remove_at(cur_a, path), W.remove_at(cur_p, path)
                    op = obs(cp, env)
                    if op[0] == plain[0] and op[0] != 'timeout' and obs(ca, env) != op:
                        cur_a, cur_p, changed = ca, cp, True
                        break
            # then take annotations off one site at a time
            def sites(m, acc):
                if isinstance(m, list):
                    for x in m:
                        sites(x, acc)
                elif isinstance(m, dict):
                    if m.get('annots'):
                        acc.append(m)
                    for a in m.get('args', []):
                        sites(a, acc)
                return acc
            cur_a = json.loads(json.dumps(cur_a))
            for site in sites(cur_a, []):
                saved = site.pop('annots')
                if obs(cur_a, env) == obs(cur_p, env):
                    site['annots'] = saved
            oa, op = obs(cur_a, env), obs(cur_p, env)
            try:
                msg = interp_run.run_real(cur_a, env)
                detail = msg[1] if msg[0] == 'err' else msg[0]
            except Exception as e:      # noqa: BLE001
                detail = f'{type(e).__name__}: {e}'
            # name the instruction that raised (first word of the interpreter's message) when there is one
            # … the innermost one of the interpreter's `OUTER -> INNER -> message` trail
            trail = [w for w in str(detail).split(' -> ') if w.replace('_', '').isalnum() and w.isupper()] if oa[0] == 'err' else []
            first = trail[-1] if trail else W.last_prim(cur_p)
            key = f'annotation-dependent:{first}'
            if key not in found or len(json.dumps(cur_a)) < len(json.dumps(found[key][0])):
                found[key] = (cur_a, cur_p, oa, op, str(detail)[:200])
    for key, (ca, cp, oa, op, detail) in sorted(found.items()):
        ctx.violation(key, f'`{_show(ca)}` vs the same program without annotations: annotated run {oa[0]} ({detail}), annotation-free run {op[0]}',
                      {'program': ca, 'program_without_annotations': cp, 'annotated_result': repr(oa)[:600], 'unannotated_result': repr(op)[:600]})
    ctx.extra['wide_programs'] = n_wide
    ctx.extra['wide_instruction_mix'] = dict(sorted(g.used.items()))
