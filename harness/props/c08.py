"""C08 — key import / export / address derivation / mnemonics.

Streams
  keys       random 32-byte secrets / seeds on the four curves: real from_secret_exponent, public_key,
             public_key_hash, HASH_KEY, secret_key (plain, 64-byte ed25519, encrypted with random passphrases —
             str incl. non-ASCII, and bytes — with the real random salt and with `pysodium.randombytes` stubbed),
             from_encoded_key of every exported text; vs the Lean mirror (fed the primitives' answers) and vs
             INDEPENDENT implementations: public key (cryptography / sk·G1 with py_ecc curve ops), address
             (hashlib Blake2b-160 + own Base58Check), decryption of the encrypted export (cryptography PBKDF2 +
             own XSalsa20-Poly1305), wrong passphrase must not import.
  import     texts of all 13 key kinds plus malformed ones (length, curve tag, `pk`/`sk` tag, checksum): real vs Lean
  mnemonic   valid mnemonics of the five lengths, last-word sweeps (all 2048 last words of a fixed prefix: exactly
             the checksum-valid ones are accepted — independent integer BIP-39 check), wrong counts, unknown words;
             from_mnemonic on the four curves with passphrase / email vs an independent derivation (hashlib PBKDF2 +
             independent public key), derived twice."""
import hashlib
import multiprocessing
import os
import random
import unicodedata

from harness import keylib as K
from harness.props.c07 import random_secret
from translator import extract

PROP = 'C08'
NONCE = bytes(24)


def bip39_valid(idx):
    """BIP-39 on word indices, by integer arithmetic (independent of the bit-string route of key.py)"""
    n = len(idx)
    if n not in (12, 15, 18, 21, 24) or any(i is None for i in idx):
        return False
    v = 0
    for i in idx:
        v = v * 2048 + i
    k = n // 3
    ent = (v >> k).to_bytes(4 * k, 'big')
    return (v & ((1 << k) - 1)) == hashlib.sha256(ent).digest()[0] >> (8 - k)


def entropy_of(idx):
    n = len(idx)
    v = 0
    for i in idx:
        v = v * 2048 + i
    k = n // 3
    return (v >> k).to_bytes(4 * k, 'big')


def idx_word(ws):
    return '.'.join('x' if i is None else str(i) for i in ws) if ws else '-'


def render_key(key, curve=None):
    c = (key.curve.decode() if isinstance(key.curve, bytes) else key.curve)
    return f'ok {c} {K.hx(key.public_point)} {K.hx(key.secret_exponent) if key.secret_exponent is not None else "none"}'


def fse_oracles(o, curve, material):
    """answers `from_secret_exponent(material, curve)` needs"""
    if curve == 'ed':
        if len(material) == 64:
            o.ed_sk(material)
        else:
            kp = o.edkp(material)
            if kp:
                o.ed_sk(kp[1])
    else:
        o.pub(curve, material)


def import_line(text_in, passphrase, curve_hint=None):
    """`import` protocol line for a key text (str or bytes) with the answers the model may ask for"""
    o = K.Oracles()
    try:
        ek = K.scrub_spec(text_in)
    except ValueError:
        ek = None
    if ek is not None:
        dec = o.dec(ek)
        curve = ek[:2].decode('latin-1')
        if dec is not None and curve in K.CURVES:
            if ek[2:3] == b'e' and passphrase is not None:
                k = o.kdf(32768, 32, passphrase, dec[:8])
                m = o.open(k, NONCE, dec[8:])
                if m is not None:
                    fse_oracles(o, curve, m)
            fse_oracles(o, curve, dec)
    return K.line(['import', K.py_in(text_in), K.hx(passphrase) if passphrase is not None else 'none'], o)


def real_import(text_in, passphrase):
    from pytezos.crypto.key import Key
    try:
        return render_key(Key.from_encoded_key(text_in, passphrase=passphrase if passphrase is not None else b'\x00unused'))
    except Exception as e:
        return K.canon_exc(e)


def real_hash_key(pk_text):
    from pytezos.context.impl import ExecutionContext
    from pytezos.michelson.instructions.crypto import HashKeyInstruction
    from pytezos.michelson.stack import MichelsonStack
    from pytezos.michelson.types import KeyType
    try:
        st = MichelsonStack()
        st.push(KeyType.from_value(pk_text))
        HashKeyInstruction.execute(st, [], ExecutionContext())
        return 'ok ' + K.text_hex(str(st.pop1()))
    except Exception as e:
        inner = e.__cause__ or e
        return K.canon_exc(inner)


def eval_key_case(case):
    """a case handler must not die on an exception escaping from the code under test (e.g. public_key() raising for
    a key whose public point has the wrong length): that is a failing input of the property, not a harness error"""
    import traceback
    from harness import common
    try:
        return _eval_key_case(case)
    except Exception as e:
        tb = traceback.format_exc()
        if os.path.join(os.path.realpath(common.REPO), 'src') not in tb and os.path.join(common.REPO, 'src') not in tb:
            raise
        where = [l.strip() for l in tb.split('\n') if 'src/pytezos' in l][-1:]
        base = {'curve': case['curve'], 'secret': case['secret'].hex()}
        return [], [(f"key-api-raises:{case['curve']}", f"an import/export/derivation call raised {type(e).__name__}: {str(e)[:120]} for {case['curve']} secret "
                     f"{case['secret'].hex()} ({where[0] if where else '?'})", base)]


def _eval_key_case(case):
    from harness import common
    common.use_repo()
    import pysodium
    from pytezos.crypto import key as key_mod
    from pytezos.crypto.key import Key
    rng = random.Random(case['seed'])
    curve, secret = case['curve'], case['secret']
    out, viol = [], []
    base = {'curve': curve, 'secret': secret.hex()}

    def rec(stream, desc, line, impl):
        out.append({'stream': stream, 'desc': {**base, **desc}, 'line': line, 'impl': impl})

    # ---- derivation
    try:
        key = Key.from_secret_exponent(secret, curve.encode())
        res = render_key(key)
    except Exception as e:
        key, res = None, K.canon_exc(e)
    o = K.Oracles()
    fse_oracles(o, curve, secret)
    rec('fse', {}, K.line(['fse', curve, K.hx(secret)], o), res)
    if key is None:
        viol.append((f'derivation-raises:{curve}', f'from_secret_exponent raised on secret {secret.hex()} ({res})', base))
        return out, viol
    pub, sk = key.public_point, key.secret_exponent
    want_pub = K.indep_pubkey(curve, secret)
    if pub != want_pub:
        viol.append((f'public-key-differs:{curve}', f'{curve} secret {secret.hex()}: public point {pub.hex()}, independent derivation {want_pub.hex()}', base))
    again = Key.from_secret_exponent(secret, curve.encode())
    if (again.public_point, again.secret_exponent) != (pub, sk):
        viol.append((f'derivation-not-deterministic:{curve}', 'two derivations from the same secret differ', base))
    # ---- public key, address, HASH_KEY
    pk_text = key.public_key()
    o = K.Oracles()
    o.enc(curve.encode() + b'pk', pub)
    rec('pk', {}, K.line(['pk', curve, K.hx(pub)], o), 'ok ' + K.text_hex(pk_text))
    if K.tz_decode(curve + 'pk', pk_text) != pub:
        viol.append((f'public-key-text:{curve}', f'{pk_text} is not the {curve}pk encoding of the public point', {**base, 'text': pk_text}))
    pkh = key.public_key_hash()
    want_pkh = K.tz_encode(K.TZ[curve], K.blake(pub, 20))
    o = K.Oracles()
    o.b2b(20, pub)
    for n in (20, 32):
        o.b2b(n, pub)
    for t in ('tz1', 'tz2', 'tz3', 'tz4'):
        o.enc(t.encode(), K.blake(pub, 20))
    rec('pkh', {}, K.line(['pkh', curve, K.hx(pub)], o), 'ok ' + K.text_hex(pkh))
    if pkh != want_pkh:
        viol.append((f'address-differs:{curve}', f'public_key_hash() = {pkh}, expected {want_pkh} ({K.TZ[curve]} of Blake2b-160)', {**base, 'pub': pub.hex()}))
    hk = real_hash_key(pk_text)
    o.dec(pk_text.encode())
    rec('hashkey', {}, K.line(['hashkey', K.text_hex(pk_text)], o), hk)
    if hk != 'ok ' + K.text_hex(want_pkh):
        viol.append((f'hash-key-differs:{curve}', f'HASH_KEY {pk_text} gives {hk}, expected {want_pkh}', {**base, 'pk': pk_text}))
    imp = real_import(pk_text, None)
    rec('import', {'what': 'public'}, import_line(pk_text, None), imp)
    if imp != f'ok {curve} {K.hx(pub)} none':
        viol.append((f'export-import-differs:{curve}:public', f'importing {pk_text} gives {imp}', {**base, 'text': pk_text}))
    # ---- exports
    material = pysodium.crypto_sign_sk_to_seed(sk) if curve == 'ed' else sk

    def export(passphrase, ed_seed, stub_salt):
        """real secret_key(); returns (text | None, canonical result, salt used)"""
        orig = key_mod.pysodium.randombytes
        if stub_salt is not None:
            key_mod.pysodium.randombytes = lambda n: stub_salt[:n]
        try:
            t = key.secret_key(passphrase=passphrase, ed25519_seed=ed_seed)
            return t, 'ok ' + K.text_hex(t)
        except Exception as e:
            return None, K.canon_exc(e)
        finally:
            key_mod.pysodium.randombytes = orig

    def sk_line(pw_bytes, ed_seed, salt):
        o = K.Oracles()
        if curve == 'ed':
            o.ed_sk(sk)
        mat = material if (curve == 'ed' and ed_seed) else sk
        o.enc(curve.encode() + b'sk', mat)
        if pw_bytes:
            k = o.kdf(32768, 32, pw_bytes, salt)
            box = o.seal(k, NONCE, mat)
            o.enc(curve.encode() + b'esk', salt + box)
        return K.line(['sk', curve, K.hx(pub), K.hx(sk), K.hx(pw_bytes) if pw_bytes is not None else 'none', '1' if ed_seed else '0', K.hx(salt)], o)

    def check_roundtrip(what, text, passphrase_bytes, passphrase_given=None):
        imp = real_import(text, passphrase_bytes)
        rec('import', {'what': what}, import_line(text, passphrase_bytes), imp)
        if imp != f'ok {curve} {K.hx(pub)} {K.hx(sk)}':
            viol.append((f'export-import-differs:{curve}:{what}', f'secret_key ({what}) -> {text} -> from_encoded_key gives {imp[:80]}',
                         {**base, 'what': what, 'text': text, 'passphrase': passphrase_bytes.hex() if passphrase_bytes else None}))
        k2 = None
        try:
            k2 = Key.from_encoded_key(text.encode(), passphrase=passphrase_bytes or b'x')     # bytes input form
        except Exception:
            pass
        if k2 is None or (k2.public_point, k2.secret_exponent, k2.curve) != (pub, sk, curve.encode()):
            viol.append((f'export-import-differs:{curve}:{what}', f'{text} given as bytes does not import to the same key', {**base, 'what': what, 'text': text}))
        if isinstance(passphrase_given, str):
            # the passphrase in the form the caller exported with (str): both sides must derive the same key from it
            imp_s = real_import(text, passphrase_given)
            if imp_s != f'ok {curve} {K.hx(pub)} {K.hx(sk)}':
                viol.append((f'export-import-differs:{curve}:{what}:str-passphrase',
                             f'secret_key(passphrase={passphrase_given!r}) -> {text} -> from_encoded_key(passphrase={passphrase_given!r}) gives {imp_s[:80]}',
                             {**base, 'what': what, 'text': text, 'passphrase_str': passphrase_given}))

    # plain
    text, res = export(None, True, None)
    rec('sk', {'what': 'plain'}, sk_line(None, True, b''), res)
    if text is None:
        viol.append((f'export-raises:{curve}:plain', f'secret_key() raised ({res})', base))
    else:
        if K.tz_decode('edsk32' if curve == 'ed' else curve + 'sk', text) != material:
            viol.append((f'export-text:{curve}:plain', f'{text} does not encode the seed / secret exponent', {**base, 'text': text}))
        check_roundtrip('plain', text, None)
    # empty passphrase = plain
    text0, res0 = export(rng.choice(['', b'']), True, None)
    rec('sk', {'what': 'empty-passphrase'}, sk_line(b'', True, b''), res0)
    if text0 != text:
        viol.append((f'export-text:{curve}:empty-passphrase', 'an empty passphrase does not give the plain export', {**base, 'text': text0}))
    # 64-byte ed25519 / raw
    text64, res64 = export(None, False, None)
    rec('sk', {'what': 'raw'}, sk_line(None, False, b''), res64)
    if text64 is None:
        viol.append((f'export-raises:{curve}:raw', f'secret_key(ed25519_seed=False) raised ({res64})', base))
    else:
        check_roundtrip('raw', text64, None)
    tni, resni = export(b'pw', False, bytes(8))
    rec('sk', {'what': 'raw-encrypted'}, sk_line(b'pw', False, bytes(8)), resni)
    # encrypted
    for j in range(case['passphrases']):
        pw = case['pw'][j]
        pw_bytes = pw.encode() if isinstance(pw, str) else pw
        stub = case['salts'][j]
        text, res = export(pw, True, stub)
        if text is None:
            rec('sk', {'what': 'encrypted'}, sk_line(pw_bytes, True, stub or bytes(8)), res)
            viol.append((f'export-raises:{curve}:encrypted', f'secret_key(passphrase) raised ({res})', {**base, 'passphrase': pw_bytes.hex()}))
            continue
        payload = K.tz_decode(curve + 'esk', text)
        if payload is None or len(payload) != 56:
            rec('sk', {'what': 'encrypted'}, sk_line(pw_bytes, True, stub or bytes(8)), res)
            viol.append((f'export-text:{curve}:encrypted', f'{text} is not a {curve}esk text of 56 bytes', {**base, 'text': text}))
            continue
        salt, box = payload[:8], payload[8:]
        rec('sk', {'what': 'encrypted', 'stubbed_salt': stub is not None}, sk_line(pw_bytes, True, salt), res)
        if stub is not None and salt != stub:
            viol.append((f'export-text:{curve}:encrypted', 'the salt in the text is not what randombytes returned', {**base, 'text': text}))
        plain = K.secretbox_open(box, NONCE, K.indep_pbkdf2(pw_bytes, salt))
        if plain != material:
            viol.append((f'encrypted-export-undecryptable:{curve}', f'{text} does not decrypt (PBKDF2-SHA512 32768 / XSalsa20-Poly1305, zero nonce) to the secret with the passphrase',
                         {**base, 'text': text, 'passphrase': pw_bytes.hex()}))
        check_roundtrip('encrypted', text, pw_bytes, pw)
        wrong = pw_bytes + b'!'
        impw = real_import(text, wrong)
        rec('import', {'what': 'wrong-passphrase'}, import_line(text, wrong), impw)
        if impw.startswith('ok'):
            viol.append((f'wrong-passphrase-imports:{curve}', f'{text} imports with a wrong passphrase', {**base, 'text': text}))
    return out, viol


def malformed_imports(rng, good_texts):
    """(input, passphrase) pairs around the accepted key texts"""
    out = []
    for t in good_texts:
        out.append((t, None))
        out.append((t.encode(), None))
        i = rng.randrange(5, len(t))
        out.append((t[:i] + rng.choice([c for c in K.ALPHABET if c != t[i]]) + t[i + 1:], None))   # checksum
        out.append((t[:-1], None))
        out.append((t + '1', None))
        out.append(('xx' + t[2:], None))
        out.append((t[:2] + 'x' + t[3:], None))
        out.append((t[:3] + 'x' + t[4:], None))
        out.append((t[:2] + 'e' + t[3:], None))
    out += [('', None), ('ed', None), ('edsk', None), (b'\xff' * 54, None), ('é' * 54, None), ('00' * 54, None), ('0x' + '11' * 54, None),
            ('sppk' + '1' * 51, None), ('BLpk' + '1' * 72, None), ('edesk' + '1' * 83, b'pw'), ('p2sk' + 'z' * 50, None)]
    return out


def eval_mnemonic_case(case):
    from harness import common
    common.use_repo()
    from mnemonic import Mnemonic
    from pytezos.crypto.key import Key, validate_mnemonic
    m = Mnemonic('english')
    wl = m.wordlist
    pos = {w: i for i, w in enumerate(wl)}
    out, viol = [], []
    kind = case['kind']
    if kind == 'validate':
        words = case['words']
        text = ' '.join(words)
        idx = [pos.get(w) for w in (unicodedata.normalize('NFKD', text).split(' ') if text else [''])]
        try:
            validate_mnemonic(text)
            res = 'ok'
        except Exception as e:
            res = K.canon_exc(e)
        o = K.Oracles()
        if len(idx) in (12, 15, 18, 21, 24) and None not in idx:
            o.sha(entropy_of(idx))
        out.append({'stream': 'mnemonic', 'desc': {'what': case['what'], 'words': len(words), 'text': text if len(text) < 100 else text[:100] + '…'},
                    'line': K.line(['mnemonic', idx_word(idx)], o), 'impl': res})
        want = bip39_valid(idx)
        if (res == 'ok') != want:
            viol.append((f'mnemonic-accept-differs:{len(idx)}-words', f'validate_mnemonic {"accepts" if res == "ok" else "rejects (" + res + ")"} "{text}" but its BIP-39 checksum is '
                         f'{"valid" if want else "invalid"}', {'mnemonic': text}))
        return out, viol
    if kind == 'sequence':
        # several word sequences validated one after the other in ONE process: the verdict on a sequence does not depend on what was
        # validated before (same words in another order, the same words with other multiplicities)
        for step, words in enumerate(case['seq']):
            text = ' '.join(words)
            idx = [pos.get(w) for w in words]
            try:
                validate_mnemonic(text)
                res = 'ok'
            except Exception as e:      # noqa: BLE001
                res = K.canon_exc(e)
            want = bip39_valid(idx)
            if (res == 'ok') != want:
                viol.append((f'mnemonic-accept-differs:after-other-validations:{len(idx)}-words',
                             f'validate_mnemonic {"accepts" if res == "ok" else "rejects"} "{text}" (call #{step + 1} of a sequence over the same words; earlier: '
                             f'{[" ".join(w[:4] for w in x[:3]) + "…" for x in case["seq"][:step]]}) but its BIP-39 checksum is {"valid" if want else "invalid"}',
                             {'sequence': [' '.join(x) for x in case['seq'][:step + 1]]}))
                break
        return out, viol
    if kind == 'sweep':
        prefix = case['words']
        accepted = []
        for w in wl:
            try:
                validate_mnemonic(' '.join(prefix + [w]))
                accepted.append(w)
            except ValueError:
                pass
        pidx = [pos[w] for w in prefix]
        want = [w for i, w in enumerate(wl) if bip39_valid(pidx + [i])]
        out.append({'stream': 'sweep', 'desc': {'what': 'last-word-sweep', 'words': len(prefix) + 1, 'accepted': len(accepted)}, 'line': None, 'impl': None,
                    'evals': 2048})
        if accepted != want:
            diff = sorted(set(accepted) ^ set(want))[:3]
            viol.append((f'mnemonic-accept-differs:{len(prefix) + 1}-words', f'last-word sweep after "{" ".join(prefix)}": accepted {len(accepted)}, checksum-valid {len(want)}, e.g. {diff}',
                         {'prefix': ' '.join(prefix), 'differs': diff}))
        # the model on a sample of the sweep
        for w in case['sample']:
            idx = pidx + [pos[w]]
            o = K.Oracles()
            o.sha(entropy_of(idx))
            out.append({'stream': 'mnemonic', 'desc': {'what': 'sweep-sample', 'words': len(idx), 'last': w}, 'line': K.line(['mnemonic', idx_word(idx)], o),
                        'impl': 'ok' if w in accepted else 'err ValueError mnemonicChecksum'})
        return out, viol
    # ---- derivation from a mnemonic
    words, curve, pw, email, validate = case['words'], case['curve'], case['pw'], case['email'], case['validate']
    text = ' '.join(words)
    idx = [pos.get(w) for w in words]
    try:
        key = Key.from_mnemonic(words if case['as_list'] else text, passphrase=pw, email=email, validate=validate, curve=curve.encode())
        res = render_key(key)
    except Exception as e:
        key, res = None, K.canon_exc(e)
    o = K.Oracles()
    if len(idx) in (12, 15, 18, 21, 24) and None not in idx:
        o.sha(entropy_of(idx))
    latin = all(ord(ch) < 256 for ch in pw + email)
    if latin:
        seed = o.seed(text, email + pw)
        fse_oracles(o, curve, seed[:32])
        if curve == 'ed':
            kp = K.prim_ed_keypair(seed[:32])
            if kp:
                o.ed_sk(kp[1])
        out.append({'stream': 'from_mnemonic', 'desc': {'curve': curve, 'words': len(words), 'validate': validate, 'pw': pw, 'email': email},
                    'line': K.line(['fm', '1' if validate else '0', curve, idx_word(idx), K.text_hex(text), K.text_hex(pw), K.text_hex(email)], o), 'impl': res})
    valid = bip39_valid(idx)
    if key is None:
        if valid or not validate:
            nsalt = ('mnemonic' + unicodedata.normalize('NFKD', email + pw)).encode()
            s32 = hashlib.pbkdf2_hmac('sha512', unicodedata.normalize('NFKD', text).encode(), nsalt, 2048, 64)[:32]
            scalar = int.from_bytes(s32, 'little')
            if curve == 'BL' and not 0 < scalar < K.BLS_R:
                # the first 32 seed bytes, read as a little-endian scalar, are not below the BLS12-381 group order
                vkey = 'mnemonic-derivation-raises:BL:seed-not-below-group-order'
            else:
                vkey = f'mnemonic-derivation-raises:{curve}'
            viol.append((vkey, f'Key.from_mnemonic("{text}", passphrase={pw!r}, email={email!r}, curve={curve}) raised ({res}) although the BIP-39 checksum is '
                         f'{"valid" if valid else "not checked"}; seed[:32] as little-endian scalar = {scalar:#x}', {'mnemonic': text, 'curve': curve, 'passphrase': pw, 'email': email}))
        return out, viol
    if validate and not valid:
        viol.append((f'mnemonic-accept-differs:{len(idx)}-words:{"list" if case["as_list"] else "text"}-form',
                     f'from_mnemonic(validate=True) accepts {"the word list of " if case["as_list"] else ""}"{text}" with an invalid checksum', {'mnemonic': text, 'as_list': case['as_list']}))
        return out, viol
    salt = ('mnemonic' + unicodedata.normalize('NFKD', email + pw)).encode()
    seed = hashlib.pbkdf2_hmac('sha512', unicodedata.normalize('NFKD', text).encode(), salt, 2048, 64)
    want_pub = K.indep_pubkey(curve, seed[:32])
    if key.public_point != want_pub:
        viol.append((f'mnemonic-derivation-differs:{curve}', f'"{text}" / "{pw}" / "{email}": public point {key.public_point.hex()}, independent derivation {want_pub.hex()}',
                     {'mnemonic': text, 'curve': curve, 'passphrase': pw, 'email': email}))
    k2 = Key.from_mnemonic(text, passphrase=pw, email=email, validate=validate, curve=curve.encode())
    if (k2.public_point, k2.secret_exponent) != (key.public_point, key.secret_exponent):
        viol.append((f'derivation-not-deterministic:{curve}', f'two derivations from "{text}" differ', {'mnemonic': text, 'curve': curve}))
    return out, viol


def random_passphrase(rng):
    k = rng.randrange(8)
    n = rng.choice([1, 2, 8, 16, 40])
    if k == 6:      # whitespace at the edges is part of the passphrase (no normalisation on either side)
        core = ''.join(rng.choice('abcXYZ019') for _ in range(rng.choice([1, 3, 8])))
        return rng.choice([' ' + core, core + ' ', core + '\n', '\t' + core, ' ' + core + ' ', core + '\r\n', '\u00a0' + core, core + '\u3000'])
    if k == 7:
        return rng.choice([' ', '  ', '\n', '\t ', ' \u00a0'])
    if k == 0:
        return ''.join(rng.choice('abcdefghijklmnopqrstuvwxyzABC0123456789 !@#') for _ in range(n))
    if k == 1:
        return ''.join(rng.choice('пароль密码pässwörd🔑é') for _ in range(n))
    if k == 2:
        return bytes(rng.getrandbits(8) for _ in range(n))
    if k == 3:
        return bytes([0]) * n
    if k == 4:
        return 'a'
    return ''.join(chr(rng.randrange(32, 127)) for _ in range(n))


def run_eval(fn_case):
    fn, case = fn_case
    return fn(case)


def run(ctx):
    import time
    st = {}
    for p in ('C08', 'C07', 'C23'):
        for k, v in extract.generate(p).items():
            st[k if p == PROP else f'{p}:{k}'] = v
    t0 = time.time()
    ctx.prepare_lean(st)
    timing = {'regenerate+build+audit_s': round(time.time() - t0, 1)}
    ctx.extra['timing'] = timing
    quick = ctx.tier == 'quick'
    rng = ctx.rng
    ctx.extra['rule'] = (
        'keys: random 32-byte secrets/seeds (incl. 1 and order-1) per curve, each exported plain / with an empty passphrase / as 64-byte ed25519 key / '
        'encrypted with random passphrases (ASCII, non-ASCII str, bytes; real random salt and stubbed salt) and re-imported (str and bytes input), '
        'plus a wrong passphrase; import: every exported text and 9 malformations of each kind, and hand-made junk; '
        'mnemonic: valid mnemonics of 12/15/18/21/24 words, last-word sweeps over all 2048 words, wrong counts, unknown words, repeated spaces, '
        'derivation on the four curves with passphrase/email, with and without validation. non-trivial = every case')
    ctx.assumptions += [
        'MODELLED, NOT VERIFIED: public-key derivation of each curve (pysodium, coincurve, fastecdsa, py_ecc), PBKDF2-HMAC-SHA512, crypto_secretbox, Blake2b, SHA-256, '
        'Mnemonic.to_seed: parameters of the Lean model with the contract `Laws` (box open∘seal, lengths, ed25519 seed<->secret key); sampled here',
        'independent implementations used as oracle: `cryptography` (public keys of ed25519/secp256k1/P-256, PBKDF2), py_ecc curve multiplication sk·G1 (BLS), '
        'hashlib (Blake2b-160, SHA-256, PBKDF2 for the mnemonic seed), own Base58Check, own XSalsa20-Poly1305, own integer BIP-39 check',
        'base58_encode / base58_decode are property C09 (`Codec`, `CodecLaws`)',
        'NFKD normalisation and `str.split(" ")` of validate_mnemonic, and the word list itself, are outside the model: the model sees word-list indices',
        'passphrase prompting (getpass / PYTEZOS_PASSPHRASE) is outside the model: the harness always supplies one',
    ]
    # ---------------- keys
    n_fast = 16 if quick else 500
    n_bls = 3 if quick else 60
    cases = []
    for curve in K.CURVES:
        for i in range(n_bls if curve == 'BL' else n_fast):
            npw = 1 if (quick and i >= 6) else 2
            cases.append((eval_key_case, {'curve': curve, 'secret': bytes(range(1, 33)) if i == 0 else random_secret(rng, curve), 'seed': rng.getrandbits(48),
                                          'passphrases': npw, 'pw': [random_passphrase(rng) for _ in range(npw)],
                                          'salts': [None if j == 0 else bytes(rng.getrandbits(8) for _ in range(8)) for j in range(npw)]}))
    # boundary keys: secret exponents whose public point has an X coordinate with a leading zero byte (1 key in 256;
    # found by scanning small exponents with the independent derivation) — fixed-width encodings of X, of the secret
    # (30 leading zero bytes here) and of everything derived from them must not drop those bytes
    for curve, exps in (('sp', (153, 246, 1158)), ('p2', (379, 552, 751))):
        for e in exps if quick else exps + tuple(rng.randrange(1, 1 << 16) for _ in range(20)):
            cases.append((eval_key_case, {'curve': curve, 'secret': e.to_bytes(32, 'big'), 'seed': rng.getrandbits(48), 'passphrases': 1,
                                          'pw': [random_passphrase(rng)], 'salts': [None]}))
            ctx.count('key_boundary', f'{curve}:short-X' if e in exps else f'{curve}:small-exponent')
    # the ends of the scalar range: 1, 2, n-2, n-1 (n = group order), 2^255 / 2^128 for the two ECDSA curves and BLS12-381; the all-zero
    # and all-ones seeds for Ed25519 (every 32-byte string is a legal Ed25519 seed)
    N_SP = 0xFFFFFFFFFFFFFFFFFFFFFFFFFFFFFFFEBAAEDCE6AF48A03BBFD25E8CD0364141
    N_P2 = 0xFFFFFFFF00000000FFFFFFFFFFFFFFFFBCE6FAADA7179E84F3B9CAC2FC632551
    N_BL = 0x73EDA753299D7D483339D80809A1D80553BDA402FFFE5BFEFFFFFFFF00000001
    ends = [('sp', e) for e in (1, 2, N_SP - 2, N_SP - 1, 1 << 255, 1 << 128)] + [('p2', e) for e in (1, 2, N_P2 - 2, N_P2 - 1, 1 << 255, 1 << 128)] \
        + [('BL', e) for e in ((1, N_BL - 1) if quick else (1, 2, N_BL - 2, N_BL - 1))] + [('ed', 0), ('ed', (1 << 256) - 1)]
    for curve, e in ends:
        cases.append((eval_key_case, {'curve': curve, 'secret': e.to_bytes(32, 'little' if curve == 'BL' else 'big'), 'seed': rng.getrandbits(48), 'passphrases': 1,
                                      'pw': [random_passphrase(rng)], 'salts': [None]}))      # (a BLS secret is a little-endian scalar)
        ctx.count('key_boundary', f'{curve}:range-end')
    # ---------------- mnemonics
    from mnemonic import Mnemonic
    m = Mnemonic('english')
    wl = m.wordlist

    def valid_mnemonic(n):
        ent = bytes(rng.getrandbits(8) for _ in range(n // 3 * 4))
        return m.to_mnemonic(ent).split(' ')

    n_valid = 8 if quick else 300
    for n in (12, 15, 18, 21, 24):
        for _ in range(n_valid):
            w = valid_mnemonic(n)
            cases.append((eval_mnemonic_case, {'kind': 'validate', 'what': 'valid', 'words': w}))
            w2 = list(w)
            w2[rng.randrange(n)] = rng.choice(wl)
            cases.append((eval_mnemonic_case, {'kind': 'validate', 'what': 'one-word-changed', 'words': w2}))
            cases.append((eval_mnemonic_case, {'kind': 'validate', 'what': 'random-words', 'words': [rng.choice(wl) for _ in range(n)]}))
    # entropy with leading / trailing zero bytes and all-zero / all-one entropy, every length: the checksum is taken over the entropy at its
    # full width (a leading zero byte is part of it), and a changed last word makes such a mnemonic invalid like any other
    for n in (12, 15, 18, 21, 24):
        nb = n // 3 * 4
        for z_front, z_back in ((1, 0), (2, 0), (4, 0), (0, 1), (1, 1), (nb, 0)):
            ent = bytes(z_front) + bytes(rng.getrandbits(8) | 1 for _ in range(nb - z_front - z_back)) + bytes(z_back) if z_front < nb else bytes(nb)
            w = m.to_mnemonic(ent).split(' ')
            cases.append((eval_mnemonic_case, {'kind': 'validate', 'what': f'valid:zero-bytes-{z_front}-front-{z_back}-back', 'words': w}))
            w2 = list(w)
            w2[-1] = wl[(wl.index(w[-1]) + rng.randrange(1, 2048)) % 2048]
            cases.append((eval_mnemonic_case, {'kind': 'validate', 'what': 'last-word-changed:zero-bytes-front', 'words': w2}))
        cases.append((eval_mnemonic_case, {'kind': 'validate', 'what': 'valid:all-ones', 'words': m.to_mnemonic(b'\xff' * nb).split(' ')}))
    for n in (0, 1, 11, 13, 14, 16, 23, 25, 36):
        cases.append((eval_mnemonic_case, {'kind': 'validate', 'what': 'wrong-count', 'words': [rng.choice(wl) for _ in range(n)]}))
    w = valid_mnemonic(12)
    for what, ws in [('unknown-word', w[:5] + ['zzzz'] + w[6:]), ('upper-case', [w[0].upper()] + w[1:]), ('double-space', w[:3] + [''] + w[3:]),
                     ('all-abandon', ['abandon'] * 12), ('abandon-about', ['abandon'] * 11 + ['about']), ('zoo-wrong', ['zoo'] * 11 + ['wrong']),
                     ('zoo-vote', ['zoo'] * 23 + ['vote']), ('trailing-space', w[:11] + [w[11] + ' '])]:
        cases.append((eval_mnemonic_case, {'kind': 'validate', 'what': what, 'words': ws}))
    for n in ((12, 24) if quick else (12, 15, 18, 21, 24) * 6):
        w = valid_mnemonic(n)
        i, j = rng.sample(range(n), 2)
        sw = list(w)
        sw[i], sw[j] = sw[j], sw[i]
        rot = w[1:] + w[:1]
        longer = (w + w[:3]) if n + 3 <= 24 else (w[:n - 3])
        seq = [w, sw, rot, longer, list(reversed(w)), w]
        cases.append((eval_mnemonic_case, {'kind': 'sequence', 'seq': seq if rng.random() < 0.7 else [sw, w, sw, rot]}))
    sweeps = [12, 24] if quick else [12, 15, 18, 21, 24] * 4
    for n in sweeps:
        prefix = [rng.choice(wl) for _ in range(n - 1)]
        cases.append((eval_mnemonic_case, {'kind': 'sweep', 'words': prefix, 'sample': [rng.choice(wl) for _ in range(24)]}))
    n_fm = 3 if quick else 40
    for curve in K.CURVES:
        for i in range(n_fm if curve != 'BL' else (2 if quick else 12)):
            n = rng.choice([12, 15, 18, 21, 24])
            valid = rng.random() < 0.8
            words = valid_mnemonic(n) if valid else [rng.choice(wl) for _ in range(n)]
            cases.append((eval_mnemonic_case, {'kind': 'derive', 'words': words, 'curve': curve, 'validate': rng.random() < 0.8, 'as_list': rng.random() < 0.5,
                                               'pw': rng.choice(['', 'pass', 'Tr3zor!', 'pässwörd', 'x' * 40]), 'email': rng.choice(['', 'a@b.c', 'firstname.lastname@example.org'])}))
    # every input form x validity x validate flag, on one fast curve: an invalid mnemonic is refused in the list form as in the text form
    for as_list in (True, False):
        for validate in (True, False):
            for valid in (True, False):
                n = rng.choice([12, 24])
                words = valid_mnemonic(n) if valid else [rng.choice(wl) for _ in range(n)]
                cases.append((eval_mnemonic_case, {'kind': 'derive', 'words': words, 'curve': rng.choice(['ed', 'sp', 'p2']), 'validate': validate, 'as_list': as_list,
                                                   'pw': rng.choice(['', 'pass']), 'email': ''}))
    # corpus: the recorded open finding (BLS derivation from a mnemonic whose seed prefix is not below the group order) and a
    # neighbour that derives — first in every tier, so that the KNOWN-FINDING line does not depend on the seed
    for words in ('abandon abandon abandon abandon abandon abandon abandon abandon abandon abandon abandon about',
                  'acoustic avoid letter advice cage absurd amount doctor acoustic avoid letter affair'):
        cases.append((eval_mnemonic_case, {'kind': 'derive', 'words': words.split(' '), 'curve': 'BL', 'validate': True, 'as_list': False, 'pw': '', 'email': ''}))
    workers = int(os.environ.get('VERIF_WORKERS', '8'))
    order = sorted(range(len(cases)), key=lambda i: not (cases[i][1].get('curve') == 'BL' or cases[i][1].get('kind') == 'sweep'))
    t0 = time.time()
    with multiprocessing.get_context('fork').Pool(workers) as pool:
        results = pool.map(run_eval, [cases[i] for i in order], chunksize=1)
    by_index = dict(zip(order, results))
    records, good_texts = [], {}
    for i in range(len(cases)):
        out, viol = by_index[i]
        records += out
        for key, what, replay in viol:
            ctx.violation(key, what, replay)
        for r in out:
            if r['stream'] in ('sk', 'pk') and r['impl'].startswith('ok '):
                t = bytes.fromhex(r['impl'][3:]).decode()
                kind = (t[:5] if t[2] == 'e' else t[:4]) + str(len(t))
                good_texts.setdefault(kind, t)
    # ---------------- import stream (in-process: cheap)
    for inp, pw in malformed_imports(rng, [good_texts[k] for k in sorted(good_texts)]):
        if inp[2:3] in ('e', b'e') and pw is None:
            pw = b'some passphrase'
        res = real_import(inp, pw)
        records.append({'stream': 'import', 'desc': {'what': 'malformed', 'input': K.py_in(inp)[:60]}, 'line': import_line(inp, pw), 'impl': res})
    timing['real_code+oracles_s'] = round(time.time() - t0, 1)
    ctx.extra['key_kinds_imported'] = sorted(good_texts)
    with_lines = [r for r in records if r['line'] is not None]
    model = ctx.model([r['line'] for r in with_lines])
    mi = 0
    for r in records:
        d = r['desc']
        ctx.case({'stream': r['stream'], **{k: (v if len(str(v)) < 100 else str(v)[:100] + '…') for k, v in d.items()}}, nontrivial=True)
        ctx.evaluations += r.get('evals', 1) - 1
        ctx.count('stream', r['stream'])
        if 'curve' in d:
            ctx.count('curve', d['curve'])
        if 'what' in d:
            ctx.count(r['stream'] + ':what', d['what'])
        if 'words' in d:
            ctx.count('mnemonic_words', d['words'])
        if r['line'] is None:
            continue
        ctx.count('outcome:' + r['stream'], ' '.join(r['impl'].split()[:3]) if r['impl'].startswith('err') else 'ok')
        if model is not None and model[mi] != r['impl']:
            ctx.mismatch(r['stream'], d, r['impl'][:200], model[mi][:200])
        mi += 1
