"""C24 — automatically chosen fees meet the node's default minimal fee.

Real `OperationGroup.fill()` / `.autofill()` / `.sign()` driven against the simulated node (harness/stubnode.py).
Oracle = the node's own default mempool filter applied to the ACTUAL signed bytes (size, fee and gas limits are
read back from the binary payload by the stub's independent parser, never from pytezos' forging code).
Correspondence = fee / counter / gas_limit / storage_limit chosen for every content, the size of the signed
operation, the total gas limit and the node verdict vs the Lean mirror `Impl.Fees`."""
import hashlib
import math

from translator import extract

PROP = 'C24'

CURVES = ('ed', 'sp', 'p2', 'BL')
KINDS = ('reveal', 'transaction', 'origination', 'delegation', 'register_global_constant', 'transfer_ticket',
         'smart_rollup_add_messages', 'smart_rollup_execute_outbox_message')
MUTEZ_MAX = 2 ** 63     # tez amounts are int64 on the node: a fee at or above this bound cannot be encoded by it


def _addr(prefix_bytes, seed, n=20):
    from harness import stubnode as sn
    return sn.b58check_encode(bytes(prefix_bytes) + hashlib.sha256(seed.encode()).digest()[:n])


def _amount(rng):
    k = rng.randrange(6)
    if k == 0:
        return 0
    if k == 1:
        return rng.choice([1, 127, 128, 2 ** 14, 2 ** 32, 2 ** 63 - 1, 2 ** 64 - 1, 2 ** 64])
    return rng.getrandbits(rng.randrange(1, 65))


def _micheline(rng, depth=0):
    k = rng.randrange(5 if depth < 2 else 3)
    if k == 0:
        return {'int': str(rng.big_int(80))}
    if k == 1:
        return {'string': ''.join(rng.choice('abcXYZ 09') for _ in range(rng.randrange(0, 12)))}
    if k == 2:
        return {'bytes': rng.bytes_(rng.randrange(0, 10)).hex()}
    if k == 3:
        return {'prim': 'Pair', 'args': [_micheline(rng, depth + 1), _micheline(rng, depth + 1)]}
    return [_micheline(rng, depth + 1) for _ in range(rng.randrange(0, 3))]


UNIT_SCRIPT = {
    'code': [{'prim': 'parameter', 'args': [{'prim': 'unit'}]}, {'prim': 'storage', 'args': [{'prim': 'unit'}]},
             {'prim': 'code', 'args': [[{'prim': 'CDR'}, {'prim': 'NIL', 'args': [{'prim': 'operation'}]}, {'prim': 'PAIR'}]]}],
    'storage': {'prim': 'Unit'},
}


def gen_content_spec(rng, kind, idx):
    """a JSON-able description from which the operation is built (so a case replays from its description)"""
    tz = _addr([6, 161, 159], f'dest{rng.randrange(5)}')
    kt = _addr([2, 90, 121], f'kt{rng.randrange(5)}')
    if kind == 'reveal':
        return {'kind': kind}
    if kind == 'transaction':
        to_kt = rng.random() < 0.4
        spec = {'kind': kind, 'destination': kt if to_kt else tz, 'amount': _amount(rng)}
        if to_kt and rng.random() < 0.7:
            spec['parameters'] = {'entrypoint': rng.choice(['default', 'root', 'do', 'mint', 'a' * rng.randrange(1, 31)]),
                                  'value': rng.choice([{'prim': 'Unit'}, _micheline(rng)])}
        return spec
    if kind == 'origination':
        spec = {'kind': kind, 'balance': _amount(rng), 'storage': rng.choice([{'prim': 'Unit'}])}
        if rng.random() < 0.3:
            spec['delegate'] = tz
        return spec
    if kind == 'delegation':
        return {'kind': kind, 'delegate': rng.choice(['', tz, None])}
    if kind == 'register_global_constant':
        return {'kind': kind, 'value': _micheline(rng)}
    if kind == 'transfer_ticket':
        return {'kind': kind, 'ticket_contents': _micheline(rng), 'ticket_ty': {'prim': rng.choice(['string', 'nat', 'bytes'])},
                'ticket_ticketer': kt, 'ticket_amount': _amount(rng) + 1, 'destination': rng.choice([kt, tz]),
                'entrypoint': rng.choice(['default', 'receive', 'x' * rng.randrange(1, 20)])}
    if kind == 'smart_rollup_add_messages':
        return {'kind': kind, 'message': [rng.bytes_(rng.randrange(0, 40)).hex() for _ in range(rng.randrange(1, 4))]}
    if kind == 'smart_rollup_execute_outbox_message':
        return {'kind': kind, 'rollup': _addr([6, 124, 117], 'rollup'), 'cemented_commitment': _addr([17, 165, 134, 138], 'commit', 32),
                'output_proof': rng.bytes_(rng.randrange(0, 60)).hex()}
    raise AssertionError(kind)


def build_op(cli, spec):
    k = spec['kind']
    if k == 'reveal':
        return cli.reveal()
    if k == 'transaction':
        return cli.transaction(destination=spec['destination'], amount=spec['amount'], parameters=spec.get('parameters'))
    if k == 'origination':
        return cli.origination(script={'code': UNIT_SCRIPT['code'], 'storage': spec['storage']}, balance=spec['balance'],
                               delegate=spec.get('delegate'))
    if k == 'delegation':
        return cli.delegation(delegate=spec['delegate'])
    if k == 'register_global_constant':
        return cli.register_global_constant(value=spec['value'])
    if k == 'transfer_ticket':
        return cli.transfer_ticket(ticket_contents=spec['ticket_contents'], ticket_ty=spec['ticket_ty'],
                                   ticket_ticketer=spec['ticket_ticketer'], ticket_amount=spec['ticket_amount'],
                                   destination=spec['destination'], entrypoint=spec['entrypoint'])
    if k == 'smart_rollup_add_messages':
        return cli.smart_rollup_add_messages(message=[bytes.fromhex(m) for m in spec['message']])
    if k == 'smart_rollup_execute_outbox_message':
        return cli.smart_rollup_execute_outbox_message(rollup=spec['rollup'], cemented_commitment=spec['cemented_commitment'],
                                                       output_proof=bytes.fromhex(spec['output_proof']))
    raise AssertionError(k)


def gen_sim(rng):
    def one(main):
        r = rng.randrange(8)
        if r == 0:
            m = 0
        elif r == 1:
            m = rng.choice([1, 999, 1000, 1001, 99999, 100000, 168999, 1039999001, 1040000000])
        elif r == 2:
            m = rng.getrandbits(rng.randrange(1, 45))
        else:
            m = rng.randrange(100000, 20000000)
        d = {'milligas': m}
        if rng.random() < 0.4:
            d['storage_diff'] = rng.choice([0, 1, 67, 257, 4096, rng.getrandbits(20)])
        if rng.random() < 0.25:
            d['allocated' if main or rng.random() < 0.5 else 'allocated'] = True
        return d
    sim = one(True)
    if rng.random() < 0.3:
        sim['internal'] = [one(False) for _ in range(rng.randrange(1, 4))]
    return sim


def gen_case(rng, idx, tier):
    r = rng.random()
    n = 1 if r < 0.22 else 2 if r < 0.34 else rng.randrange(3, 8) if r < 0.7 else rng.randrange(8, 51)
    if tier == 'quick' and n > 20 and rng.random() < 0.5:
        n = rng.randrange(2, 12)
    homog = rng.random() < 0.35
    k0 = rng.choice(KINDS)
    contents = [gen_content_spec(rng, k0 if homog else rng.choice(KINDS), i) for i in range(n)]
    case = {
        'mode': rng.choice(['fill', 'autofill']),
        'curve': rng.choice(CURVES),
        'hard_gas': rng.choice([1040000] * 6 + [520000, 100000, 52000, 5200, 49, 2080000, 10 ** 7]),
        'hard_storage': rng.choice([60000] * 4 + [30000, 1000, 10]),
        'counter': rng.choice([0, 100, 127, 128, 16383, 16384, 2 ** 32, 2 ** 63, 2 ** 64 - 1, 2 ** 64,
                               rng.getrandbits(rng.randrange(1, 65)), rng.getrandbits(rng.randrange(1, 65))]),
        'pending': rng.choice([0] * 5 + [1, 2, 3, 130]),
        'contents': contents,
        'via_bulk': rng.random() < 0.5,
    }
    case['sims'] = [gen_sim(rng) for _ in range(n)] if case['mode'] == 'autofill' else None
    return case


_DUMMY_BLSIG = None


def run_real(case, sign_real_bls=False):
    """returns dict(contents=[(fee,counter,gas,storage)], parsed=<stub parse of the signed bytes>, json=<contents>) or {'error': enum}"""
    global _DUMMY_BLSIG
    from harness import stubnode as sn
    from pytezos.operation.group import OperationGroup
    key = sn.test_key(case['curve'])
    pkh = key.public_key_hash()
    node = sn.make_stub_node(hard_gas=case['hard_gas'], hard_storage=case['hard_storage'])
    node.add_account(pkh, counter=case['counter'])
    if case['pending']:
        node.add_pending(pkh, case['pending'])
    if case.get('sims'):
        sims = case['sims']
        node.simulate = lambda i, c: sims[i]
    cli = sn.make_client(node, key)
    ops = [build_op(cli, s) for s in case['contents']]
    if case.get('via_bulk') or len(ops) == 0:
        opg = cli.bulk(*ops)
    else:
        opg = ops[0]
        for o in ops[1:]:
            opg = opg.operation(o.contents[0])
    if case.get('prior_override') is not None:
        # an EARLIER call with an explicit per-call override (a private chain with cheaper gas): its own result is the caller's
        # business and is not judged; the all-defaults call that follows must price gas at the node's default again
        try:     # on a client of its own: counters handed out by that fill stay in that client's context (C25's business)
            other = sn.make_client(node, key)
            build_op(other, case['contents'][0] if case['contents'] else {'kind': 'transaction', 'destination': pkh, 'amount': 1}) \
                .fill(minimal_nanotez_per_gas_unit=case['prior_override'])
        except Exception:
            pass
    try:
        if case.get('gas_price') is not None:
            # the documented per-call keyword, set to the node's default or a HIGHER price: the fee may only grow
            g = opg.fill(minimal_nanotez_per_gas_unit=case['gas_price'])
        else:
            g = opg.fill() if case['mode'] == 'fill' else opg.autofill()
    except ZeroDivisionError:
        return {'error': 'undefined'}
    except KeyError:
        return {'error': 'undefined'}
    sign_how = 'sign()'
    if case['curve'] == 'BL' and not sign_real_bls:
        # py_ecc needs ~0.5 s per BLS signature: only a sample is really signed, the rest carry a well-formed 96-byte BLsig
        if _DUMMY_BLSIG is None:
            _DUMMY_BLSIG = sn.b58check_encode(bytes([40, 171, 64, 207]) + bytes(96))
        signed = g._spawn(signature=_DUMMY_BLSIG)
        sign_how = 'dummy BLsig'
    else:
        try:
            signed = g.sign()
        except ValueError:
            if case['curve'] != 'BL':
                raise
            # pinned tree: Key.sign(generic=True) cannot encode a 96-byte BLS signature (C23's business): sign with the
            # curve-specific prefix instead
            sig = key.sign(b'\x03' + bytes.fromhex(g.forge()), generic=False)
            sign_how = 'key.sign(generic=False)'
            signed = g._spawn(signature=sig)
    payload = signed.binary_payload()
    parsed = sn.parse_signed_operation(payload)
    return {'contents': [(int(c['fee']), int(c['counter']), int(c['gas_limit']), int(c['storage_limit'])) for c in g.contents],
            'json': g.contents, 'parsed': parsed, 'sign': sign_how, 'pkh': pkh}


def model_line(case, res):
    parsed = res['parsed']
    src = res['pkh'][:3]
    parts = [f"{case['mode']} {src} {case['hard_gas']} {case['hard_storage']} {case['counter']} {case['pending']}"]
    for i, (c, p) in enumerate(zip(res['json'], parsed['contents'])):
        base = p['size'] - sum(p['field_lens'].values())
        kt = 1 if str(c.get('destination', '')).startswith('KT') else 0
        s = f"{c['kind']} {kt} {base}"
        if case['mode'] == 'autofill':
            sim = case['sims'][i]
            rs = [sim] + list(sim.get('internal', []))
            s += ' ' + ','.join(f"{r.get('milligas', 0)}:{r.get('storage_diff', 0)}:{1 if r.get('allocated') else 0}" for r in rs)
        parts.append(s)
    return ' | '.join(parts)


def impl_line(res):
    from harness import stubnode as sn
    p = res['parsed']
    ok = 1 if sn.fee_accepted(p['fee'], p['size'], p['gas']) else 0
    return ' '.join(','.join(map(str, t)) for t in res['contents']) + f" | size={p['size']} gas={p['gas']} fee={p['fee']} ok={ok}"


def float_guard_ok(case):
    """the model is only defined where Python's float divisions are exact"""
    if case['mode'] != 'autofill':
        return True
    for sim in case['sims']:
        for r in [sim] + list(sim.get('internal', [])):
            if r.get('milligas', 0) >= 2 ** 53:
                return False
    return True


def shrink(case, fails):
    """smaller failing variants: fewer contents, plain transactions, node defaults"""
    best = case
    plain = {'kind': 'transaction', 'destination': _addr([6, 161, 159], 'dest0'), 'amount': 1}
    cands = []
    for n in (1, 2, 3):
        if n < len(case['contents']):
            cands.append({**case, 'contents': [plain] * n, 'sims': [{'milligas': 1000000}] * n if case['sims'] else None,
                          'hard_gas': 1040000, 'hard_storage': 60000, 'counter': 100, 'pending': 0})
            cands.append({**case, 'contents': case['contents'][:n], 'sims': case['sims'][:n] if case['sims'] else None})
    cands.append({**case, 'contents': [plain] * len(case['contents']),
                  'sims': [{'milligas': 1000000}] * len(case['contents']) if case['sims'] else None,
                  'hard_gas': 1040000, 'hard_storage': 60000, 'counter': 100, 'pending': 0})
    for c in cands:
        try:
            if fails(c):
                if len(c['contents']) < len(best['contents']) or (len(c['contents']) == len(best['contents']) and c['counter'] == 100):
                    best = c
                    if len(c['contents']) == 1:
                        break
        except Exception:
            continue
    return best


def run(ctx):
    ctx.prepare_lean(extract.generate(PROP))
    from harness import stubnode as sn
    ctx.extra['rule'] = ('groups of 1..50 manager operations (all 8 forgeable kinds, homogeneous and mixed), four source curves, node counter '
                         'up to 2^64, amounts up to 2^64, hard limits of the node varied, pending mempool operations, simulated consumptions '
                         '(incl. internal results, allocations, 0 and > hard limit); real fill()/autofill() then sign(); oracle = node filter on '
                         'the actual signed bytes; non-trivial = the group has >= 1 content and the fee was chosen by the client')
    ctx.assumptions += [
        'node rule (100 mutez + 1000 nanotez/byte + 100 nanotez/gas unit over the signed operation) is my transcription of the Octez default prevalidator filter',
        'the simulated node stands for the RPC surface; forging of the contents is C06, signatures are C23: for tz4 sources on a tree whose '
        'Key.sign(generic=True) rejects BLS, a sample is signed with key.sign(generic=False) and the rest carry a well-formed 96-byte BLsig',
        'Python float division int(a*g/1000), ceil(m/1000) modelled as exact floor/ceiling under the guard < 2^53 (sampled stream `pyfloat`)',
        'fees at or above 2^63 mutez (not representable on the node) are outside the theorem and the oracle',
        'explicit counter= / gas_limit= / storage_limit= / fee= arguments (not chosen by the client) are not modelled',
    ]
    n_groups = 2000 if ctx.tier == 'quick' else 100000
    cases = [gen_case(ctx.rng, i, ctx.tier) for i in range(n_groups)]
    # DESIGN's probe configurations first: plain transactions, 1000 gas consumed, n = 1, 2, 5, every curve, both paths
    plain = {'kind': 'transaction', 'destination': _addr([6, 161, 159], 'dest0'), 'amount': 5}
    fixed = []
    for curve in CURVES:
        for n in (1, 2, 5, 50):
            for mode in ('fill', 'autofill'):
                fixed.append({'mode': mode, 'curve': curve, 'hard_gas': 1040000, 'hard_storage': 60000, 'counter': 100, 'pending': 0,
                              'contents': [plain] * n, 'via_bulk': True, 'sims': [{'milligas': 1000000}] * n if mode == 'autofill' else None})
    cases = fixed + cases
    for i, c in enumerate(cases):
        if i % 9 == 4:
            c['prior_override'] = ctx.rng.choice([0, 1, 50, 99, 100, 1000])
        if i % 9 == 7 and c['mode'] == 'fill':
            c['gas_price'] = ctx.rng.choice([100, 100, 101, 150, 250, 999, 1000, 1999, 2500])
    bls_budget = [6 if ctx.tier == 'quick' else 40]

    jobs = []
    for case in cases:
        real_bls = case['curve'] == 'BL' and bls_budget[0] > 0
        if real_bls:
            bls_budget[0] -= 1
        jobs.append((case, real_bls))
    if ctx.tier == 'thorough' and len(jobs) > 5000:
        import multiprocessing as mp
        import os
        with mp.get_context('fork').Pool(min(16, os.cpu_count() or 1)) as pool:   # results keep the case order: seed-deterministic
            results = pool.starmap(run_real, jobs, chunksize=200)
    else:
        results = [run_real(*j) for j in jobs]
    lines, idxs = [], []
    for i, (case, res) in enumerate(zip(cases, results)):
        if 'error' not in res and float_guard_ok(case) and case.get('gas_price') is None:
            idxs.append(i)
            lines.append(model_line(case, res))
    # float-division guard stream
    fl = []
    for _ in range(400 if ctx.tier == 'quick' else 5000):
        a = ctx.rng.choice([ctx.rng.getrandbits(ctx.rng.randrange(1, 54)), 2 ** 53 - 1 - ctx.rng.randrange(0, 3000),
                            1000 * ctx.rng.getrandbits(ctx.rng.randrange(1, 43)) + ctx.rng.choice([0, 1, 999])])
        if a < 2 ** 53:
            fl.append(a)
    model = ctx.model(lines + [f'trunc {a} 1000' for a in fl] + [f'ceil {a} 1000' for a in fl])
    by_idx = dict(zip(idxs, model[:len(lines)])) if model is not None else {}

    def fails(c):
        r = run_real(c)
        if 'error' in r:
            return False
        p = r['parsed']
        return p['fee'] < MUTEZ_MAX and not sn.fee_accepted(p['fee'], p['size'], p['gas'])

    shrunk = {}
    for i, (case, res) in enumerate(zip(cases, results)):
        n = len(case['contents'])
        desc = {k: case[k] for k in ('mode', 'curve', 'hard_gas', 'hard_storage', 'counter', 'pending')}
        desc['kinds'] = [c['kind'] for c in case['contents']]
        desc['h'] = hashlib.sha1(repr(case).encode()).hexdigest()[:12]
        ctx.case(desc, nontrivial='error' not in res and n >= 1)
        ctx.count('mode', case['mode'])
        if case.get('prior_override') is not None:
            ctx.count('earlier_call_with_gas_price_override', case['prior_override'])
        if case.get('gas_price') is not None:
            ctx.count('explicit_gas_price_at_or_above_default', case['gas_price'])
        ctx.count('curve', case['curve'])
        ctx.count('batch_size', 1 if n == 1 else 2 if n == 2 else '3-7' if n < 8 else '8-20' if n <= 20 else '21-50')
        for c in case['contents']:
            ctx.count('kind', c['kind'])
        if 'error' in res:
            ctx.count('outcome', res['error'])
            continue
        p = res['parsed']
        ctx.count('signed_with', res['sign'])
        # the independent parser and the JSON contents must agree (otherwise the harness, not the property, is broken)
        for t, q in zip(res['contents'], p['contents']):
            if t != (q['fee'], q['counter'], q['gas_limit'], q['storage_limit']):
                ctx.mismatch('payload-vs-json', desc, str(t), str((q['fee'], q['counter'], q['gas_limit'], q['storage_limit'])))
        ok = sn.fee_accepted(p['fee'], p['size'], p['gas'])
        ctx.count('outcome', 'accepted' if ok else 'underpaid')
        ctx.count('margin_mutez', min(max(p['fee'] - sn.min_fee_mutez(p['size'], p['gas']), -1), 30) // 10 * 10)
        if not ok and p['fee'] < MUTEZ_MAX:
            # classify first (cheap), shrink only the first few failing groups of each class
            cls0 = (case['mode'], case['curve'] == 'BL', n >= 2)
            shrunk[cls0] = shrunk.get(cls0, 0) + 1
            small = shrink(case, fails) if shrunk[cls0] <= 3 else case
            r2 = run_real(small)
            p2 = r2['parsed']
            tz4 = small['curve'] == 'BL'
            m = len(small['contents'])
            # would a 64-byte signature have been accepted?  then the defect is the tz4 allowance, otherwise the batch
            sig_only = tz4 and sn.fee_accepted(p2['fee'], p2['size'] - 32, p2['gas'])
            gp = f"(minimal_nanotez_per_gas_unit={small['gas_price']})" if small.get('gas_price') is not None else ''
            key = f"{small['mode']}{gp}:{'tz4-signature-allowance' if sig_only else ('batch-fee-first-content-only' if m >= 2 else 'single')}"
            what = (f"{small['mode']}({gp[1:-1]}) then sign(), source {r2['pkh'][:3]}, {m} x {sorted({c['kind'] for c in small['contents']})}: "
                    f"fee {p2['fee']} mutez < node minimum {sn.min_fee_mutez(p2['size'], p2['gas'])} "
                    f"(signed size {p2['size']} bytes, total gas limit {p2['gas']})")
            ctx.violation(key, what, {'case': small, 'fee': p2['fee'], 'size': p2['size'], 'gas': p2['gas'],
                                      'minimum': sn.min_fee_mutez(p2['size'], p2['gas']), 'original_index': i})
        if i in by_idx:
            got = impl_line(res)
            if got != by_idx[i]:
                ctx.mismatch('fees', {**desc, 'line': lines[idxs.index(i)][:400]}, got, by_idx[i])
    if model is not None:
        for a, mt, mc in zip(fl, model[len(lines):len(lines) + len(fl)], model[len(lines) + len(fl):]):
            if str(int(a / 1000)) != mt:
                ctx.mismatch('pyfloat', {'a': a, 'op': 'int(a/1000)'}, str(int(a / 1000)), mt)
            if str(math.ceil(a / 1000)) != mc:
                ctx.mismatch('pyfloat', {'a': a, 'op': 'ceil(a/1000)'}, str(math.ceil(a / 1000)), mc)
    ctx.extra['groups'] = len(cases)
    ctx.extra['contents_total'] = sum(len(c['contents']) for c in cases)
