"""C07 — signing and verification for every key kind.

Streams
  scrub     `scrub_input` on bytes and on hex / 0x-hex / spaced / odd / ASCII / non-ASCII strings vs the Lean mirror
  sign      random secrets on the four curves x messages (bytes, hex str, 0x-hex str, ASCII text) x generic/specific:
            real Key.sign vs Lean `sign` (fed the digest-level answers of the primitives);
            oracle: signing succeeds, the text has the right kind and length, real Key.verify accepts it,
            CHECK_SIGNATURE pushes True, and an INDEPENDENT implementation (cryptography / pairing equation)
            accepts the Base58-decoded signature over Blake2b-256 of the message (the message itself for BLS)
  verify    alterations of message / signature / key, other curves, degenerate signatures (zero, r = 0, s = 0,
            r = n, all-ones): real Key.verify vs Lean `verify`; CHECK_SIGNATURE vs Lean `checkSignature`;
            oracle: never accepted, Key.verify raises ValueError (as documented) whenever the key is a valid
            point, CHECK_SIGNATURE then pushes False.
The primitives (pysodium, coincurve, fastecdsa, py_ecc) are sampled here, not proved."""
import multiprocessing
import os
import random

from harness import keylib as K
from translator import extract

PROP = 'C07'


# ---------------------------------------------------------------- real code access (inside functions only)

def real_sign(key, msg, generic):
    try:
        return 'ok ' + K.text_hex(key.sign(msg, generic=generic))
    except Exception as e:
        return K.canon_exc(e)


def real_verify(key, sig, msg):
    try:
        r = key.verify(sig, msg)
        return 'ok' if r is True else f'returned {r!r}'
    except Exception as e:
        return K.canon_exc(e)


def real_check(pk_text, sig_text, msg):
    """CHECK_SIGNATURE on the real instruction class: 'true' / 'false' / 'err …' / 'untypable' (operands rejected)"""
    from pytezos.context.impl import ExecutionContext
    from pytezos.michelson.instructions.crypto import CheckSignatureInstruction
    from pytezos.michelson.stack import MichelsonStack
    from pytezos.michelson.types import BytesType, KeyType, SignatureType
    try:
        st = MichelsonStack()
        st.push(BytesType.from_value(msg))
        st.push(SignatureType.from_value(sig_text))
        st.push(KeyType.from_value(pk_text))
    except Exception:
        return 'untypable'
    try:
        CheckSignatureInstruction.execute(st, [], ExecutionContext())
        return 'true' if bool(st.pop1()) else 'false'
    except Exception as e:
        inner = e.__cause__ or e.__context__ or e
        return K.canon_exc(inner) if inner is not e else f'err Other {type(e).__name__}'


def real_check_optimized(curve, pub, raw_sig, msg, key_as_bytes):
    """the same instruction with the signature (and, alternately, the key) given in its OPTIMIZED Micheline form — raw bytes, the way
    values arrive from UNPACK, from a node in optimized mode, or from `PUSH signature 0x…`"""
    from pytezos.context.impl import ExecutionContext
    from pytezos.michelson.instructions.crypto import CheckSignatureInstruction
    from pytezos.michelson.stack import MichelsonStack
    from pytezos.michelson.types import BytesType, KeyType, SignatureType
    try:
        st = MichelsonStack()
        st.push(BytesType.from_value(msg))
        st.push(SignatureType.from_micheline_value({'bytes': raw_sig.hex()}))
        if key_as_bytes:
            tag = {'ed': 0, 'sp': 1, 'p2': 2, 'BL': 3}[curve]
            st.push(KeyType.from_micheline_value({'bytes': (bytes([tag]) + pub).hex()}))
        else:
            st.push(KeyType.from_value(K.tz_encode({'ed': 'edpk', 'sp': 'sppk', 'p2': 'p2pk', 'BL': 'BLpk'}[curve], pub)))
    except Exception as e:      # noqa: BLE001
        return f'untypable {type(e).__name__}'
    try:
        CheckSignatureInstruction.execute(st, [], ExecutionContext())
        return 'true' if bool(st.pop1()) else 'false'
    except Exception as e:      # noqa: BLE001
        inner = e.__cause__ or e.__context__ or e
        return f'err {type(inner).__name__}'


def valid_point(curve, pk):
    """is `pk` a public point an independent implementation can parse?"""
    try:
        if curve == 'ed':
            return len(pk) == 32
        if curve in ('sp', 'p2'):
            from cryptography.hazmat.primitives.asymmetric import ec
            ec.EllipticCurvePublicKey.from_encoded_point(ec.SECP256K1() if curve == 'sp' else ec.SECP256R1(), pk)
            return True
        from py_ecc.bls.g2_primitives import pubkey_to_G1, subgroup_check
        from py_ecc.optimized_bls12_381 import is_inf
        p = pubkey_to_G1(pk)
        return not is_inf(p) and subgroup_check(p)
    except Exception:
        return False


# ---------------------------------------------------------------- oracles for the model

def payload_candidates(curve, em):
    return [em] if curve == 'BL' else [K.blake(em), em]


def sign_line(curve, pub, sk, generic, msg):
    o = K.Oracles()
    try:
        em = K.scrub_spec(msg)
    except ValueError:
        em = None
    if em is not None and sk:
        o.b2b(32, em)
        for p in payload_candidates(curve, em):
            raw = o.sign(curve, sk, p)
            if raw is not None:
                for pfx in (b'sig', curve.encode() + b'sig'):
                    o.enc(pfx, raw)
    return K.line(['sign', curve, K.hx(pub), K.hx(sk) if sk is not None else 'none', '1' if generic else '0', K.py_in(msg)], o)


def verify_oracles(o, curve, pub, sig, msg):
    try:
        es, em = K.scrub_spec(sig), K.scrub_spec(msg)
    except ValueError:
        return
    o.b2b(32, em)
    raw = o.dec(es)
    if raw is not None and pub:
        for p in payload_candidates(curve, em):
            o.ver(curve, pub, p, raw)


def verify_line(curve, pub, sig, msg):
    o = K.Oracles()
    verify_oracles(o, curve, pub, sig, msg)
    return K.line(['verify', curve, K.hx(pub), K.py_in(sig), K.py_in(msg)], o)


def check_line(curve, pk_text, pub, sig_text, msg):
    o = K.Oracles()
    o.dec(pk_text.encode())
    verify_oracles(o, curve, pub, sig_text, msg)
    return K.line(['check', K.text_hex(pk_text), K.text_hex(sig_text), K.hx(msg)], o)


# ---------------------------------------------------------------- one case = one key, one message (worker process)

def sig_kind(text):
    for k in ('edsig', 'spsig', 'p2sig', 'BLsig', 'sig'):
        if text.startswith(k):
            return k
    return None


def eval_case(case):
    from harness import common
    common.use_repo()
    from pytezos.crypto.key import Key
    rng = random.Random(case['seed'])
    curve, secret, msg = case['curve'], case['secret'], case['msg']
    out = []          # records: dict(stream, desc, line, impl, nontrivial)
    viol = []         # (key, what, replay)
    secret_form = 'seed'
    if curve == 'ed' and case['seed'] % 3 == 0:
        # an Ed25519 secret key is also accepted in its 64-byte form (seed followed by the public point; the 98-character `edsk…`):
        # the key made from it is the key of the seed
        long_sk = secret + K.indep_pubkey('ed', secret)
        if case['seed'] % 2:
            key, secret_form = Key.from_secret_exponent(long_sk, b'ed'), '64-byte'
        else:
            key, secret_form = Key.from_encoded_key(K.tz_encode('edsk64', long_sk) if hasattr(K, 'PREFIX') and 'edsk64' in getattr(K, 'PREFIX', {}) else
                                                    __import__('base58').b58encode_check(bytes([43, 246, 78, 7]) + long_sk).decode()), 'edsk-98'
    else:
        key = Key.from_secret_exponent(secret, curve.encode())
    pub, sk = key.public_point, key.secret_exponent
    pk_text = key.public_key()
    em = K.scrub_spec(msg)
    base = {'curve': curve, 'secret': secret.hex(), 'msg': K.py_in(msg), **({'secret_given_as': secret_form} if secret_form != 'seed' else {})}

    def rec(stream, desc, line, impl, nontrivial=True):
        out.append({'stream': stream, 'desc': {**base, **desc}, 'line': line, 'impl': impl, 'nontrivial': nontrivial})

    # public key vs an independent derivation (C08 covers this in depth; here it guards the independent verifier)
    if K.indep_pubkey(curve, secret) != pub:
        viol.append((f'public-key-differs:{curve}' + (f':{secret_form}' if secret_form != 'seed' else ''), f'{curve} secret {secret.hex()} (given as {secret_form}): public point {pub.hex()} differs from the independent derivation',
                     {**base}))
    sigs = []
    for generic in case['generics']:
        res = real_sign(key, msg, generic)
        rec('sign', {'generic': generic}, sign_line(curve, pub, sk, generic, msg), res)
        if not res.startswith('ok '):
            viol.append((f'sign-raises:{curve}:generic={generic}', f'Key.sign(generic={generic}) of a {curve} key raised ({res}); secret {secret.hex()} message {K.py_in(msg)}',
                         {**base, 'generic': generic, 'result': res}))
            continue
        text = bytes.fromhex(res[3:]).decode()
        kind = sig_kind(text)
        want_kinds = {True: ('sig', 'BLsig') if curve == 'BL' else ('sig',), False: (curve + 'sig',)}[generic]
        raw = K.tz_decode(kind, text) if kind else None
        if kind not in want_kinds or raw is None or len(raw) != K.SIG_LEN[curve]:
            viol.append((f'signature-form:{curve}:generic={generic}', f'{text[:12]}… is not a {"/".join(want_kinds)} signature of {K.SIG_LEN[curve]} bytes',
                         {**base, 'generic': generic, 'signature': text}))
            continue
        sigs.append((generic, text, kind, raw))
        v = real_verify(key, text, msg)
        rec('verify', {'what': 'own', 'generic': generic}, verify_line(curve, pub, text, msg), v)
        if v != 'ok':
            viol.append((f'verify-rejects-own-signature:{curve}', f'Key.verify rejected the signature just made ({v})', {**base, 'generic': generic, 'signature': text}))
        if case['independent'] and (curve != 'BL' or not generic) and not K.indep_verify(curve, pub, em, raw):
            viol.append((f'independent-verifier-rejects:{curve}', f'independent {curve} verification rejects {text[:16]}… over ' +
                         ('the message' if curve == 'BL' else 'Blake2b-256(message)'), {**base, 'generic': generic, 'signature': text}))
        c = real_check(pk_text, text, em)
        rec('check', {'what': 'own', 'generic': generic}, check_line(curve, pk_text, pub, text, em), c)
        if c != 'true':
            viol.append((f'check-signature-differs:{curve}', f'CHECK_SIGNATURE gives {c} where Key.verify returned True', {**base, 'signature': text}))
        if not generic or curve == 'BL':
            for key_as_bytes in (False, True):
                c2 = real_check_optimized(curve, pub, raw, em, key_as_bytes)
                if c2 != 'true':
                    viol.append((f'check-signature-optimized-form:{curve}', f'CHECK_SIGNATURE on the signature given as bytes 0x{raw.hex()[:16]}… '
                                 f'({"key as bytes too" if key_as_bytes else "key as text"}) gives {c2}; the same signature as text verifies',
                                 {**base, 'signature_bytes': raw.hex(), 'key_as_bytes': key_as_bytes}))
                    break

    # ---- alterations
    def expect_reject(what, vkey, vpub, vcurve, sig_text, vmsg, key_is_valid=True, do_check=True):
        """vkey verifies sig_text over vmsg: must not accept; ValueError when the key is a valid point; CHECK_SIGNATURE False"""
        v = real_verify(vkey, sig_text, vmsg)
        rec('verify', {'what': what}, verify_line(vcurve, vpub, sig_text, vmsg), v)
        if v == 'ok':
            viol.append((f'accepts-altered-{what.split(":")[0]}:{vcurve}', f'Key.verify accepted an altered input ({what}): key {vpub.hex()} sig {sig_text} msg {K.py_in(vmsg)}',
                         {**base, 'what': what, 'pub': vpub.hex(), 'signature': sig_text, 'vmsg': K.py_in(vmsg)}))
        elif key_is_valid and not v.startswith('err ValueError'):
            viol.append((f'verify-raises-non-ValueError:{vcurve}:{v.split()[-1]}', f'Key.verify raised {v} (documented: ValueError) for {what}: key {vpub.hex()} sig {sig_text}',
                         {**base, 'what': what, 'pub': vpub.hex(), 'signature': sig_text, 'vmsg': K.py_in(vmsg)}))
        if do_check and isinstance(vmsg, bytes):
            pkt = vkey.public_key()
            c = real_check(pkt, sig_text, vmsg)
            if c != 'untypable':
                rec('check', {'what': what}, check_line(vcurve, pkt, vpub, sig_text, vmsg), c)
                if c == 'true' or (key_is_valid and c != 'false'):
                    viol.append((f'check-signature-differs:{vcurve}' if c == 'true' else f'check-signature-fails:{vcurve}:{c.split()[-1]}',
                                 f'CHECK_SIGNATURE gives {c} (expected False) for {what}: key {pkt} sig {sig_text} msg {vmsg.hex()}',
                                 {**base, 'what': what, 'pk': pkt, 'signature': sig_text, 'vmsg': vmsg.hex()}))

    for generic, text, kind, raw in sigs[:case['alter_sigs']]:
        for what in case['alterations']:
            if what == 'msg:bit':
                if em:
                    b = bytearray(em)
                    i = rng.randrange(len(b) * 8)
                    b[i // 8] ^= 1 << (i % 8)
                    expect_reject(what, key, pub, curve, text, bytes(b))
            elif what == 'msg:byte':
                b = bytearray(em)
                if b and rng.random() < 0.7:
                    i = rng.randrange(len(b))
                    b[i] = (b[i] + rng.randrange(1, 256)) % 256
                else:
                    b.append(rng.randrange(256))
                expect_reject(what, key, pub, curve, text, bytes(b))
            elif what == 'msg:str':
                # the altered message given as a hex str
                b = bytearray(em or b'\0')
                b[rng.randrange(len(b))] ^= 1 << rng.randrange(8)
                expect_reject(what, key, pub, curve, text, rng.choice(['', '0x']) + bytes(b).hex(), do_check=False)
            elif what == 'sig:bit':
                b = bytearray(raw)
                i = rng.randrange(len(b) * 8)
                b[i // 8] ^= 1 << (i % 8)
                expect_reject(what, key, pub, curve, K.tz_encode(kind, bytes(b)), em)
            elif what == 'sig:byte':
                b = bytearray(raw)
                i = rng.randrange(len(b))
                b[i] = (b[i] + rng.randrange(1, 256)) % 256
                expect_reject(what, key, pub, curve, K.tz_encode(kind, bytes(b)), em)
            elif what == 'sig:char':
                i = rng.randrange(len(kind), len(text))
                ch = rng.choice([c for c in K.ALPHABET if c != text[i]])
                expect_reject(what, key, pub, curve, text[:i] + ch + text[i + 1:], em)
            elif what == 'sig:rekind' and curve != 'BL':
                # the same 64 bytes under the other admissible kind must still verify (generic <-> specific): not an alteration
                other = 'sig' if kind != 'sig' else curve + 'sig'
                t2 = K.tz_encode(other, raw)
                v = real_verify(key, t2, em)
                rec('verify', {'what': what}, verify_line(curve, pub, t2, em), v)
                if v != 'ok':
                    viol.append((f'verify-rejects-own-signature:{curve}', f'the same signature bytes as {other} are rejected ({v})', {**base, 'signature': t2}))
            elif what == 'key:other':
                s2 = bytes(rng.getrandbits(8) for _ in range(32))
                if curve == 'BL':
                    s2 = (int.from_bytes(s2, 'little') % (K.BLS_R - 1) + 1).to_bytes(32, 'little')
                k2 = Key.from_secret_exponent(s2, curve.encode())
                expect_reject(what, k2, k2.public_point, curve, text, em)
            elif what == 'key:bit':
                b = bytearray(pub)
                i = rng.randrange(len(b) * 8)
                b[i // 8] ^= 1 << (i % 8)
                k2 = Key.from_public_point(bytes(b), curve.encode())
                expect_reject(what, k2, bytes(b), curve, text, em, key_is_valid=valid_point(curve, bytes(b)))
            elif what == 'key:curve':
                c2 = rng.choice([c for c in K.CURVES if c != curve and c != 'BL'])
                k2 = Key.from_secret_exponent(bytes(rng.getrandbits(8) for _ in range(32)), c2.encode())
                expect_reject(what, k2, k2.public_point, c2, text, em)
    for what, rawsig in case.get('degenerate', []):
        for kind in ('sig', curve + 'sig'):
            expect_reject(f'sig:degenerate:{what}:{kind}', key, pub, curve, K.tz_encode(kind, rawsig), em)
    return out, viol


def degenerate_sigs(curve):
    n = {'sp': K.SECP_N, 'p2': K.P256_N}.get(curve)
    one = (1).to_bytes(32, 'big')
    z = bytes(32)
    out = [('zero', bytes(64)), ('ones', b'\xff' * 64), ('r=0', z + one), ('s=0', one + z)]
    if n:
        out += [('r=n', n.to_bytes(32, 'big') + one), ('s=n', one + n.to_bytes(32, 'big')), ('r=n-1', (n - 1).to_bytes(32, 'big') + one)]
    return out


def random_message(rng):
    n = rng.choice([0, 1, 2, 5, 16, 32, 33, 64, 100, rng.randrange(0, 300)])
    raw = bytes(rng.getrandbits(8) for _ in range(n))
    k = rng.randrange(6)
    if k <= 1:
        return raw
    if k == 2:
        return raw.hex()
    if k == 3:
        return '0x' + raw.hex()
    if k == 4:
        return raw.hex().upper() if raw else 'zz'
    return ''.join(rng.choice('ghijklmnopqrstuvwxyz GHIJKLMNOP!?.,-') for _ in range(max(1, n % 40)))


def random_secret(rng, curve):
    k = rng.randrange(12)
    if k == 0:
        s = (1).to_bytes(32, 'little' if curve == 'BL' else 'big')
    elif k == 1:
        order = {'sp': K.SECP_N, 'p2': K.P256_N, 'BL': K.BLS_R}.get(curve, 2 ** 256)
        s = (order - 1 if curve != 'ed' else 2 ** 256 - 1).to_bytes(32, 'little' if curve == 'BL' else 'big')
    else:
        s = bytes(rng.getrandbits(8) for _ in range(32))
    if curve == 'BL':
        s = (int.from_bytes(s, 'little') % (K.BLS_R - 1) + 1).to_bytes(32, 'little')
    elif curve in ('sp', 'p2'):
        order = K.SECP_N if curve == 'sp' else K.P256_N
        s = (int.from_bytes(s, 'big') % (order - 1) + 1).to_bytes(32, 'big')
    return s


def scrub_inputs(rng, n):
    out = [b'', b'\x00', 'ab', '0xab', '0x', '0X12', 'a', 'abc', 'ab cd', ' ab', 'ab ', 'a b', 'ab\tcd\n', 'ab\x0bcd', 'ab\x1ccd', 'AbCd', '0x0x12',
           'hello', 'é', 'abé', 'ab cd', '00', '0xzz', 'sigabc', 'edsig12', '12\x0012', '１２', 'ab' * 40]
    for _ in range(n):
        k = rng.randrange(8)
        raw = bytes(rng.getrandbits(8) for _ in range(rng.randrange(0, 24)))
        if k == 0:
            out.append(raw)
        elif k == 1:
            out.append(raw.hex())
        elif k == 2:
            out.append('0x' + raw.hex().upper())
        elif k == 3:
            h = raw.hex()
            i = rng.randrange(len(h) + 1)
            out.append(h[:i] + rng.choice([' ', '\t', '\n', '  ', '\r', '\x0c']) + h[i:])
        elif k == 4:
            out.append(raw.hex()[:-1] if raw else 'f')
        elif k == 5:
            out.append(''.join(chr(rng.randrange(32, 127)) for _ in range(rng.randrange(1, 12))))
        elif k == 6:
            out.append(''.join(chr(rng.choice([rng.randrange(32, 127), rng.randrange(128, 0x2000)])) for _ in range(rng.randrange(1, 8))))
        else:
            h = raw.hex()
            i = rng.randrange(len(h) + 1)
            out.append(h[:i] + rng.choice('ghxyz_-') + h[i:])
    return out


def run(ctx):
    st = {}
    for p in ('C07', 'C08', 'C23'):      # the key model reads all three generated modules
        for k, v in extract.generate(p).items():
            st[k if p == PROP else f'{p}:{k}'] = v
    import time
    t0 = time.time()
    ctx.prepare_lean(st)
    timing = {'regenerate+build+audit_s': round(time.time() - t0, 1)}
    ctx.extra['timing'] = timing
    quick = ctx.tier == 'quick'
    rng = ctx.rng
    ctx.extra['rule'] = (
        'random secrets (incl. 1 and order-1) on ed25519 / secp256k1 / P-256 / BLS12-381 x messages as bytes, hex str, 0x-hex str, upper-case hex, '
        'ASCII text x generic/specific; per signature: single-bit and single-byte alterations of message (bytes and hex-str form), of the raw signature '
        '(re-encoded with a valid checksum), one Base58 character changed, same bytes under the other kind, another key of the curve, one bit of the '
        'public point flipped, a key of another curve; degenerate signatures (zero, ones, r=0, s=0, r=n, s=n, r=n-1) under both kinds. '
        'non-trivial = everything except the scrub stream on plain bytes')
    ctx.assumptions += [
        'MODELLED, NOT VERIFIED: pysodium (Ed25519, generichash), coincurve (secp256k1), fastecdsa (P-256), py_ecc (BLS12-381 min-pk, message augmentation), '
        'hashlib.blake2b: parameters of the Lean model with the contract `Laws` (sign/verify correctness, signature lengths); exercised here by sampling only',
        'independent implementations used as oracle: `cryptography` (Ed25519, ECDSA secp256k1/P-256 on the pre-hashed Blake2b-256 digest from hashlib); '
        'for BLS the pairing equation e(pk,H(pk||m)) = e(g1,sig) re-assembled from py_ecc curve primitives (no second BLS library is installed)',
        'unforgeability / non-malleability of the schemes is a cryptographic assumption: the theorem reduces rejection of altered inputs to the primitive, '
        'the harness samples single-bit/byte alterations',
        'base58_encode / base58_decode are property C09: the Lean model receives their real answers (`Codec`), theorems assume `CodecLaws`',
        'Python str -> code points; `bytes.fromhex` modelled after CPython 3.12 (_PyBytes_FromHex), tied by the scrub stream',
    ]
    # ---- scrub stream
    from pytezos.crypto.encoding import scrub_input
    inputs = scrub_inputs(rng, 250 if quick else 6000)
    lines, impls = [], []
    for v in inputs:
        try:
            impls.append('ok ' + K.hx(scrub_input(v)))
        except Exception as e:
            impls.append(K.canon_exc(e))
        lines.append('scrub ' + K.py_in(v))
        # the statement itself, independent of the Lean mirror: bytes as they are; a str is its hexadecimal notation (with or without 0x)
        # when it is one — the empty notation "" / "0x" denotes the empty message — and its ASCII characters otherwise
        try:
            want = 'ok ' + K.hx(K.scrub_spec(v))
        except ValueError:
            want = 'err'
        if (want == 'err') != impls[-1].startswith('err') or (want != 'err' and want != impls[-1]):
            ctx.violation('scrub:' + ('empty-hex' if v in ('', '0x') else 'value'), f'scrub_input({v!r}) gives {impls[-1]}, the message / signature bytes it denotes are {want}',
                          {'input': K.py_in(v), 'got': impls[-1], 'want': want})
    model = ctx.model(lines)
    for i, v in enumerate(inputs):
        ctx.case({'stream': 'scrub', 'input': K.py_in(v)[:80]}, nontrivial=isinstance(v, str))
        ctx.count('scrub', ('bytes' if isinstance(v, bytes) else 'str') + ':' + impls[i].split()[0] + (':' + impls[i].split()[-1] if impls[i].startswith('err') else ''))
        if model is not None and model[i] != impls[i]:
            ctx.mismatch('scrub', K.py_in(v), impls[i], model[i])
    # ---- sign / verify cases
    n_fast = 32 if quick else 500
    n_bls = 4 if quick else 120
    alts_all = ['msg:bit', 'msg:byte', 'msg:str', 'sig:bit', 'sig:byte', 'sig:char', 'sig:rekind', 'key:other', 'key:bit', 'key:curve']
    cases = []
    for curve in K.CURVES:
        n = n_bls if curve == 'BL' else n_fast
        for i in range(n):
            if curve == 'BL':
                alts = rng.sample(['msg:bit', 'msg:byte', 'sig:bit', 'sig:byte', 'sig:char', 'key:other', 'key:bit', 'key:curve'], 2 if quick else 4)
            else:
                alts = alts_all
            cases.append({'curve': curve, 'secret': random_secret(rng, curve), 'msg': random_message(rng), 'seed': rng.getrandbits(48),
                          'generics': [False, True], 'alterations': alts, 'alter_sigs': 1 if curve == 'BL' else 2,
                          'independent': True,
                          'degenerate': degenerate_sigs(curve) if curve != 'BL' and i < (3 if quick else 40) else []})
    # the four fixed keys of the defect records, first
    for curve in reversed(K.CURVES):
        cases.insert(0, {'curve': curve, 'secret': bytes(range(1, 33)), 'msg': b'hello', 'seed': 1, 'generics': [False, True],
                         'alterations': ['msg:bit', 'sig:bit'] if curve == 'BL' else alts_all, 'alter_sigs': 1, 'independent': True,
                         'degenerate': degenerate_sigs(curve) if curve != 'BL' else []})
    workers = int(os.environ.get('VERIF_WORKERS', '8'))
    order = sorted(range(len(cases)), key=lambda i: cases[i]['curve'] != 'BL')     # slow ones first
    t0 = time.time()
    with multiprocessing.get_context('fork').Pool(workers) as pool:
        results = pool.map(eval_case, [cases[i] for i in order], chunksize=1)
    timing['real_code+oracles_s'] = round(time.time() - t0, 1)
    by_index = dict(zip(order, results))
    records = []
    for i in range(len(cases)):
        out, viol = by_index[i]
        records += out
        for key, what, replay in viol:
            ctx.violation(key, what, replay)
    model = ctx.model([r['line'] for r in records])
    for i, r in enumerate(records):
        ctx.case({'stream': r['stream'], **{k: (v if len(str(v)) < 90 else str(v)[:90] + '…') for k, v in r['desc'].items()}}, nontrivial=r['nontrivial'])
        ctx.count('stream', r['stream'])
        ctx.count('curve', r['desc']['curve'])
        ctx.count('outcome:' + r['stream'], ' '.join(r['impl'].split()[:3]) if r['impl'].startswith('err') else r['impl'].split()[0])
        if 'what' in r['desc']:
            ctx.count('alteration', r['desc']['what'].split(':degenerate')[0] if 'degenerate' not in r['desc']['what'] else 'sig:degenerate')
        if model is not None and model[i] != r['impl']:
            ctx.mismatch(r['stream'], r['desc'], r['impl'], model[i])
    # ---- signature-shape hunt (ECDSA curves): among many signatures of one key, those whose r / s starts with the octets where an
    # integer encoding changes width or sign (0x80 exactly, 0x7f, 0x81, 0x00 …) — each must verify, as the independent verifier says
    from pytezos.crypto.key import Key
    n_hunt = 2500 if quick else 60000
    for curve in ('sp', 'p2'):
        key = Key.from_secret_exponent(bytes(range(7, 39)), curve.encode())
        pub = key.public_point
        picked = {}
        for i in range(n_hunt):
            msg = f'hunt-{curve}-{i}'.encode()
            text = key.sign(msg, generic=False)
            raw = K.tz_decode(curve + 'sig', text)
            if raw is None or len(raw) != 64:
                ctx.violation(f'signature-form:{curve}', f'{text[:14]}… is not a 64-byte {curve}sig', {'curve': curve, 'message': msg.decode(), 'signature': text})
                break
            shape = ','.join(f'{nm}[0]={b:#04x}' for nm, b in (('r', raw[0]), ('s', raw[32])) if b in (0x80, 0x7f, 0x81, 0x00, 0x01, 0xff))
            if shape and picked.get(shape, 0) < 3:
                picked[shape] = picked.get(shape, 0) + 1
                ctx.case({'stream': 'signature-shape-hunt', 'curve': curve, 'message': msg.decode(), 'shape': shape})
                ctx.count('signature-shape', f'{curve}:{shape}')
                if not K.indep_verify(curve, pub, msg, raw):
                    ctx.violation(f'independent-verifier-rejects:{curve}:{shape}', f'independent {curve} verification rejects {text[:16]}… over {msg!r}', {'curve': curve, 'message': msg.decode(), 'signature': text})
                    continue
                for form, arg in (('own', text), ('generic', K.tz_encode('sig', raw))):
                    try:
                        ok = key.verify(arg, msg) is True
                        why = 'returned something else than True'
                    except Exception as e:  # noqa: BLE001
                        ok, why = False, f'raised {type(e).__name__}: {e}'
                    if not ok:
                        ctx.violation(f'verify-rejects-valid-signature:{curve}:{shape}', f'Key.verify({arg[:16]}…, {msg!r}) {why}; the signature ({shape}) is valid: made by Key.sign of the same '
                                      f'key and accepted by the independent verifier', {'curve': curve, 'secret': bytes(range(7, 39)).hex(), 'message': msg.decode(), 'signature': arg, 'shape': shape})
    ctx.extra['keys'] = {'fast_curves_each': n_fast + 1, 'bls': n_bls + 1, 'workers': workers}
