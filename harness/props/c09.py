"""C09 — Base58Check typed encodings.  Real `base58_encode` / `base58_decode` / `is_*` of
pytezos.crypto.encoding (and the `base58` library) against the Lean mirror, plus the property's own predicate:

* every encoding of a registered kind has the documented length and human prefix and decodes to its payload;
* whatever `base58_decode` accepts is the canonical encoding of what it returns, for a registered kind
  (so wrong checksum / unknown prefix / wrong length / foreign binary prefix must raise);
* every kind predicate accepts exactly the kinds it is named after.

The Lean driver computes the double-SHA-256 checksum itself (`RealHash.cks`, executable SHA-256 of Core/HashSha2.lean):
every compared output is the complete Base58Check text / payload, nothing is handed over by this harness.  A `cks` stream
compares the checksum function alone with hashlib on byte strings of every length around the SHA-256 block boundaries."""
import hashlib
import traceback

from translator import extract

PROP = 'C09'
ALPHABET = b'123456789ABCDEFGHJKLMNPQRSTUVWXYZabcdefghijkmnopqrstuvwxyz'

# what each predicate is *meant* to accept (independent restatement; human prefixes of the kinds)
INTENDED = {
    'is_pkh': [b'tz1', b'tz2', b'tz3', b'tz4'],
    'is_l2_pkh': [b'txr1'],
    'is_sig': [b'edsig', b'spsig', b'p2sig', b'BLsig', b'sig'],
    'is_bh': [b'B'],
    'is_ogh': [b'o'],
    'is_kt': [b'KT1'],
    'is_sr': [b'sr1'],
    'is_public_key': [b'edsk', b'edpk', b'spsk', b'sppk', b'p2sk', b'p2pk', b'BLsk', b'BLpk'],
    'is_chain_id': [b'Net'],
}


def sha256d4(b):
    return hashlib.sha256(hashlib.sha256(b).digest()).digest()[:4]


def hx(b):
    return b.hex() if b else '-'


def site(e):
    tb = traceback.extract_tb(e.__traceback__)
    return f'{type(e).__name__}@{tb[-1].name}'


def run(ctx):
    import base58
    from pytezos.crypto import encoding as enc

    ctx.prepare_lean(extract.generate(PROP))
    table = [tuple(r[:4]) for r in enc.base58_encodings]
    quick = ctx.tier == 'quick'
    rng = ctx.rng
    ctx.extra['rule'] = (
        'encode stream: every table row x {zeros, 0xff, random…} payloads (+ payload length n±1, unknown prefix); '
        'corruption stream: valid encodings with a checksum byte flipped, characters replaced/swapped/inserted/removed, '
        'trailing whitespace, neighbouring binary prefix with a valid checksum, and strings built as '
        '"human prefix + random digits" with the checksum repaired (right prefix and length, foreign binary prefix); '
        'library stream: base58.b58encode/b58decode vs Lean on random byte strings / strings; '
        'cks stream: first four bytes of SHA-256(SHA-256 x) of the Lean implementation vs hashlib for every length 0..130 and random longer inputs. '
        'non-trivial = the string passes the (length, human prefix) row search, i.e. acceptance is decided by the '
        'checksum / binary-prefix / payload-length validation')
    ctx.assumptions += [
        'SHA-256: abstract 4-byte checksum function in the general theorems; the driver and the `…_sha256` corollaries use the executable '
        'Lean SHA-256 (Core/HashSha2.lean), tied to hashlib by this run (every compared string carries a checksum; `cks` stream) and to '
        'published vectors by kernel-evaluated known-answer examples in Props/C09.lean; nothing is proved about SHA-256 itself',
        'base58 2.1.1 library: re-implemented in Lean (b58enc/b58dec, proved inverse), tied to the library by sampling only',
        'str/bytes coercions of _validate (scrub_input, str.encode) are outside the model: the model sees bytes; the harness also calls the validators with str and with hex spellings and judges those by the oracle',
    ]

    def real_decode(s):
        try:
            return 'ok ' + hx(enc.base58_decode(s))
        except ValueError as e:
            return 'err ' + site(e)

    def real_encode(v, pfx):
        try:
            return 'ok ' + hx(enc.base58_encode(v, pfx))
        except ValueError as e:
            return 'err ' + site(e)

    def canonical(s, payload):
        """spec: s is the Base58Check encoding of payload for some registered kind"""
        return any(len(payload) == n and base58.b58encode_check(p + payload) == s for (_, _, p, n) in table)

    def kind_of(s):
        """spec: the registered kind a string is a canonical encoding of (None if none)"""
        try:
            raw = base58.b58decode_check(s)
        except ValueError:
            return None
        if s != s.rstrip():
            return None
        for (h, ln, p, n) in table:
            if raw.startswith(p) and len(raw) == len(p) + n and len(s) == ln and s.startswith(h):
                return h
        return None

    lines, checks = [], []   # checks[i] = (stream, desc, real output)

    def add(stream, line, desc, real):
        lines.append(line)
        checks.append((stream, desc, real))

    # ---- self-check of the translator: regenerated table vs the imported module
    add('table', 'table', 'table', ' '.join(f'{hx(h)}/{ln}/{hx(p)}/{n}' for (h, ln, p, n) in table))

    # ---- encode stream -------------------------------------------------------------------------
    valid = []   # (row, payload, string)
    n_rand = 6 if quick else 400
    for row in table:
        h, ln, p, n = row
        payloads = [bytes(n), b'\xff' * n, bytes([0]) * (n - 1) + b'\x01', b'\x80' + bytes(n - 1)]
        payloads += [rng.bytes_(n) for _ in range(n_rand)]
        # payloads steered so that the encoding BEGINS WITH THE HUMAN PREFIX OF ANOTHER KIND (`B…` block hashes that start with
        # `BLpk`, `BLsig`, …): the kind of a string is decided by (human prefix of the row, length), never by the longest prefix match
        for (h2, ln2, p2, n2) in table:
            if h2 != h and h2.startswith(h):
                for _ in range(2 if quick else 6):
                    txt = h2 + bytes(ALPHABET[rng.randrange(58)] for _ in range(ln - len(h2)))
                    raw = base58.b58decode_int(txt).to_bytes(len(p) + n + 4, 'big') if base58.b58decode_int(txt) < 256 ** (len(p) + n + 4) else b''
                    if raw[:len(p)] == p:
                        payloads.append(raw[len(p):len(p) + n])
                        ctx.count('steered-into-foreign-prefix', f'{h.decode()}->{h2.decode()}')
        # payloads that CONTAIN the kind's own binary prefix (at the start, in the middle, at the very end, twice): the prefix is cut
        # off by position, never searched for
        if n >= len(p):
            for off in sorted({0, 1, (n - len(p)) // 2, n - len(p)} & set(range(0, n - len(p) + 1))):
                base_ = bytearray(rng.bytes_(n))
                base_[off:off + len(p)] = p
                payloads.append(bytes(base_))
            if n >= 2 * len(p):
                payloads.append((p * (n // len(p) + 1))[:n])
            ctx.count('payload-contains-own-binary-prefix', h.decode())
        for v in payloads:
            real = real_encode(v, h)
            add('encode', f'enc {hx(h)} {hx(v)}',
                {'op': 'encode', 'prefix': h.decode(), 'payload': v.hex()}, real)
            ctx.case({'op': 'encode', 'prefix': h.decode(), 'payload': v.hex()})
            ctx.count('encode-row', h.decode())
            # oracle: documented length and prefix, decodes back, predicates agree with the kind
            good = None
            if real.startswith('ok '):
                s = bytes.fromhex(real[3:])
                if len(s) != ln or not s.startswith(h):
                    ctx.violation(f'row:{h.decode()}:{n}', f'base58_encode({v.hex()}, {h!r}) = {s!r}: length {len(s)} / prefix, documented {ln} / {h!r}',
                                  {'op': 'encode', 'prefix': h.decode(), 'payload': v.hex(), 'got': s.decode('latin1'), 'documented_len': ln})
                else:
                    good = s
                back = real_decode(s)
                if good is not None and back != 'ok ' + hx(v):
                    ctx.violation(f'roundtrip:{h.decode()}:{n}', f'base58_decode(base58_encode({v.hex()}, {h!r})) = {back}',
                                  {'op': 'roundtrip', 'prefix': h.decode(), 'payload': v.hex(), 'string': s.decode('latin1'), 'got': back})
            else:
                ctx.violation(f'row:{h.decode()}:{n}', f'base58_encode({v.hex()}, {h!r}) raised {real}',
                              {'op': 'encode', 'prefix': h.decode(), 'payload': v.hex(), 'got': real})
            if good is not None:
                valid.append((row, v, good))
        # wrong payload length / unknown prefix must raise
        for v, pfx in ((bytes(n + 1), h), (bytes(max(n - 1, 0)), h), (rng.bytes_(n), h + b'x'), (rng.bytes_(n), b'')):
            real = real_encode(v, pfx)
            add('encode', f'enc {hx(pfx)} {hx(v)}',
                {'op': 'encode', 'prefix': pfx.decode(), 'payload': v.hex()}, real)
            ctx.case({'op': 'encode-bad', 'prefix': pfx.decode(), 'len': len(v)}, nontrivial=False)
            if real.startswith('ok ') and not any(r[0] == pfx and r[3] == len(v) for r in table):
                ctx.violation(f'encode-accepts:{pfx.decode()}:{len(v)}', f'base58_encode of {len(v)} bytes with prefix {pfx!r} succeeded',
                              {'op': 'encode', 'prefix': pfx.decode(), 'payload': v.hex()})

    # ---- decode of valid strings + every predicate on them -------------------------------------
    preds = sorted(INTENDED)
    for (row, v, s) in valid:
        h = row[0]
        add('decode', f'dec {hx(s)}', {'op': 'decode', 'string': s.decode('latin1')}, real_decode(s))
    step = 1 if not quick else 3
    for (row, v, s) in valid[::step]:
        h = row[0]
        for name in preds:
            got = getattr(enc, name)(s)
            add('validator', f'val {name} {hx(s)}', {'op': name, 'string': s.decode('latin1')}, 'true' if got else 'false')
            ctx.case({'op': name, 'string': s.decode('latin1')}, nontrivial=any(s.startswith(p) for p in INTENDED[name]))
            want = h in INTENDED[name]
            if got != want:
                ctx.violation(f'validator:{name}:{"accepts" if got else "rejects"}:{h.decode()}',
                              f'{name}({s.decode()}) = {got}; the string is a valid {h.decode()} ({"not " if not want else ""}one of {[p.decode() for p in INTENDED[name]]})',
                              {'op': name, 'string': s.decode('latin1'), 'kind': h.decode(), 'got': got, 'expected': want})

    # ---- argument forms of the validators: the same text as `str` and as `bytes`; and the HEX SPELLING of a valid text
    # ('747a31…' / '0x747a31…'), which is not a Base58Check encoding of anything: validators take text, they do not un-hex it
    for (row, v, s0) in valid[::(17 if quick else 5)]:
        h = row[0]
        forms = [('str', s0.decode()), ('bytes', s0), ('hex-of-text:str', s0.hex()), ('0xhex-of-text:str', '0x' + s0.hex()),
                 ('hex-of-text:bytes', s0.hex().encode()), ('upper-hex-of-text:str', s0.hex().upper())]
        # a `str` with characters outside ASCII (zero-width space, accented / full-width letters) inserted into, appended to or put in
        # front of the valid text: a longer, different string — not an encoding of anything
        t0 = s0.decode()
        j = rng.randrange(1, len(t0))
        forms += [('non-ascii-inserted:str', t0[:j] + rng.choice(['\u200b', 'é', '１', '\u00a0', '😀']) + t0[j:]),
                  ('non-ascii-appended:str', t0 + rng.choice(['\u200b', 'é', '\ufeff'])), ('non-ascii-in-front:str', rng.choice(['\ufeff', '\u200b']) + t0)]
        for name in preds:
            if not any(s0.startswith(pp) for pp in INTENDED[name]):
                continue
            for fname, arg in forms:
                try:
                    got = bool(getattr(enc, name)(arg))
                except Exception as e:  # noqa: BLE001
                    got = f'{type(e).__name__}'
                want = (h in INTENDED[name]) if fname in ('str', 'bytes') else False
                ctx.case({'op': name, 'form': fname, 'string': s0.decode('latin1')})
                ctx.count('validator-argument-form', fname)
                if got != want:
                    ctx.violation(f'validator:{name}:argument-form:{fname}',
                                  f'{name}({arg!r}) = {got}, expected {want}: the argument is {"the valid " + h.decode() + " text" if fname in ("str", "bytes") else ("a string with non-ASCII characters added to a valid text" if fname.startswith("non-ascii") else "the hex spelling of a text") + ", not a Base58Check string"}',
                                  {'op': name, 'form': fname, 'argument': arg if isinstance(arg, str) else arg.decode('latin1'), 'got': got, 'expected': want})

    # ---- corruption stream ---------------------------------------------------------------------
    def corruptions(row, v, s):
        h, ln, p, n = row
        raw = p + v
        full = raw + sha256d4(raw)
        out = []
        i = rng.randrange(1, 5)
        bad = bytearray(full)
        bad[-i] ^= 1 << rng.randrange(8)
        out.append(('checksum-flip', base58.b58encode(bytes(bad))))
        j = rng.randrange(len(s))
        c = ALPHABET[rng.randrange(58)]
        out.append(('char-replace', s[:j] + bytes([c]) + s[j + 1:]))
        j = rng.randrange(len(s) - 1)
        out.append(('char-swap', s[:j] + s[j + 1:j + 2] + s[j:j + 1] + s[j + 2:]))
        out.append(('char-drop', s[:j] + s[j + 1:]))
        out.append(('char-insert', s[:j] + bytes([c]) + s[j:]))
        out.append(('truncate', s[:-1]))
        out.append(('bad-char', s[:j] + rng.choice([b'0', b'O', b'I', b'l', b' ', b'_']) + s[j + 1:]))
        # look-alikes outside the alphabet in place of the character they resemble (`0` / `O` for `o`, `I` / `l` for `1`), after the prefix
        for ch, subs in ((b'o', (b'0', b'O')), (b'1', (b'I', b'l'))):
            pos = [i for i in range(len(h), len(s)) if s[i:i + 1] == ch]
            if pos:
                i = rng.choice(pos)
                out.append(('look-alike', s[:i] + rng.choice(subs) + s[i + 1:]))
        out.append(('trailing-space', s + rng.choice([b' ', b'\n', b'\t '])))
        out.append(('space-for-last', s[:-1] + b' '))
        out.append(('leading-one', b'1' + s[:-1]))
        # neighbouring binary prefixes with a valid checksum
        pi = int.from_bytes(p, 'big')
        for d, pay in ((-1, b'\xff' * n), (1, bytes(n)), (-1, v), (1, v)):
            q = pi + d
            if 0 < q < 256 ** len(p):
                out.append(('neighbour-bin', base58.b58encode_check(q.to_bytes(len(p), 'big') + pay)))
        # payload one byte short / long under the right binary prefix, valid checksum
        out.append(('payload-short', base58.b58encode_check(p + v[:-1])))
        out.append(('payload-long', base58.b58encode_check(p + v + b'\x00')))
        # right human prefix and length, arbitrary digits, checksum repaired
        for ln2, pad in ((ln, b''), (ln - 1, b' '), (ln - 2, b'\n ')):
            if ln2 > len(h):
                t = h + bytes(ALPHABET[rng.randrange(58)] for _ in range(ln2 - len(h)))
                r0 = base58.b58decode(t)
                if len(r0) > 4:
                    out.append(('forged-prefix' if not pad else 'forged-prefix-space', base58.b58encode_check(r0[:-4]) + pad))
        return out

    per_row = 2 if quick else 60
    by_row = {}
    for item in valid:
        by_row.setdefault(item[0], []).append(item)
    for row, items in by_row.items():
        for (row, v, s) in [items[0], items[1]] + [rng.choice(items) for _ in range(per_row)]:
            for kind, t in corruptions(row, v, s):
                real = real_decode(t)
                passes_search = any(len(t) == r[1] and t.startswith(r[0]) for r in table)
                desc = {'op': 'decode', 'corruption': kind, 'from': s.decode('latin1'), 'string': t.decode('latin1')}
                add('corrupt', f'dec {hx(t)}', desc, real)
                ctx.case(desc, nontrivial=passes_search)
                ctx.count('corruption', kind)
                ctx.count('corrupt-outcome', real.split(' ')[0] + ('' if real.startswith('ok') else ':' + real.split('@')[-1]))
                if real.startswith('ok '):
                    payload = bytes.fromhex(real[3:]) if real[3:] != '-' else b''
                    if not canonical(t, payload):
                        hrow = next((r for r in table if len(t) == r[1] and t.startswith(r[0])), None)
                        if hrow is None:
                            # no row of the table has this (length, prefix) at all
                            ctx.violation('decode-accepts-wrong-length' if t == t.rstrip() else 'decode-accepts-trailing-whitespace',
                                          f'base58_decode({t!r}) = {payload.hex()}: the string has {len(t)} characters, no registered kind with this prefix has that length '
                                          f'(made from the valid {s.decode()} by {kind})', {'op': 'decode', 'string': t.decode('latin1'), 'got': payload.hex(), 'corruption': kind})
                            continue
                        try:
                            rawt = base58.b58decode(t)
                        except ValueError:
                            rawt = None
                        if rawt is None:
                            ctx.violation('decode-accepts-characters-outside-the-alphabet', f'base58_decode({t!r}) = {payload.hex()} although the string is not Base58 '
                                          f'(a character outside the alphabet; made from the valid {s.decode()} by {kind})',
                                          {'op': 'decode', 'string': t.decode('latin1'), 'got': payload.hex(), 'row': hrow[0].decode(), 'corruption': kind})
                            continue
                        if t != t.rstrip():
                            key = 'decode-accepts-trailing-whitespace'
                        elif not rawt.startswith(hrow[2]):
                            key = 'decode-ignores-binary-prefix'
                        else:
                            key = 'decode-accepts-noncanonical'
                        ctx.violation(key, f'base58_decode({t!r}) = {payload.hex()} but the decoded bytes {rawt[:-4].hex()} are not '
                                      f'{hrow[2].hex()} + {hrow[3]} bytes (row {hrow[0].decode()}): not an encoding of any registered kind',
                                      {'op': 'decode', 'string': t.decode('latin1'), 'got': payload.hex(), 'row': hrow[0].decode(), 'corruption': kind})
                # predicates on corrupted strings: accept only canonical strings of their kinds
                if passes_search and (kind.startswith('forged') or kind in ('neighbour-bin', 'look-alike') or rng.random() < 0.2):
                    k = kind_of(t)
                    for name in preds:
                        if not any(t.startswith(pp) for pp in INTENDED[name]):
                            continue
                        got = getattr(enc, name)(t)
                        add('validator', f'val {name} {hx(t)}', {'op': name, 'string': t.decode('latin1')}, 'true' if got else 'false')
                        ctx.case({'op': name, 'string': t.decode('latin1')})
                        want = k is not None and k in INTENDED[name]
                        if got != want:
                            ctx.violation(f'validator:{name}:{"accepts" if got else "rejects"}:{"invalid" if k is None else k.decode()}',
                                          f'{name}({t!r}) = {got}, expected {want} (string is {"not a valid encoding" if k is None else "a " + k.decode()})',
                                          {'op': name, 'string': t.decode('latin1'), 'got': got, 'expected': want})

    # ---- library stream: base58.b58encode / b58decode vs Lean b58enc / b58dec ------------------
    n_lib = 1500 if quick else 60000
    for i in range(n_lib):
        ln = rng.choice([0, 1, 2, 3, 4, 8, 20, 27, 32, 33, 64, 100]) if rng.random() < 0.5 else rng.randrange(0, 120)
        b = rng.bytes_(ln)
        z = rng.choice([0, 0, 1, 2, 5])
        b = bytes(z) + b[z:] if ln >= z else b
        add('b58encode', f'b58e {hx(b)}', {'op': 'b58encode', 'bytes': b.hex()}, 'ok ' + hx(base58.b58encode(b)))
        ctx.case({'op': 'b58encode', 'bytes': b.hex()}, nontrivial=False)
        if i % 2 == 0:
            m = rng.randrange(0, 60)
            t = bytes(ALPHABET[rng.randrange(58)] for _ in range(m))
            t = b'1' * rng.choice([0, 0, 1, 3]) + t
            r = rng.random()
            if r < 0.15 and t:
                j = rng.randrange(len(t))
                t = t[:j] + rng.choice([b'0', b'O', b'I', b'l', b' ', b'\xff', b'-']) + t[j + 1:]
            elif r < 0.3:
                t = t + rng.choice([b' ', b'\n', b'\t\r ', b'\x0b\x0c'])
            try:
                real = 'ok ' + hx(base58.b58decode(t))
            except ValueError as e:
                real = 'err ' + site(e)
            add('b58decode', f'b58d {hx(t)}', {'op': 'b58decode', 'string': t.decode('latin1')}, real)
            ctx.case({'op': 'b58decode', 'string': t.decode('latin1')}, nontrivial=False)

    # ---- checksum stream: Lean double SHA-256 vs hashlib (padding boundaries at 55/56/63/64/119/120 bytes) --------
    for ln in list(range(0, 131)) + [rng.randrange(131, 1200) for _ in range(20 if quick else 400)]:
        for b in ([bytes(ln), rng.bytes_(ln)] if ln <= 130 else [rng.bytes_(ln)]):
            add('cks', f'cks {hx(b)}', {'op': 'sha256d4', 'len': ln, 'bytes': b.hex() if ln <= 64 else hashlib.sha1(b).hexdigest()}, sha256d4(b).hex())
            ctx.case({'op': 'sha256d4', 'len': ln, 'sha1': hashlib.sha1(b).hexdigest()}, nontrivial=False)

    model = ctx.model(lines)
    if model is not None:
        for (stream, desc, real), m in zip(checks, model):
            if real != m:
                ctx.mismatch(stream, desc, real, m)
    ctx.extra['valid_encodings'] = len(valid)
    ctx.extra['lines'] = len(lines)
