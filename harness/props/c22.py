"""C22 — a failing REPL cell leaves the session as if it never ran.

A session is a list of cells, a cell a list of instruction tokens (the alphabet of lean/Driver/C22.lean: storage /
parameter / code declarations, PUSH, SOME, NONE, UNIT, EMPTY_BIG_MAP, UPDATE, GET, MEM, GET_AND_UPDATE, DUP, DROP, SWAP,
PAIR, CAR, CDR, NIL, ADD, FAILWITH, DROP n, DIG n, DUG n, DUP n, DIP { … } / DIP n { … } (nested, `dip{ … }` tokens),
AMOUNT, BALANCE, NOW, SENDER, SOURCE, PATCH <field> [value], BEGIN, COMMIT, RUN, DROP_ALL, BIG_MAP_DIFF).  Failures are
injected at every instruction position — positions INSIDE DIP bodies included, so the machine stack has a protected
prefix when the cell breaks — (FAIL, an ill-typed ADD / CAR, stack underflow, a parse error) and also arise naturally
(DIG / DUG / DUP n / DROP n are aimed at exactly the stack depth and one beyond).

Every session is run on a real `Interpreter` (cells as Michelson text through `Interpreter.execute`), a second time
with the cells that failed removed (metamorphic), and on the Lean mirror.  Observed after every cell: `error` or not
(and the `protected` counter the live stack object had when the cell raised), the lazy diffs and results of COMMIT /
RUN / BIG_MAP_DIFF, the stack (every big map with its id, local items, removed keys and — following the reference — the
counters and registered maps of the context it points at), `stack.protected`, and the interpreter's own context
(declared types, code, counters, registered maps, the patched amount / balance / now / sender / source / chain_id).

Property oracle (independent of the mirror): (1) after a failing cell the observation equals the one before it;
(2) the surviving cells of the session give, cell by cell, the same results and observations as in the session without
the failing cells."""
import json
import copy

from translator import extract

PROP = 'C22'

TYPES = {
    'unit': 'unit', 'nat': 'nat', 'bm': '(big_map nat nat)', 'pbn': '(pair (big_map nat nat) nat)',
    'pbb': '(pair (big_map nat nat) (big_map nat nat))', 'onat': '(option nat)',
}
BASIC = {
    'some': 'SOME', 'none': 'NONE nat', 'unit': 'UNIT', 'ebm': 'EMPTY_BIG_MAP nat nat', 'update': 'UPDATE', 'get': 'GET',
    'mem': 'MEM', 'gau': 'GET_AND_UPDATE', 'dup': 'DUP', 'drop': 'DROP', 'swap': 'SWAP', 'pair': 'PAIR', 'car': 'CAR',
    'cdr': 'CDR', 'nil': 'NIL operation', 'add': 'ADD', 'failwith': 'FAILWITH',
}
BASIC.update({'amount': 'AMOUNT', 'balance': 'BALANCE', 'now': 'NOW', 'sender': 'SENDER', 'source': 'SOURCE'})
BASIC_OF_PRIM = {v.split()[0]: k for k, v in BASIC.items()}
DEEP = {'dropn': 'DROP', 'dig': 'DIG', 'dug': 'DUG', 'dupn': 'DUP'}
DEEP_OF_PRIM = {v: k for k, v in DEEP.items()}
FIELDS = ('AMOUNT', 'BALANCE', 'CHAIN_ID', 'SENDER', 'SOURCE', 'NOW')
# string tokens of PATCH: aK = a well-formed address, xK = another non-empty string (never an address / a timestamp), e = ""
STRINGS = {
    'a0': 'KT1BEqzn5Wx8uJrZNvuS9DVHmLvG9td3fDLi', 'a1': 'tz1VSUr8wwNhLAzempoch5d6hLRiTh8Cjcjb', 'a2': 'tz1burnburnburnburnburnburnburjAYjjX',
    'x0': 'not-an-address-0', 'x1': 'NetXdQprcVkpaWU', 'x2': 'tomorrow', 'e': '',
}
TOKEN_OF_STRING = {v: k for k, v in STRINGS.items()}
DUMMY_KEY_HASH = 'tz1Ke2h7sDdakHJQh8WX4Z372du1KChsksyU'      # base58(b'\x00' * 20, b'tz1'): what SENDER / SOURCE push when unset


# ---------------------------------------------------------------- tokens -> Michelson text
def lit_text(tok):
    """literal token (U | iN | sK=V,… | P(a;b)) -> Michelson"""
    def go(s):
        if s[0] == 'U':
            return 'Unit', s[1:]
        if s[0] == 'i':
            j = 1
            while j < len(s) and (s[j].isdigit() or s[j] == '-'):
                j += 1
            return s[1:j], s[j:]
        if s[0] == 's':
            j = 1
            while j < len(s) and (s[j].isdigit() or s[j] in '=,'):
                j += 1
            body = s[1:j]
            elts = ['Elt %s %s' % tuple(e.split('=')) for e in body.split(',')] if body else []
            return '{ ' + ' ; '.join(elts) + ' }', s[j:]
        if s.startswith('P('):
            a, r = go(s[2:])
            assert r[0] == ';'
            b, r = go(r[1:])
            assert r[0] == ')'
            return f'(Pair {a} {b})', r[1:]
        raise ValueError(s)
    t, rest = go(tok)
    assert rest == ''
    return t


def instr_text(tok):
    if tok in BASIC:
        return BASIC[tok]
    head, _, rest = tok.partition(':')
    if head == 'push':
        return f'PUSH nat {rest}'
    if head in ('storage', 'parameter'):
        return f'{head} {TYPES[rest]}'
    if head == 'code':
        return 'code { ' + prog_text([b for b in rest.split(',') if b]) + ' }'
    if head in DEEP:
        return f'{DEEP[head]} {rest}'
    if head == 'patch':
        f, _, v = rest.partition(':')
        assert f in FIELDS
        if not v:
            return f'PATCH {f}'
        return f'PATCH {f} ' + (v[1:] if v[0] == 'i' else '"%s"' % STRINGS[v])
    if head in ('begin', 'run'):
        p, s = split_lits(rest)
        return f'{head.upper()} {lit_text(p)} {lit_text(s)}'
    return {'commit': 'COMMIT', 'dropall': 'DROP_ALL', 'bmd': 'BIG_MAP_DIFF'}[tok]


def split_lits(rest):
    depth = 0
    for i, ch in enumerate(rest):
        depth += ch == '('
        depth -= ch == ')'
        if ch == ':' and depth == 0:
            return rest[:i], rest[i + 1:]
    raise ValueError(rest)


def is_open(tok):
    return tok.startswith('dip') and tok.endswith('{')


def match_brace(toks, i):
    """index of the `}` closing the `dip…{` at i"""
    depth = 0
    for j in range(i, len(toks)):
        depth += is_open(toks[j])
        depth -= toks[j] == '}'
        if depth == 0:
            return j
    raise ValueError(toks)


def prog_text(toks):
    """tokens (with `dip{` / `dip:N{` … `}`) -> Michelson"""
    out, i = [], 0
    while i < len(toks):
        t = toks[i]
        if is_open(t):
            j = match_brace(toks, i)
            n = t[4:-1] if t.startswith('dip:') else ''
            out.append(f"DIP {n + ' ' if n else ''}{{ {prog_text(toks[i + 1:j])} }}")
            i = j + 1
        else:
            assert t != '}'
            out.append(instr_text(t))
            i += 1
    return ' ; '.join(out)


def cell_text(cell):
    if cell == ['parseerror']:
        return 'PUSH nat 1 ; )'
    return prog_text(cell)


# ---------------------------------------------------------------- rendering of the real objects (= Driver/C22.lean)
def show_type(expr):
    p, a = expr['prim'], expr.get('args', [])
    if p in ('storage', 'parameter'):
        return show_type(a[0])
    if p == 'big_map':
        return 'bm'
    if p == 'option':
        return f'option({show_type(a[0])})'
    if p == 'pair':
        return f'pair({show_type(a[0])},{show_type(a[1])})'
    if p == 'list':
        return 'listop'
    return p


def code_tokens(seq):
    out = []
    for ins in seq:
        p, a = ins['prim'], ins.get('args', [])
        if p == 'PUSH':
            out.append(f"push:{a[1]['int']}")
        elif p == 'DIP':
            out += ['dip{' if len(a) == 1 else f"dip:{a[0]['int']}{{"] + code_tokens(a[-1]) + ['}']
        elif p in DEEP_OF_PRIM and a:
            out.append(f"{DEEP_OF_PRIM[p]}:{a[0]['int']}")
        else:
            out.append(BASIC_OF_PRIM[p])
    return out


def show_code(expr):
    return ','.join(code_tokens(expr['args'][0]))


def show_opt(v):
    if v is None:
        return '-'
    if isinstance(v, str):
        return TOKEN_OF_STRING.get(v, '?' + v)
    return str(v)


def show_big(c):
    reg = ','.join(f"{p}:{src}:{'c' if cp else 'r'}" for p, (src, cp) in c.big_maps.items())
    return f'{c.tmp_big_map_index}/{c.alloc_big_map_index}/{reg}'


def show_ctx(c):
    st = show_type(c.storage_expr) if c.storage_expr else '-'
    pt = show_type(c.parameter_expr) if c.parameter_expr else '-'
    code = show_code(c.code_expr) if c.code_expr else '-'
    env = f'am={show_opt(c.amount)};ba={show_opt(c.balance)};now={show_opt(c.now)};se={show_opt(c.sender)};so={show_opt(c.source)};ch={show_opt(c.chain_id)}'
    return f'ctx(st={st};pt={pt};code={code};{show_big(c)};{env})'


def show_val(v, look):
    p = v.prim
    if p == 'unit':
        return 'Unit'
    if p == 'nat':
        return str(int(v))
    if p == 'mutez':
        return f'mutez:{int(v)}'
    if p == 'timestamp':
        return f'ts:{int(v)}'
    if p == 'address':
        return 'addr:' + ('dummy' if v.value == DUMMY_KEY_HASH else TOKEN_OF_STRING.get(v.value, '?' + v.value))
    if p == 'bool':
        return 'True' if bool(v) else 'False'
    if p == 'option':
        return 'None' if v.is_none() else f'Some({show_val(v.get_some(), look)})'
    if p == 'pair':
        a, b = v.items
        return f'Pair({show_val(a, look)},{show_val(b, look)})'
    if p == 'list':
        return '[' + ','.join(show_val(x, look) for x in v.items) + ']'
    if p == 'big_map':
        items = ','.join(f"{int(k)}={'-' if x is None else int(x)}" for k, x in v.items)
        rem = ','.join(str(k) for k in sorted(int(k) for k in v.removed_keys))
        s = f"BM[{'-' if v.ptr is None else v.ptr};{items};{rem}]"
        if look:
            s += '@' + (show_big(v.context) if v.context is not None else 'none')
        return s
    return f'?{p}'


def show_entry(e):
    ups = sorted(((int(u['key']['int']), u.get('value', {}).get('int')) for u in e['diff']['updates']), key=lambda x: x[0])
    return f"{e['id']}:{e['diff']['action']}:" + ','.join(f"{k}={'-' if v is None else v}" for k, v in ups)


def walk_outs(x, acc):
    if hasattr(x, 'lazy_diff'):
        acc.append(x)
    its = getattr(x, 'items', None)
    if isinstance(its, list):
        for it in its:
            walk_outs(it, acc)
    if getattr(x, 'item', None) is not None:             # the executed body of a DIP
        walk_outs(x.item, acc)
    return acc


def show_outs(result):
    outs = []
    for ins in walk_outs(result.instructions, []):
        res = show_val(ins.result, False) if getattr(ins, 'result', None) is not None else '-'
        outs.append(f"{ins.prim}[{';'.join(show_entry(e) for e in ins.lazy_diff if e.get('kind') == 'big_map')}]=>{res}")
    return ' '.join(outs)


def show_state(interp):
    return f"stack {' '.join(show_val(v, True) for v in interp.stack.items)} ; prot={interp.stack.protected} ; {show_ctx(interp.context)}"


INIT_STATE = 'stack  ; prot=0 ; ctx(st=-;pt=-;code=-;0/0/;am=-;ba=-;now=-;se=-;so=-;ch=-)'


_PARSE_CACHE = {}


def _install_parse_cache():
    """`michelson_to_micheline` builds a new ply parser on every call (2 ms); it is a pure function of the text, so
    the harness memoises it (parse errors included)."""
    import pytezos.michelson.repl as repl
    if getattr(repl.michelson_to_micheline, '_verif_cached', False):
        return
    real = repl.michelson_to_micheline

    def cached(text, *a, **kw):
        if a or kw:
            return real(text, *a, **kw)
        if text not in _PARSE_CACHE:
            try:
                _PARSE_CACHE[text] = (True, real(text))
            except Exception as e:  # noqa: BLE001 — re-raised as is
                _PARSE_CACHE[text] = (False, e)
        ok, v = _PARSE_CACHE[text]
        if ok:
            return copy.deepcopy(v)
        raise v
    cached._verif_cached = True
    repl.michelson_to_micheline = cached


def new_interpreter():
    from pytezos.michelson.repl import Interpreter
    _install_parse_cache()
    return Interpreter()


def run_cell(interp, cell):
    """(failed, 'F@<protected of the live stack object when the cell raised> ; state' | 'ok outs ; state')"""
    live = interp.stack
    r = interp.execute(cell_text(cell))
    head = f'F@{live.protected}' if r.error is not None else f'ok {show_outs(r)}'
    return r.error is not None, f'{head} ; {show_state(interp)}'


def run_impl(session):
    """[(failed, line)] per cell"""
    interp = new_interpreter()
    return [run_cell(interp, cell) for cell in session]


# ---------------------------------------------------------------- generation
KEYS = (1, 2, 3)
CODES = ['cdr,nil,pair', 'cdr,push:5,some,push:1,update,nil,pair', 'cdr,dup,push:1,mem,drop,none,push:2,update,nil,pair',
         'car,nil,pair', 'drop,ebm,push:7,some,push:3,update,nil,pair', 'cdr,unit,failwith', 'cdr,nil,pair,dup',
         'cdr,dip{,unit,drop,},nil,pair', 'cdr,nil,dip{,push:4,some,push:2,update,},pair', 'cdr,nil,pair,dip{,unit,failwith,}',
         'cdr,push:1,dip:2{,unit,dip{,failwith,},},nil,pair', 'cdr,nil,swap,dug:1,pair', 'cdr,amount,drop,nil,dig:1,dupn:2,drop,swap,pair',
         'cdr,nil,pair,dig:1']
STORAGE_LITS = {
    'unit': ['U'], 'nat': ['i0', 'i7'], 'bm': ['s', 's1=10', 's1=10,3=30', 'i5', 'i0', 's2=1,1=1'],
    'pbn': ['P(s;i1)', 'P(s2=20;i0)', 'P(i5;i2)'], 'pbb': ['P(s;s)', 'P(i5;s1=2)', 'P(s1=1;i6)', 'P(i5;i5)'], 'onat': ['U'],
}
PARAM_LITS = {'unit': ['U'], 'nat': ['i1', 'i3']}
PATCH_VALUES = {
    'AMOUNT': ['i5', 'i0', 'i70', 'i-3', 'i9223372036854775807', 'i9223372036854775808', 'x0', 'e'],
    'BALANCE': ['i100', 'i0', 'i-1', 'i9223372036854775808', 'a0'],
    'NOW': ['i7', 'i0', 'i-5', 'i1700000000', 'x2', 'e'],
    'SENDER': ['a0', 'a1', 'a2', 'x0', 'e', 'i5'],
    'SOURCE': ['a1', 'a0', 'x1', 'e', 'i0'],
    'CHAIN_ID': ['x1', 'x0', 'e', 'i1'],
}
READERS = ['amount', 'balance', 'now', 'sender', 'source']


def gen_stackops(rng, n, depth=2):
    """n stack instructions; `depth` (reachable items) keeps most of them applicable, type errors stay possible"""
    out = []
    for _ in range(n):
        v = rng.randrange(1, 50)
        pool = [f'push:{v}', f'push:{v}', 'unit', 'none', 'nil', 'ebm']
        if depth >= 1 or rng.random() < 0.15:
            pool += ['dup', 'dup', 'drop', 'some', 'car', 'cdr']
        if depth >= 2 or rng.random() < 0.15:
            pool += ['swap', 'swap', 'pair', 'pair', 'add']
        t = rng.choice(pool)
        out.append(t)
        depth += {'drop': -1, 'pair': -1, 'add': -1, 'some': 0, 'car': 0, 'cdr': 0, 'swap': 0}.get(t, 1)
    return out


def gen_deep(rng, depth):
    """DIG / DUG / DUP n / DROP n aimed at the number of reachable items: exactly at it, one beyond, inside"""
    op = rng.choice(['dig', 'dig', 'dug', 'dupn', 'dupn', 'dropn'])
    # the largest argument that still works: DIG / DUG n need n + 1 items, DUP n and DROP n need n
    edge = depth if op in ('dupn', 'dropn') else depth - 1
    d = edge + rng.choice([0, 0, 0, 1, 1, 1, 2, -1, -1, -2, rng.randrange(-4, 3)])   # +1: DIG / DUP n raise between protect and restore
    return [f'{op}:{max(1 if op == "dupn" else 0, d)}']


def gen_patch(rng):
    f = rng.choice(FIELDS)
    if rng.random() < 0.15:
        return [f'patch:{f}']
    return [f'patch:{f}:{rng.choice(PATCH_VALUES[f])}']


def gen_dip(rng, depth, level=0):
    """a DIP around a body; the count is aimed at the reachable depth as well"""
    n = rng.choice([1, 1, 1, 0, 2, depth, depth, depth + 1, max(0, depth - 1), rng.randrange(0, depth + 1)])
    head = 'dip{' if n == 1 and rng.random() < 0.7 else f'dip:{n}{{'
    inner = max(0, depth - n)
    body = []
    for _ in range(rng.randrange(0, 4)):
        r = rng.random()
        if r < 0.22 and level < 2:
            body += gen_dip(rng, inner, level + 1)
        elif r < 0.37:
            body += gen_deep(rng, inner)
        elif r < 0.44:
            body += rng.choice([['dropall'], ['bmd'], gen_patch(rng), [rng.choice(READERS)], ['commit'], ['begin:U:s1=1']])
        else:
            ops = gen_stackops(rng, 1, inner)
            inner = max(0, inner + {'drop': -1, 'pair': -1, 'add': -1, 'some': 0, 'car': 0, 'cdr': 0, 'swap': 0}.get(ops[0], 1))
            body += ops
    return [head] + body + ['}']


def gen_cell(rng, st, depth=0, view=None):
    """one cell (list of tokens); `st` = the generator's own guess of the declared types (only steers the choice),
    `depth` = number of items on the real stack before the cell, `view` = what else the live interpreter shows (is the
    top a big map, are types / code declared): a cell whose precondition is visibly unmet is redrawn 4 times out of 5"""
    view = view or {}
    for _ in range(6):
        r = rng.random()
        unmet = ((0.08 <= r < 0.17 and not view.get('types', True)) or (0.17 <= r < 0.23 and not view.get('code', True))
                 or (0.31 <= r < 0.47 and not view.get('top_bm', True)) or (0.47 <= r < 0.54 and depth != 1))
        if not unmet or rng.random() < 0.2:
            break
    k, v = rng.choice(KEYS), rng.randrange(1, 50)
    if depth == 1 and rng.random() < 0.12:               # one item left: try to close the BEGIN … COMMIT bracket
        return rng.choice([['nil', 'pair', 'commit'], ['nil', 'pair', 'dip:0{', 'commit', '}'], ['dup', 'bmd', 'drop', 'nil', 'pair', 'commit'],
                           [f'push:{v}', 'some', f'push:{k}', 'update', 'nil', 'pair', 'commit']])
    if r < 0.08:
        t = rng.choice(['bm', 'bm', 'pbn', 'pbb', 'nat', 'unit'])
        p = rng.choice(['unit', 'unit', 'nat'])
        kind = rng.randrange(5)
        if kind == 0:
            st['s'], st['p'] = t, p
            return [f'storage:{t}', f'parameter:{p}']
        if kind == 1:
            st['s'] = t
            return [f'storage:{t}', 'code:' + rng.choice(CODES)]
        if kind == 2:
            st['p'] = p
            return [f'parameter:{p}', 'code:' + rng.choice(CODES)]
        if kind == 3:
            st['s'] = t
            return [f'storage:{t}']
        st['s'], st['p'] = t, p
        return [f'parameter:{p}', f'storage:{t}', 'code:' + rng.choice(CODES)]
    if r < 0.17:
        s_t = st['s'] if rng.random() < 0.85 else rng.choice(list(STORAGE_LITS))
        p_t = st['p'] if rng.random() < 0.9 else rng.choice(list(PARAM_LITS))
        cell = [f"begin:{rng.choice(PARAM_LITS[p_t])}:{rng.choice(STORAGE_LITS[s_t])}"]
        if rng.random() < 0.6:
            cell.append('cdr')
        return cell
    if r < 0.23:
        s_t = st['s'] if rng.random() < 0.85 else rng.choice(list(STORAGE_LITS))
        return [f"run:{rng.choice(PARAM_LITS[st['p']])}:{rng.choice(STORAGE_LITS[s_t])}"]
    if r < 0.31:
        return rng.choice([['ebm'], ['ebm', f'push:{v}', 'some', f'push:{k}', 'update'], ['drop', 'ebm']])
    if r < 0.42:
        return rng.choice([[f'push:{v}', 'some', f'push:{k}', 'update'], ['none', f'push:{k}', 'update'],
                           [f'push:{v}', 'some', f'push:{k}', 'gau', 'drop'], ['none', f'push:{k}', 'gau']])
    if r < 0.47:
        return rng.choice([['dup', f'push:{k}', 'get'], ['dup', f'push:{k}', 'mem'], ['dup', f'push:{k}', 'get', 'drop']])
    if r < 0.54:
        return rng.choice([['nil', 'pair'], ['nil', 'pair', 'commit'], ['commit'], ['cdr', 'nil', 'pair', 'commit'],
                           ['push:0', 'swap', 'pair', 'nil', 'pair', 'commit'], ['dup', 'pair', 'nil', 'pair', 'commit']])
    if r < 0.59:
        return rng.choice([['bmd'], ['dup', 'bmd'], ['dropall'], ['dup', 'bmd', 'drop']])
    if r < 0.71:                                         # DIP / DIP n / nested, possibly with something before and after
        pre = gen_stackops(rng, rng.randrange(0, 2), depth)
        return pre + gen_dip(rng, depth + sum(t.startswith('push') or t in ('unit', 'none', 'nil', 'ebm', 'dup') for t in pre)) \
            + gen_stackops(rng, rng.randrange(0, 2), depth)
    if r < 0.81:                                         # DIG / DUG / DUP n / DROP n at the edge of the stack
        return gen_deep(rng, depth) + (gen_stackops(rng, 1, depth) if rng.random() < 0.3 else [])
    if r < 0.89:                                         # the execution environment
        cell = gen_patch(rng)
        if rng.random() < 0.5:
            cell += rng.choice([[rng.choice(READERS)], gen_patch(rng), ['dip{', 'unit', 'failwith', '}'], ['unit', 'failwith'],
                                ['dropn:99'], [rng.choice(READERS), rng.choice(READERS)]])
        return cell
    if r < 0.93:
        return [rng.choice(READERS) for _ in range(rng.randrange(1, 3))] + (['add'] if rng.random() < 0.3 else [])
    return gen_stackops(rng, rng.randrange(1, 4), depth)


FAIL_SUFFIX = [['unit', 'failwith'], ['unit', 'unit', 'add'], ['unit', 'car'], ['drop'] * 7, ['dropall', 'drop'], ['bmd', 'unit', 'failwith'],
               ['ebm', 'bmd', 'unit', 'failwith'], ['begin:U:i7', 'unit', 'failwith'], ['dip{', 'unit', 'failwith', '}'],
               ['unit', 'dip:1{', 'dip:0{', 'push:1', 'failwith', '}', '}'], ['dropn:99'], ['dig:99'], ['dupn:99'],
               ['patch:AMOUNT:i77', 'unit', 'failwith'], ['patch:SENDER:a2', 'patch:NOW:i9', 'dip:0{', 'unit', 'failwith', '}']]


def inject_failure(rng, cell):
    if rng.random() < 0.1:
        return ['parseerror']
    k = rng.randrange(0, len(cell) + 1)                  # the instruction position at which the cell breaks (any nesting depth)
    if any(t.startswith('code:') for t in cell[:k]) and k == 1:
        k = 0                                            # a lone `code {…}` is executed, not declared
    head = cell[:k]
    open_ = sum(is_open(t) for t in head) - head.count('}')
    return head + rng.choice(FAIL_SUFFIX) + ['}'] * open_


def droppable(cell):
    return not cell or (len(cell) == 1 and cell[0].startswith('code:'))


def gen_and_run_session(rng, max_cells):
    """(session, [(failed, line)]): the session is generated cell by cell against a live interpreter, so that the
    deep-stack instructions can be aimed at the real stack depth; what it prints is the implementation's trace"""
    interp = new_interpreter()
    st = {'s': 'bm', 'p': 'unit'}
    n = rng.randrange(2, max_cells + 1)
    p_fail = rng.choice([0.0, 0.15, 0.3, 0.5])
    session, full = [], []
    skeleton = []
    if rng.random() < 0.6:                               # productive skeleton first
        t = rng.choice(['bm', 'bm', 'pbn', 'pbb'])
        st['s'] = t
        skeleton.append([f'storage:{t}', 'parameter:unit'] + (['code:' + rng.choice(CODES)] if rng.random() < 0.4 else []))
        skeleton.append([f"begin:U:{rng.choice(STORAGE_LITS[t])}", 'cdr'])
    elif rng.random() < 0.5:                             # or a few plain items to dig into
        skeleton.append([f'push:{rng.randrange(1, 9)}' for _ in range(rng.randrange(1, 4))])
    while len(session) < n:
        items, c = interp.stack.items, interp.context
        view = {'top_bm': bool(items) and items[0].prim == 'big_map', 'types': bool(c.storage_expr and c.parameter_expr), 'code': bool(c.code_expr)}
        cell = skeleton.pop(0) if skeleton else gen_cell(rng, st, len(items), view)
        if rng.random() < p_fail:
            cell = inject_failure(rng, cell)
        if droppable(cell):
            n -= 1
            continue
        session.append(cell)
        full.append(run_cell(interp, cell))
    return session, full


REGRESSIONS = [
    # DESIGN §5 C22: the failing cell BIG_MAP_DIFF; FAIL before COMMIT shifted the allocated id from 0 to 1
    [['storage:bm', 'parameter:unit'], ['begin:U:s'], ['drop', 'ebm', 'push:1', 'some', 'push:1', 'update', 'nil', 'pair'],
     ['cdr', 'bmd', 'unit', 'failwith'], ['commit']],
    [['storage:bm', 'parameter:unit'], ['begin:U:s1=1'], ['cdr', 'nil', 'pair'], ['cdr', 'bmd', 'unit', 'failwith'], ['commit']],
    # a cell that fails before running anything still swaps the context: later ids must not drift
    [['ebm'], ['parseerror'], ['dup', 'bmd'], ['ebm'], ['bmd']],
    # a failing BEGIN registers an on-chain map in the discarded context
    [['storage:bm', 'parameter:unit'], ['begin:U:s'], ['cdr'], ['begin:U:i5', 'unit', 'failwith'], ['nil', 'pair', 'commit']],
    # a cell that fails inside a DIP body / between protect and restore of DIG, DUP n: no protected prefix may survive
    [['push:1', 'push:2'], ['dip{', 'unit', 'failwith', '}'], ['push:3']],
    [['push:1', 'push:2'], ['dig:2'], ['push:3']],
    [['push:1', 'push:2'], ['dupn:3'], ['push:3'], ['drop']],
    [['push:1', 'push:2', 'push:3'], ['dip:2{', 'push:4', 'dip{', 'drop', 'unit', 'unit', 'add', '}', '}'], ['dug:2'], ['dropn:3']],
    [['storage:bm', 'parameter:unit'], ['begin:U:s'], ['cdr', 'push:7'], ['dip{', 'push:1', 'some', 'push:2', 'update', 'unit', 'failwith', '}'],
     ['drop', 'nil', 'pair', 'commit']],
    [['storage:bm', 'parameter:unit', 'code:cdr,nil,pair,dip{,unit,failwith,}'], ['push:1'], ['run:U:s'], ['push:2'], ['run:U:s1=1']],
    # the patched environment is part of the context that is rolled back
    [['patch:AMOUNT:i5'], ['patch:AMOUNT:i9', 'unit', 'failwith'], ['amount']],
    [['patch:NOW:i7', 'patch:SENDER:a0'], ['patch:NOW', 'patch:SENDER:a1', 'patch:BALANCE:i3', 'dip:0{', 'dropn:1', '}'], ['now', 'sender', 'balance']],
    # exotic but legal: Jupyter instructions under a DIP
    [['push:1', 'push:2'], ['dip{', 'dropall', '}'], ['push:3', 'dip{', 'begin:U:s', '}'], ['storage:bm', 'parameter:unit'],
     ['push:4', 'dip{', 'begin:U:s', '}'], ['dip{', 'run:U:s', '}'], ['dip:0{', 'nil', 'pair', 'commit', '}']],
]


def shrink(session, still_fails):
    cur = [list(c) for c in session]
    changed = True
    while changed:
        changed = False
        i = 0
        while i < len(cur):                               # drop whole cells
            cand = cur[:i] + cur[i + 1:]
            if cand and still_fails(cand):
                cur, changed = cand, True
            else:
                i += 1
        for i in range(len(cur)):                         # drop single instructions, whole DIP blocks, or only the DIP around a body
            j = 0
            while j < len(cur[i]) and len(cur[i]) > 1:
                tok = cur[i][j]
                if tok == '}':
                    j += 1
                    continue
                cuts = [(j, j)]
                if is_open(tok):
                    m = match_brace(cur[i], j)
                    cuts = [(j, m), None]                  # None: unwrap
                done = False
                for cut in cuts:
                    cand = [list(c) for c in cur]
                    if cut is None:
                        del cand[i][m]
                        del cand[i][j]
                    else:
                        del cand[i][cut[0]:cut[1] + 1]
                    if cand[i] and not droppable(cand[i]) and still_fails(cand):
                        cur, changed, done = cand, True, True
                        break
                if not done:
                    j += 1
    return cur


def oracle(session, full=None):
    """None, or (what, detail): the two statements of the property on the real interpreter"""
    full = full or run_impl(session)
    prev = INIT_STATE
    for i, (failed, line) in enumerate(full):
        state = line.split(' ; ', 1)[1]
        if failed and state != prev:
            return 'state changed by a failing cell', f'cell #{i} {cell_text(session[i])!r} failed; before: {prev}; after: {state}'
        prev = state
    kept = [c for c, (failed, _) in zip(session, full) if not failed]
    if len(kept) == len(session):
        return None
    ref = run_impl(kept)
    got = [line for failed, line in full if not failed]
    for i, ((rf, rline), gline) in enumerate(zip(ref, got)):
        if rf or rline != gline:
            return ('later result differs from the session without the failing cells',
                    f'surviving cell #{i} {cell_text(kept[i])!r}: with failing cells: {gline}; without: {rline}')
    return None


# ---------------------------------------------------------------- raw-text sessions (property oracle only, outside the model)
# The Lean session model covers the alphabet above (protected prefixes and the patched environment included).  The
# property itself quantifies over every cell, so a second stream runs free-form Michelson cells — failures inside DIP
# bodies under IF / LOOP / ITER / LAMBDA, DIG / DUG / DUP n / DROP n at and beyond the stack depth, PATCH of the
# execution environment followed by a failure, plain maps / lists / strings on the stack — through the real
# Interpreter only and judges them with the two statements of the property (metamorphic: the session without its
# failing cells).  Observations use the public API only: the Micheline rendering of every stack slot and what
# AMOUNT / BALANCE / NOW / SENDER push afterwards.
RAW_OK = [
    'PUSH int {v}', 'PUSH nat {v}', 'PUSH string "s{v}"', 'PUSH int {v} ; PUSH nat {k}', 'DUP', 'DROP', 'SWAP', 'PAIR', 'UNPAIR', 'ADD',
    'DIP {{ PUSH int {v} }}', 'DIP {{ DROP }}', 'DIP 2 {{ PUSH nat {v} }}', 'DIP {{ DIP {{ PUSH string "d{v}" }} }}', 'DIP {k} {{ DUP }}',
    'DIG 2', 'DUG 2', 'DUP 2', 'DIG {k}', 'DUG {k}', 'DUP {k}', 'DROP {k}', 'NIL int ; PUSH int {v} ; CONS',
    'EMPTY_MAP nat nat ; PUSH nat {v} ; SOME ; PUSH nat {k} ; UPDATE', 'EMPTY_BIG_MAP nat nat ; PUSH nat {v} ; SOME ; PUSH nat {k} ; UPDATE',
    'PUSH nat {v} ; SOME ; PUSH nat {k} ; UPDATE', 'NONE nat ; PUSH nat {k} ; UPDATE', 'DUP ; PUSH nat {k} ; GET',
    'PATCH AMOUNT {v}', 'PATCH BALANCE {v}00', 'PATCH NOW {v}', 'PATCH AMOUNT', 'PATCH SENDER "KT1BEqzn5Wx8uJrZNvuS9DVHmLvG9td3fDLi"',
    'PATCH SOURCE "tz1VSUr8wwNhLAzempoch5d6hLRiTh8Cjcjb"', 'AMOUNT', 'BALANCE', 'NOW', 'SENDER ; SOURCE ; PAIR', 'DROP_ALL', 'DUMP',
    'UNIT ; DIP {{ UNIT }} ; PAIR', 'PUSH bool True ; IF {{ PUSH int {v} }} {{ PUSH int 0 }}',
    'PUSH nat {k} ; PUSH bool True ; LOOP {{ PUSH nat 1 ; SWAP ; SUB ; ISNAT ; IF_NONE {{ PUSH nat 0 ; PUSH bool False }} {{ PUSH bool True }} }}',
    'LAMBDA int int {{ PUSH int {v} ; ADD }} ; PUSH int {k} ; EXEC',
]
RAW_FAIL = [
    'DIP {{ UNIT ; FAILWITH }}', 'DIP {{ PUSH int {v} ; UNIT ; FAILWITH }}', 'DIP 2 {{ DROP ; PUSH nat {v} ; UNIT ; FAILWITH }}',
    'DIP {{ DIP {{ PUSH nat {v} ; FAILWITH }} }}', 'DIP {{ PUSH nat 1 ; PUSH string "x" ; ADD }}', 'DIP {k} {{ DROP ; DROP ; DROP ; DROP }}',
    'PUSH int {v} ; DIP {{ DIP {k} {{ UNIT ; FAILWITH }} }}', 'DIG {d}', 'DIG {d1}', 'DUP {d1}', 'DUP {d2}', 'DUG {d}', 'DUG {d1}', 'DROP {d1}',
    'DIP {d} {{ UNIT ; FAILWITH }}', 'DIP {d1} {{ UNIT }}', 'PATCH AMOUNT {v} ; UNIT ; FAILWITH', 'PATCH NOW {v} ; DIP {{ UNIT ; FAILWITH }}',
    'PATCH BALANCE {v} ; PATCH SENDER "KT1BEqzn5Wx8uJrZNvuS9DVHmLvG9td3fDLi" ; DROP 99', 'DROP_ALL ; UNIT ; FAILWITH',
    'PUSH int {v} ; DIP {{ DROP_ALL }} ; UNIT ; FAILWITH', 'EMPTY_BIG_MAP nat nat ; DIP {{ UNIT ; FAILWITH }}',
    'PUSH nat {v} ; SOME ; PUSH nat {k} ; UPDATE ; DIP {{ UNIT ; FAILWITH }}', 'PUSH bool True ; IF {{ DIP {{ UNIT ; FAILWITH }} }} {{ }}',
    'PUSH bool True ; LOOP {{ DIP {{ UNIT ; FAILWITH }} }}', 'LAMBDA unit unit {{ DIP {{ FAILWITH }} }} ; UNIT ; EXEC',
    'NIL int ; PUSH int {v} ; CONS ; ITER {{ DIP {{ UNIT ; FAILWITH }} }}', 'PUSH int {v} ; )', 'DIP {{ PUSH int }}',
]
RAW_PROBE = ['PUSH int 3', 'PUSH nat 7 ; PUSH nat 8', 'AMOUNT ; BALANCE ; NOW', 'SENDER ; SOURCE', 'DUP', 'PUSH string "p" ; DIP {{ PUSH string "q" }}']


def run_raw(cells):
    """[(failed, 'F|ok ; <stack rendering>')] per cell, public API only"""
    from pytezos.michelson.format import micheline_to_michelson
    from pytezos.michelson.repl import Interpreter
    _install_parse_cache()
    interp = Interpreter()
    out = []
    for text in cells:
        r = interp.execute(text)
        slots = []
        for x in interp.stack.items:
            try:
                v = micheline_to_michelson(x.to_micheline_value(lazy_diff=True) if x.prim == 'big_map' else x.to_micheline_value(), inline=True)
            except Exception as e:  # noqa: BLE001 — rendering problems are part of the observation
                v = f'<unrenderable {type(e).__name__}>'
            ptr = f'#{x.ptr}' if x.prim == 'big_map' else ''
            slots.append(f"{micheline_to_michelson(x.as_micheline_expr(), inline=True)}{ptr} {v}")
        head = 'F' if r.error is not None else 'ok'
        if r.error is None:
            # what a COMMIT of this cell handed out: the stored value and the lazy diff (ids of big maps and sapling states, actions)
            c = _find_commit(getattr(r, 'instructions', None))
            if c is not None:
                try:
                    st = json.dumps(c.result.items[1].to_micheline_value(), sort_keys=True)
                except Exception as e:  # noqa: BLE001
                    st = f'<unrenderable {type(e).__name__}>'
                head += f'[commit storage={st} diff={json.dumps(c.lazy_diff, sort_keys=True)}]'.replace(' ; ', ' ;; ')
        out.append((r.error is not None, head + ' ; ' + ' | '.join(slots)))
    return out


def _find_commit(node, depth=0):
    if node is None or depth > 12:
        return None
    if hasattr(node, 'lazy_diff') and hasattr(node, 'result'):
        return node
    for child in getattr(node, 'items', None) or []:
        if not isinstance(child, (list, tuple)):
            f = _find_commit(child, depth + 1)
            if f is not None:
                return f
    return None


def gen_alias_session(rng):
    """two copies of ONE big map (DUP) that have since diverged on the same key — one rebinds or removes what the other still binds —
    then failing cells, then each copy is read: a rollback restores every copy as it was, not one of them twice"""
    k, k2 = rng.sample(range(0, 4), 2)
    cells = [f'EMPTY_BIG_MAP nat string ; PUSH string "a{k}" ; SOME ; PUSH nat {k} ; UPDATE'
             + (f' ; PUSH string "b" ; SOME ; PUSH nat {k2} ; UPDATE' if rng.random() < 0.5 else '')]
    change = rng.choice([f'PUSH string "z" ; SOME ; PUSH nat {k} ; UPDATE', f'NONE string ; PUSH nat {k} ; UPDATE'])
    cells.append(f'DUP ; {change}')
    fails = ['PUSH nat 1 ; FAILWITH', 'DIP {{ UNIT ; FAILWITH }}', 'DROP ; DROP ; DROP', 'DIP {{ DIP {{ UNIT ; FAILWITH }} }}', 'PUSH int 1 ; PUSH string "x" ; ADD', 'DUP ; )']
    for _ in range(rng.randrange(1, 3)):
        cells.append(rng.choice(fails).format())
    cells.append(rng.choice([f'SWAP ; PUSH nat {k} ; GET', f'DIP {{ PUSH nat {k} ; GET }}', f'DUP 2 ; PUSH nat {k} ; MEM']))
    if rng.random() < 0.5:
        cells.append(rng.choice(fails).format())
    cells.append(rng.choice([f'DROP ; PUSH nat {k} ; GET', 'SWAP', f'PUSH nat {k} ; GET']))
    return cells


def gen_lazy_session(rng):
    """sessions around COMMIT with the lazy-storage kinds (big_map, sapling_state, both in a pair): ids are handed out in commit order,
    whatever failed in between"""
    kind = rng.choice(['big_map', 'sapling', 'sapling', 'pair'])
    if kind == 'big_map':
        decl, make = ['parameter unit', 'storage (big_map string nat)'], 'EMPTY_BIG_MAP string nat'
    elif kind == 'sapling':
        decl, make = ['parameter unit', 'storage (sapling_state 8)'], 'SAPLING_EMPTY_STATE 8'
    else:
        decl, make = ['parameter unit', 'storage (pair (big_map string nat) (sapling_state 8))'], 'SAPLING_EMPTY_STATE 8 ; EMPTY_BIG_MAP string nat ; PAIR'
    fails = ['DROP ; DROP', 'PUSH string "a" ; FAILWITH', 'UNIT ; SWAP ; DROP ; DROP ; DROP', 'NIL operation ; PAIR ; COMMIT ; DROP', 'DIP { UNIT ; FAILWITH }']
    cells = list(decl) + [make]
    for _ in range(rng.randrange(1, 3)):
        cells.append(rng.choice(fails))
    cells.append('NIL operation ; PAIR ; COMMIT')
    if rng.random() < 0.5:
        cells.append(rng.choice(fails))
    cells.append(make + ' ; NIL operation ; PAIR ; COMMIT')
    return cells


def raw_oracle(cells, full=None):
    full = full or run_raw(cells)
    prev = ''
    for i, (failed, line) in enumerate(full):
        state = line.split(' ; ', 1)[1]
        if failed and state != prev:
            return 'state changed by a failing cell', f'cell #{i} {cells[i]!r} failed; stack before: [{prev}]; after: [{state}]'
        prev = state
    kept = [c for c, (failed, _) in zip(cells, full) if not failed]
    if len(kept) == len(cells):
        return None
    ref = run_raw(kept)
    got = [line for failed, line in full if not failed]
    for i, ((rf, rline), gline) in enumerate(zip(ref, got)):
        if rf or rline != gline:
            return ('later result differs from the session without the failing cells',
                    f'surviving cell #{i} {kept[i]!r}: with the failing cells: [{gline}]; without them: [{"F" if rf else rline}]')
    return None


def gen_raw_session(rng, max_cells):
    n = rng.randrange(3, max_cells + 1)
    cells, depth = [], 0           # depth: the generator's own rough idea of the stack depth (steers DIG/DUP/DUG n to the edge)
    p_fail = rng.choice([0.2, 0.35, 0.5])
    for _ in range(n):
        fmt = dict(v=rng.randrange(1, 60), k=rng.randrange(0, 4), d=depth, d1=depth + 1, d2=depth + 2)
        if rng.random() < p_fail:
            cells.append(rng.choice(RAW_FAIL).format(**fmt))
        else:
            c = rng.choice(RAW_OK).format(**fmt)
            cells.append(c)
            depth = max(0, depth + c.count('PUSH') + c.count('EMPTY') + c.count('DUP') - c.count('DROP') - c.count('ADD') - c.count('PAIR')
                        - c.count('UPDATE') * 2 - c.count('CONS'))
        if rng.random() < 0.15:
            depth = rng.randrange(0, 5)
    for _ in range(rng.randrange(1, 4)):
        cells.append(rng.choice(RAW_PROBE).format())
    return cells


# a value that survives a failing cell is the value it was: compared (COMPARE, map / set / big_map lookup) with a FRESH copy of itself
IDENT_VALUES = [
    ('or nat nat', ['Left {k}', 'Right {k}']), ('or nat string', ['Left {k}', 'Right "r{k}"']), ('option nat', ['Some {k}', 'None']),
    ('option (or unit bool)', ['Some (Left Unit)', 'Some (Right False)', 'None']), ('pair nat (or nat string)', ['Pair {k} (Left {k})', 'Pair {k} (Right "x")']),
    ('or (pair nat nat) unit', ['Left (Pair {k} {k})', 'Right Unit']), ('string', ['"s{k}"', '""']), ('bytes', ['0x0{k}', '0x']), ('bool', ['False', 'True']),
    ('unit', ['Unit']), ('key_hash', ['"tz1VSUr8wwNhLAzempoch5d6hLRiTh8Cjcjb"']), ('address', ['"KT1BEqzn5Wx8uJrZNvuS9DVHmLvG9td3fDLi%ep{k}"']),
    ('pair (option string) (option bytes)', ['Pair (Some "") (Some 0x)', 'Pair None None']),
]


def gen_identity_session(rng):
    t, lits = rng.choice(IDENT_VALUES)
    k = rng.randrange(0, 3)
    lit = rng.choice(lits).format(k=k)
    other = rng.choice(lits).format(k=rng.randrange(0, 3))
    cells = []
    shape = rng.randrange(4)
    if shape == 0:
        cells.append(f'PUSH ({t}) ({lit})' if ' ' in lit else f'PUSH ({t}) {lit}')
    elif shape == 1:
        cells.append(f'EMPTY_MAP ({t}) nat ; PUSH nat 7 ; SOME ; PUSH ({t}) ({lit}) ; UPDATE')
    elif shape == 2:
        cells.append(f'EMPTY_SET ({t}) ; PUSH bool True ; PUSH ({t}) ({lit}) ; UPDATE')
    else:
        cells.append(f'EMPTY_BIG_MAP ({t}) nat ; PUSH nat 7 ; SOME ; PUSH ({t}) ({lit}) ; UPDATE')
    fails = ['PUSH nat 1 ; FAILWITH', 'DIP {{ UNIT ; FAILWITH }}', 'DUP ; DROP ; UNIT ; FAILWITH', 'DROP ; UNIT ; FAILWITH', 'FAILWITH', 'DIG 5', 'PUSH int 1 ; PUSH string "x" ; ADD']
    for _ in range(rng.randrange(1, 3)):
        cells.append(rng.choice(fails).format())
    # (no DUP in the probes: the copy DUP makes would be compared instead of the value the failing cell left behind)
    if shape == 0:
        probes = [f'PUSH ({t}) ({rng.choice([lit, lit, other])}) ; COMPARE']
    elif shape == 2:
        probes = [f'PUSH bool True ; PUSH ({t}) ({lit}) ; UPDATE', f'PUSH bool True ; PUSH ({t}) ({other}) ; UPDATE', rng.choice(['SIZE', f'PUSH ({t}) ({lit}) ; MEM'])]
    else:
        probes = [f'PUSH nat 9 ; SOME ; PUSH ({t}) ({lit}) ; UPDATE', f'NONE nat ; PUSH ({t}) ({other}) ; UPDATE',
                  rng.choice([f'PUSH ({t}) ({lit}) ; GET', f'PUSH ({t}) ({other}) ; MEM'] + (['SIZE'] if shape == 1 else []))]
    for pr in probes:
        cells.append(pr)
        if rng.random() < 0.3:
            cells.append(rng.choice(fails).format())
    return cells


def shrink_raw(cells):
    cur = list(cells)
    changed = True
    while changed:
        changed = False
        i = 0
        while i < len(cur):
            cand = cur[:i] + cur[i + 1:]
            if cand and raw_oracle(cand) is not None:
                cur, changed = cand, True
            else:
                i += 1
    return cur


RAW_REGRESSIONS = [
    ['PUSH int 1 ; PUSH int 2', 'DIP { UNIT ; FAILWITH }', 'PUSH int 3'],
    ['PUSH int 1 ; PUSH int 2', 'DIG 2', 'PUSH int 3'],
    ['PUSH int 1 ; PUSH int 2', 'DUP 3', 'PUSH int 3'],
    ['PATCH AMOUNT 5', 'PATCH AMOUNT 9 ; UNIT ; FAILWITH', 'AMOUNT'],
    ['PUSH int 1', 'DIP { DIP { UNIT } }', 'PUSH int 2', 'DIP 2 { DROP }', 'PUSH nat 4 ; PUSH nat 5'],
]


def session_text(session):
    return [cell_text(c) for c in session]


def run(ctx):
    ctx.prepare_lean(extract.generate(PROP))
    quick = ctx.tier == 'quick'
    max_cells = 8 if quick else 20
    n = 1500 if quick else 12000
    ctx.extra['rule'] = (
        'random sessions of 2-%d cells over the cell alphabet (60%% start with declarations + BEGIN), generated cell by cell '
        'against a live interpreter so that DIG / DUG / DUP n / DROP n and DIP n are aimed at the real stack depth (exactly at it, '
        'one beyond, inside); 12%% of the cells are DIP / DIP n / nested DIP around stack, deep-stack, Jupyter and PATCH '
        'instructions, 10%% deep-stack instructions, 8%% PATCH (then readers / a failure); failing suffixes (FAIL, ill-typed '
        'ADD/CAR, underflow, BIG_MAP_DIFF;FAIL, EMPTY_BIG_MAP;BIG_MAP_DIFF;FAIL, BEGIN;FAIL, DIP {FAIL}, nested DIP FAIL, '
        'DROP/DIG/DUP 99, PATCH;FAIL, parse error) injected at a random instruction position of a cell — inside DIP bodies '
        'too — with probability 0/0.15/0.3/0.5 per session, natural failures kept; every session run on a real '
        'Interpreter, again without its failing cells, and on the model; non-trivial = at least one failing cell followed by a '
        'successful cell that shows a stack item or a COMMIT/RUN/BIG_MAP_DIFF' % max_cells)
    ctx.assumptions += [
        'big_map nat nat only, no shell attached (reads of registered on-chain maps raise), no key (dummy key hash), nothing spends (balance_update = 0)',
        'UPDATE with a payload that is not option nat is outside the model (never generated); DUP 0 (reads items[-1]) is not in the alphabet',
        'PATCH strings are tokens: a table of well-formed addresses, other non-empty strings that are neither addresses nor timestamps, the empty string',
        'michelson_to_micheline is memoised by the harness (pure function of the cell text)',
        'raw-text stream (maps, lists, lambdas, loops, IF around DIP, DUMP, …): outside the Lean session model; judged on the real Interpreter by the '
        'property oracle only',
        'observation of a stacked big map reads its public attributes ptr / items / removed_keys / context; of the stack: items / protected',
    ]
    runs = [([list(c) for c in s], None) for s in REGRESSIONS]
    for _ in range(n):
        runs.append(gen_and_run_session(ctx.rng, max_cells if ctx.rng.random() < 0.7 else 5))
    runs = [(s, full or run_impl(s)) for s, full in runs if s]
    model = ctx.model([' | '.join(' '.join(c) for c in s) for s, _ in runs])
    shrunk = 0
    for i, (s, full) in enumerate(runs):
        fails = [f for f, _ in full]
        after_fail = False
        interesting = False
        for f, line in full:
            if f:
                after_fail = True
            elif after_fail and (not line.split(' ; ')[1] == 'stack ' or 'COMMIT[' in line or 'RUN[' in line or 'BIG_MAP_DIFF[' in line):
                interesting = True
        ctx.case({'cells': session_text(s)}, nontrivial=interesting)
        ctx.count('cells', len(s))
        ctx.count('failing_cells', min(sum(fails), 6))
        for c, (f, line) in zip(s, full):
            if f:
                prot = int(line.split(' ; ')[0][2:])
                ctx.count('failed_at', 'parse' if c == ['parseerror'] else
                          ('with a protected prefix (inside DIP / DIG / DUP n)' if prot else 'top-level instruction' if not any(map(is_open, c))
                           else 'cell with DIP, nothing protected'))
                if any(t.startswith('patch:') for t in c):
                    ctx.count('failed_after_patch', True)
            ctx.count('cell_kind', 'dip' if any(map(is_open, c)) else 'deep-stack' if any(t.split(':')[0] in DEEP for t in c)
                      else 'patch/env' if any(t.startswith('patch:') or t in READERS for t in c) else 'other')
        ctx.count('has_commit_or_run_output', any('COMMIT[' in l or 'RUN[' in l for _, l in full))
        bad = oracle(s, full)
        if bad is not None:
            if shrunk < 12:
                shrunk += 1
                small = shrink(s, lambda cand: oracle(cand) is not None)
                what, detail = oracle(small)
                key = ' | '.join(session_text(small))
                ctx.violation(key, f'{what}: {detail}', {'cells': session_text(small), 'tokens': small, 'what': what, 'detail': detail,
                                                          'from': session_text(s)})
            else:
                ctx.violation('unshrunk: ' + ' | '.join(session_text(s))[:300], f'{bad[0]}: {bad[1]}',
                              {'cells': session_text(s), 'what': bad[0], 'detail': bad[1]})
        if model is not None:
            got = ' | '.join(line for _, line in full)
            if got != model[i]:
                gl, ml = got.split(' | '), model[i].split(' | ')
                j = next((k for k, (a, b) in enumerate(zip(gl, ml)) if a != b), min(len(gl), len(ml)))
                ctx.mismatch('session', {'cells': session_text(s), 'tokens': s, 'first_difference_at_cell': j},
                             gl[j] if j < len(gl) else '(missing)', ml[j] if j < len(ml) else '(missing)')
    # ---- raw-text stream: property oracle on the real interpreter only
    n_raw = 700 if quick else 6000
    raws = [list(c) for c in RAW_REGRESSIONS] + [gen_raw_session(ctx.rng, 7 if quick else 14) for _ in range(n_raw)] + [gen_identity_session(ctx.rng) for _ in range(n_raw // 2)] + [gen_lazy_session(ctx.rng) for _ in range(n_raw // 10)] + [gen_alias_session(ctx.rng) for _ in range(n_raw // 10)]
    shrunk = 0
    for cells in raws:
        full = run_raw(cells)
        fails = [f for f, _ in full]
        ctx.case({'raw_cells': cells}, nontrivial=any(fails) and not all(fails))
        ctx.count('raw_failing_cells', min(sum(fails), 6))
        for c, f in zip(cells, fails):
            if f:
                ctx.count('raw_failed_in', 'DIP body' if 'DIP' in c else ('deep stack op' if c.split()[0] in ('DIG', 'DUG', 'DUP', 'DROP') else
                                                                          ('after PATCH' if 'PATCH' in c else 'other')))
        bad = raw_oracle(cells, full)
        if bad is not None:
            if shrunk < 8:
                shrunk += 1
                small = shrink_raw(cells)
                what, detail = raw_oracle(small)
                ctx.violation('raw: ' + ' | '.join(small), f'{what}: {detail}', {'cells': small, 'what': what, 'detail': detail, 'from': cells})
            else:
                ctx.violation('raw-unshrunk: ' + ' | '.join(cells)[:300], f'{bad[0]}: {bad[1]}', {'cells': cells, 'what': bad[0], 'detail': bad[1]})
