"""C22 — a failing REPL cell leaves the session as if it never ran.

A session is a list of cells, a cell a list of instruction tokens (the alphabet of lean/Driver/C22.lean: storage /
parameter / code declarations, PUSH, SOME, NONE, UNIT, EMPTY_BIG_MAP, UPDATE, GET, MEM, GET_AND_UPDATE, DUP, DROP, SWAP,
PAIR, CAR, CDR, NIL, ADD, FAILWITH, BEGIN, COMMIT, RUN, DROP_ALL, BIG_MAP_DIFF).  Failures are injected at every
instruction position (FAIL, an ill-typed ADD / CAR, stack underflow, a parse error) and also arise naturally.

Every session is run on a real `Interpreter` (cells as Michelson text through `Interpreter.execute`), a second time
with the cells that failed removed (metamorphic), and on the Lean mirror.  Observed after every cell: `error` or not,
the lazy diffs and results of COMMIT / RUN / BIG_MAP_DIFF, the stack (every big map with its id, local items,
removed keys and — following the reference — the counters and registered maps of the context it points at) and the
interpreter's own context (declared types, code, counters, registered maps).

Property oracle (independent of the mirror): (1) after a failing cell the observation equals the one before it;
(2) the surviving cells of the session give, cell by cell, the same results and observations as in the session without
the failing cells."""
import copy

from translator import extract

PROP = 'C22'

TYPES = {
    'unit': 'unit', 'nat': 'nat', 'bm': '(big_map nat nat)', 'pbn': '(pair (big_map nat nat) nat)',
    'pbb': '(pair (big_map nat nat) (big_map nat nat))', 'onat': '(option nat)',
}
BASIC = {
    'some': 'SOME', 'none': 'NONE nat', 'unit': 'UNIT', 'ebm': 'EMPTY_BIG_MAP nat nat', 'update': 'UPDATE', 'get': 'GET',
    'mem': 'MEM', 'gau': 'GET_AND_UPDATE', 'dup': 'DUP', 'drop': 'DROP', 'swap': 'SWAP', 'pair': 'PAIR', 'car': 'CAR',
    'cdr': 'CDR', 'nil': 'NIL operation', 'add': 'ADD', 'failwith': 'FAILWITH',
}
BASIC_OF_PRIM = {v.split()[0]: k for k, v in BASIC.items()}


# ---------------------------------------------------------------- tokens -> Michelson text
def lit_text(tok):
    """literal token (U | iN | sK=V,… | P(a;b)) -> Michelson"""
    def go(s):
        if s[0] == 'U':
            return 'Unit', s[1:]
        if s[0] == 'i':
            j = 1
            while j < len(s) and (s[j].isdigit() or s[j] == '-'):
                j += 1
            return s[1:j], s[j:]
        if s[0] == 's':
            j = 1
            while j < len(s) and (s[j].isdigit() or s[j] in '=,'):
                j += 1
            body = s[1:j]
            elts = ['Elt %s %s' % tuple(e.split('=')) for e in body.split(',')] if body else []
            return '{ ' + ' ; '.join(elts) + ' }', s[j:]
        if s.startswith('P('):
            a, r = go(s[2:])
            assert r[0] == ';'
            b, r = go(r[1:])
            assert r[0] == ')'
            return f'(Pair {a} {b})', r[1:]
        raise ValueError(s)
    t, rest = go(tok)
    assert rest == ''
    return t


def instr_text(tok):
    if tok in BASIC:
        return BASIC[tok]
    head, _, rest = tok.partition(':')
    if head == 'push':
        return f'PUSH nat {rest}'
    if head in ('storage', 'parameter'):
        return f'{head} {TYPES[rest]}'
    if head == 'code':
        return 'code { ' + ' ; '.join(instr_text(b) for b in rest.split(',') if b) + ' }'
    if head in ('begin', 'run'):
        p, s = split_lits(rest)
        return f'{head.upper()} {lit_text(p)} {lit_text(s)}'
    return {'commit': 'COMMIT', 'dropall': 'DROP_ALL', 'bmd': 'BIG_MAP_DIFF'}[tok]


def split_lits(rest):
    depth = 0
    for i, ch in enumerate(rest):
        depth += ch == '('
        depth -= ch == ')'
        if ch == ':' and depth == 0:
            return rest[:i], rest[i + 1:]
    raise ValueError(rest)


def cell_text(cell):
    if cell == ['parseerror']:
        return 'PUSH nat 1 ; )'
    return ' ; '.join(instr_text(t) for t in cell)


# ---------------------------------------------------------------- rendering of the real objects (= Driver/C22.lean)
def show_type(expr):
    p, a = expr['prim'], expr.get('args', [])
    if p in ('storage', 'parameter'):
        return show_type(a[0])
    if p == 'big_map':
        return 'bm'
    if p == 'option':
        return f'option({show_type(a[0])})'
    if p == 'pair':
        return f'pair({show_type(a[0])},{show_type(a[1])})'
    if p == 'list':
        return 'listop'
    return p


def show_code(expr):
    out = []
    for ins in expr['args'][0]:
        p = ins['prim']
        out.append(f"push:{ins['args'][1]['int']}" if p == 'PUSH' else BASIC_OF_PRIM[p])
    return ','.join(out)


def show_big(c):
    reg = ','.join(f"{p}:{src}:{'c' if cp else 'r'}" for p, (src, cp) in c.big_maps.items())
    return f'{c.tmp_big_map_index}/{c.alloc_big_map_index}/{reg}'


def show_ctx(c):
    st = show_type(c.storage_expr) if c.storage_expr else '-'
    pt = show_type(c.parameter_expr) if c.parameter_expr else '-'
    code = show_code(c.code_expr) if c.code_expr else '-'
    return f'ctx(st={st};pt={pt};code={code};{show_big(c)})'


def show_val(v, look):
    p = v.prim
    if p == 'unit':
        return 'Unit'
    if p == 'nat':
        return str(int(v))
    if p == 'bool':
        return 'True' if bool(v) else 'False'
    if p == 'option':
        return 'None' if v.is_none() else f'Some({show_val(v.get_some(), look)})'
    if p == 'pair':
        a, b = v.items
        return f'Pair({show_val(a, look)},{show_val(b, look)})'
    if p == 'list':
        return '[' + ','.join(show_val(x, look) for x in v.items) + ']'
    if p == 'big_map':
        items = ','.join(f"{int(k)}={'-' if x is None else int(x)}" for k, x in v.items)
        rem = ','.join(str(k) for k in sorted(int(k) for k in v.removed_keys))
        s = f"BM[{'-' if v.ptr is None else v.ptr};{items};{rem}]"
        if look:
            s += '@' + (show_big(v.context) if v.context is not None else 'none')
        return s
    return f'?{p}'


def show_entry(e):
    ups = sorted(((int(u['key']['int']), u.get('value', {}).get('int')) for u in e['diff']['updates']), key=lambda x: x[0])
    return f"{e['id']}:{e['diff']['action']}:" + ','.join(f"{k}={'-' if v is None else v}" for k, v in ups)


def walk_outs(x, acc):
    if hasattr(x, 'lazy_diff'):
        acc.append(x)
    its = getattr(x, 'items', None)
    if isinstance(its, list):
        for it in its:
            walk_outs(it, acc)
    return acc


def show_outs(result):
    outs = []
    for ins in walk_outs(result.instructions, []):
        res = show_val(ins.result, False) if getattr(ins, 'result', None) is not None else '-'
        outs.append(f"{ins.prim}[{';'.join(show_entry(e) for e in ins.lazy_diff if e.get('kind') == 'big_map')}]=>{res}")
    return ' '.join(outs)


def show_state(interp):
    return f"stack {' '.join(show_val(v, True) for v in interp.stack.items)} ; {show_ctx(interp.context)}"


_PARSE_CACHE = {}


def _install_parse_cache():
    """`michelson_to_micheline` builds a new ply parser on every call (2 ms); it is a pure function of the text, so
    the harness memoises it (parse errors included)."""
    import pytezos.michelson.repl as repl
    if getattr(repl.michelson_to_micheline, '_verif_cached', False):
        return
    real = repl.michelson_to_micheline

    def cached(text, *a, **kw):
        if a or kw:
            return real(text, *a, **kw)
        if text not in _PARSE_CACHE:
            try:
                _PARSE_CACHE[text] = (True, real(text))
            except Exception as e:  # noqa: BLE001 — re-raised as is
                _PARSE_CACHE[text] = (False, e)
        ok, v = _PARSE_CACHE[text]
        if ok:
            return copy.deepcopy(v)
        raise v
    cached._verif_cached = True
    repl.michelson_to_micheline = cached


def run_impl(session):
    """[(failed, 'F ; state' | 'ok outs ; state')] per cell"""
    from pytezos.michelson.repl import Interpreter
    _install_parse_cache()
    interp = Interpreter()
    out = []
    for cell in session:
        r = interp.execute(cell_text(cell))
        head = 'F' if r.error is not None else f'ok {show_outs(r)}'
        out.append((r.error is not None, f'{head} ; {show_state(interp)}'))
    return out


# ---------------------------------------------------------------- generation
KEYS = (1, 2, 3)
CODES = ['cdr,nil,pair', 'cdr,push:5,some,push:1,update,nil,pair', 'cdr,dup,push:1,mem,drop,none,push:2,update,nil,pair',
         'car,nil,pair', 'drop,ebm,push:7,some,push:3,update,nil,pair', 'cdr,unit,failwith', 'cdr,nil,pair,dup']
STORAGE_LITS = {
    'unit': ['U'], 'nat': ['i0', 'i7'], 'bm': ['s', 's1=10', 's1=10,3=30', 'i5', 'i0', 's2=1,1=1'],
    'pbn': ['P(s;i1)', 'P(s2=20;i0)', 'P(i5;i2)'], 'pbb': ['P(s;s)', 'P(i5;s1=2)', 'P(s1=1;i6)', 'P(i5;i5)'], 'onat': ['U'],
}
PARAM_LITS = {'unit': ['U'], 'nat': ['i1', 'i3']}


def gen_cell(rng, st):
    """one cell (list of tokens); `st` = the generator's own guess of the declared types (only steers the choice)"""
    r = rng.random()
    k, v = rng.choice(KEYS), rng.randrange(1, 50)
    if r < 0.10:
        t = rng.choice(['bm', 'bm', 'pbn', 'pbb', 'nat', 'unit'])
        p = rng.choice(['unit', 'unit', 'nat'])
        kind = rng.randrange(5)
        if kind == 0:
            st['s'], st['p'] = t, p
            return [f'storage:{t}', f'parameter:{p}']
        if kind == 1:
            st['s'] = t
            return [f'storage:{t}', 'code:' + rng.choice(CODES)]
        if kind == 2:
            st['p'] = p
            return [f'parameter:{p}', 'code:' + rng.choice(CODES)]
        if kind == 3:
            st['s'] = t
            return [f'storage:{t}']
        st['s'], st['p'] = t, p
        return [f'parameter:{p}', f'storage:{t}', 'code:' + rng.choice(CODES)]
    if r < 0.22:
        s_t = st['s'] if rng.random() < 0.85 else rng.choice(list(STORAGE_LITS))
        p_t = st['p'] if rng.random() < 0.9 else rng.choice(list(PARAM_LITS))
        cell = [f"begin:{rng.choice(PARAM_LITS[p_t])}:{rng.choice(STORAGE_LITS[s_t])}"]
        if rng.random() < 0.6:
            cell.append('cdr')
        return cell
    if r < 0.30:
        s_t = st['s'] if rng.random() < 0.85 else rng.choice(list(STORAGE_LITS))
        return [f"run:{rng.choice(PARAM_LITS[st['p']])}:{rng.choice(STORAGE_LITS[s_t])}"]
    if r < 0.42:
        return rng.choice([['ebm'], ['ebm', f'push:{v}', 'some', f'push:{k}', 'update'], ['drop', 'ebm']])
    if r < 0.58:
        return rng.choice([[f'push:{v}', 'some', f'push:{k}', 'update'], ['none', f'push:{k}', 'update'],
                           [f'push:{v}', 'some', f'push:{k}', 'gau', 'drop'], ['none', f'push:{k}', 'gau']])
    if r < 0.66:
        return rng.choice([['dup', f'push:{k}', 'get'], ['dup', f'push:{k}', 'mem'], ['dup', f'push:{k}', 'get', 'drop']])
    if r < 0.76:
        return rng.choice([['nil', 'pair'], ['nil', 'pair', 'commit'], ['commit'], ['cdr', 'nil', 'pair', 'commit'],
                           ['push:0', 'swap', 'pair', 'nil', 'pair', 'commit'], ['dup', 'pair', 'nil', 'pair', 'commit']])
    if r < 0.84:
        return rng.choice([['bmd'], ['dup', 'bmd'], ['dropall'], ['dup', 'bmd', 'drop']])
    n = rng.randrange(1, 4)
    return [rng.choice(['dup', 'drop', 'swap', 'pair', 'car', 'cdr', 'nil', 'add', f'push:{v}', 'some', 'none', 'unit'])
            for _ in range(n)]


FAIL_SUFFIX = [['unit', 'failwith'], ['unit', 'unit', 'add'], ['unit', 'car'], ['drop'] * 7, ['dropall', 'drop'], ['bmd', 'unit', 'failwith'],
               ['ebm', 'bmd', 'unit', 'failwith'], ['begin:U:i7', 'unit', 'failwith']]


def inject_failure(rng, cell):
    if rng.random() < 0.12:
        return ['parseerror']
    k = rng.randrange(0, len(cell) + 1)                  # the instruction position at which the cell breaks
    if any(t.startswith('code:') for t in cell[:k]) and k == 1:
        k = 0                                            # a lone `code {…}` is executed, not declared
    return cell[:k] + rng.choice(FAIL_SUFFIX)


def gen_session(rng, max_cells):
    st = {'s': 'bm', 'p': 'unit'}
    n = rng.randrange(2, max_cells + 1)
    cells = []
    if rng.random() < 0.7:                               # productive skeleton first
        t = rng.choice(['bm', 'bm', 'pbn', 'pbb'])
        st['s'] = t
        cells.append([f'storage:{t}', 'parameter:unit'] + (['code:' + rng.choice(CODES)] if rng.random() < 0.4 else []))
        cells.append([f"begin:U:{rng.choice(STORAGE_LITS[t])}", 'cdr'])
    while len(cells) < n:
        cells.append(gen_cell(rng, st))
    p_fail = rng.choice([0.0, 0.15, 0.3, 0.5])
    cells = [inject_failure(rng, c) if rng.random() < p_fail else c for c in cells]
    return [c for c in cells if c and not (len(c) == 1 and c[0].startswith('code:'))]


REGRESSIONS = [
    # DESIGN §5 C22: the failing cell BIG_MAP_DIFF; FAIL before COMMIT shifted the allocated id from 0 to 1
    [['storage:bm', 'parameter:unit'], ['begin:U:s'], ['drop', 'ebm', 'push:1', 'some', 'push:1', 'update', 'nil', 'pair'],
     ['cdr', 'bmd', 'unit', 'failwith'], ['commit']],
    [['storage:bm', 'parameter:unit'], ['begin:U:s1=1'], ['cdr', 'nil', 'pair'], ['cdr', 'bmd', 'unit', 'failwith'], ['commit']],
    # a cell that fails before running anything still swaps the context: later ids must not drift
    [['ebm'], ['parseerror'], ['dup', 'bmd'], ['ebm'], ['bmd']],
    # a failing BEGIN registers an on-chain map in the discarded context
    [['storage:bm', 'parameter:unit'], ['begin:U:s'], ['cdr'], ['begin:U:i5', 'unit', 'failwith'], ['nil', 'pair', 'commit']],
]


def shrink(session, still_fails):
    cur = [list(c) for c in session]
    changed = True
    while changed:
        changed = False
        i = 0
        while i < len(cur):                               # drop whole cells
            cand = cur[:i] + cur[i + 1:]
            if cand and still_fails(cand):
                cur, changed = cand, True
            else:
                i += 1
        for i in range(len(cur)):                         # drop single instructions
            j = 0
            while j < len(cur[i]) and len(cur[i]) > 1:
                cand = [list(c) for c in cur]
                del cand[i][j]
                if not (len(cand[i]) == 1 and cand[i][0].startswith('code:')) and still_fails(cand):
                    cur, changed = cand, True
                else:
                    j += 1
    return cur


def oracle(session, full=None):
    """None, or (what, detail): the two statements of the property on the real interpreter"""
    full = full or run_impl(session)
    prev = 'stack  ; ctx(st=-;pt=-;code=-;0/0/)'
    for i, (failed, line) in enumerate(full):
        state = line.split(' ; ', 1)[1]
        if failed and state != prev:
            return 'state changed by a failing cell', f'cell #{i} {cell_text(session[i])!r} failed; before: {prev}; after: {state}'
        prev = state
    kept = [c for c, (failed, _) in zip(session, full) if not failed]
    if len(kept) == len(session):
        return None
    ref = run_impl(kept)
    got = [line for failed, line in full if not failed]
    for i, ((rf, rline), gline) in enumerate(zip(ref, got)):
        if rf or rline != gline:
            return ('later result differs from the session without the failing cells',
                    f'surviving cell #{i} {cell_text(kept[i])!r}: with failing cells: {gline}; without: {rline}')
    return None


# ---------------------------------------------------------------- raw-text sessions (property oracle only, outside the model)
# The Lean session model covers the alphabet above with an unprotected stack.  The property itself quantifies over
# every cell, so a second stream runs free-form Michelson cells — failures *inside* DIP / DIP n bodies (a protected
# stack prefix is live when the cell breaks), DIG / DUG / DUP n / DROP n at and beyond the stack depth, PATCH of the
# execution environment followed by a failure, plain maps / lists / strings on the stack — through the real
# Interpreter only and judges them with the two statements of the property (metamorphic: the session without its
# failing cells).  Observations use the public API only: the Micheline rendering of every stack slot and what
# AMOUNT / BALANCE / NOW / SENDER push afterwards.
RAW_OK = [
    'PUSH int {v}', 'PUSH nat {v}', 'PUSH string "s{v}"', 'PUSH int {v} ; PUSH nat {k}', 'DUP', 'DROP', 'SWAP', 'PAIR', 'UNPAIR', 'ADD',
    'DIP {{ PUSH int {v} }}', 'DIP {{ DROP }}', 'DIP 2 {{ PUSH nat {v} }}', 'DIP {{ DIP {{ PUSH string "d{v}" }} }}', 'DIP {k} {{ DUP }}',
    'DIG 2', 'DUG 2', 'DUP 2', 'DIG {k}', 'DUG {k}', 'DUP {k}', 'DROP {k}', 'NIL int ; PUSH int {v} ; CONS',
    'EMPTY_MAP nat nat ; PUSH nat {v} ; SOME ; PUSH nat {k} ; UPDATE', 'EMPTY_BIG_MAP nat nat ; PUSH nat {v} ; SOME ; PUSH nat {k} ; UPDATE',
    'PUSH nat {v} ; SOME ; PUSH nat {k} ; UPDATE', 'NONE nat ; PUSH nat {k} ; UPDATE', 'DUP ; PUSH nat {k} ; GET',
    'PATCH AMOUNT {v}', 'PATCH BALANCE {v}00', 'PATCH NOW {v}', 'PATCH AMOUNT', 'PATCH SENDER "KT1BEqzn5Wx8uJrZNvuS9DVHmLvG9td3fDLi"',
    'PATCH SOURCE "tz1VSUr8wwNhLAzempoch5d6hLRiTh8Cjcjb"', 'AMOUNT', 'BALANCE', 'NOW', 'SENDER ; SOURCE ; PAIR', 'DROP_ALL', 'DUMP',
    'UNIT ; DIP {{ UNIT }} ; PAIR', 'PUSH bool True ; IF {{ PUSH int {v} }} {{ PUSH int 0 }}',
    'PUSH nat {k} ; PUSH bool True ; LOOP {{ PUSH nat 1 ; SWAP ; SUB ; ISNAT ; IF_NONE {{ PUSH nat 0 ; PUSH bool False }} {{ PUSH bool True }} }}',
    'LAMBDA int int {{ PUSH int {v} ; ADD }} ; PUSH int {k} ; EXEC',
]
RAW_FAIL = [
    'DIP {{ UNIT ; FAILWITH }}', 'DIP {{ PUSH int {v} ; UNIT ; FAILWITH }}', 'DIP 2 {{ DROP ; PUSH nat {v} ; UNIT ; FAILWITH }}',
    'DIP {{ DIP {{ PUSH nat {v} ; FAILWITH }} }}', 'DIP {{ PUSH nat 1 ; PUSH string "x" ; ADD }}', 'DIP {k} {{ DROP ; DROP ; DROP ; DROP }}',
    'PUSH int {v} ; DIP {{ DIP {k} {{ UNIT ; FAILWITH }} }}', 'DIG {d}', 'DIG {d1}', 'DUP {d1}', 'DUP {d2}', 'DUG {d}', 'DUG {d1}', 'DROP {d1}',
    'DIP {d} {{ UNIT ; FAILWITH }}', 'DIP {d1} {{ UNIT }}', 'PATCH AMOUNT {v} ; UNIT ; FAILWITH', 'PATCH NOW {v} ; DIP {{ UNIT ; FAILWITH }}',
    'PATCH BALANCE {v} ; PATCH SENDER "KT1BEqzn5Wx8uJrZNvuS9DVHmLvG9td3fDLi" ; DROP 99', 'DROP_ALL ; UNIT ; FAILWITH',
    'PUSH int {v} ; DIP {{ DROP_ALL }} ; UNIT ; FAILWITH', 'EMPTY_BIG_MAP nat nat ; DIP {{ UNIT ; FAILWITH }}',
    'PUSH nat {v} ; SOME ; PUSH nat {k} ; UPDATE ; DIP {{ UNIT ; FAILWITH }}', 'PUSH bool True ; IF {{ DIP {{ UNIT ; FAILWITH }} }} {{ }}',
    'PUSH bool True ; LOOP {{ DIP {{ UNIT ; FAILWITH }} }}', 'LAMBDA unit unit {{ DIP {{ FAILWITH }} }} ; UNIT ; EXEC',
    'NIL int ; PUSH int {v} ; CONS ; ITER {{ DIP {{ UNIT ; FAILWITH }} }}', 'PUSH int {v} ; )', 'DIP {{ PUSH int }}',
]
RAW_PROBE = ['PUSH int 3', 'PUSH nat 7 ; PUSH nat 8', 'AMOUNT ; BALANCE ; NOW', 'SENDER ; SOURCE', 'DUP', 'PUSH string "p" ; DIP {{ PUSH string "q" }}']


def run_raw(cells):
    """[(failed, 'F|ok ; <stack rendering>')] per cell, public API only"""
    from pytezos.michelson.format import micheline_to_michelson
    from pytezos.michelson.repl import Interpreter
    _install_parse_cache()
    interp = Interpreter()
    out = []
    for text in cells:
        r = interp.execute(text)
        slots = []
        for x in interp.stack.items:
            try:
                v = micheline_to_michelson(x.to_micheline_value(lazy_diff=True) if x.prim == 'big_map' else x.to_micheline_value(), inline=True)
            except Exception as e:  # noqa: BLE001 — rendering problems are part of the observation
                v = f'<unrenderable {type(e).__name__}>'
            ptr = f'#{x.ptr}' if x.prim == 'big_map' else ''
            slots.append(f"{micheline_to_michelson(x.as_micheline_expr(), inline=True)}{ptr} {v}")
        out.append((r.error is not None, ('F' if r.error is not None else 'ok') + ' ; ' + ' | '.join(slots)))
    return out


def raw_oracle(cells, full=None):
    full = full or run_raw(cells)
    prev = ''
    for i, (failed, line) in enumerate(full):
        state = line.split(' ; ', 1)[1]
        if failed and state != prev:
            return 'state changed by a failing cell', f'cell #{i} {cells[i]!r} failed; stack before: [{prev}]; after: [{state}]'
        prev = state
    kept = [c for c, (failed, _) in zip(cells, full) if not failed]
    if len(kept) == len(cells):
        return None
    ref = run_raw(kept)
    got = [line for failed, line in full if not failed]
    for i, ((rf, rline), gline) in enumerate(zip(ref, got)):
        if rf or rline != gline:
            return ('later result differs from the session without the failing cells',
                    f'surviving cell #{i} {kept[i]!r}: with the failing cells: [{gline}]; without them: [{"F" if rf else rline}]')
    return None


def gen_raw_session(rng, max_cells):
    n = rng.randrange(3, max_cells + 1)
    cells, depth = [], 0           # depth: the generator's own rough idea of the stack depth (steers DIG/DUP/DUG n to the edge)
    p_fail = rng.choice([0.2, 0.35, 0.5])
    for _ in range(n):
        fmt = dict(v=rng.randrange(1, 60), k=rng.randrange(0, 4), d=depth, d1=depth + 1, d2=depth + 2)
        if rng.random() < p_fail:
            cells.append(rng.choice(RAW_FAIL).format(**fmt))
        else:
            c = rng.choice(RAW_OK).format(**fmt)
            cells.append(c)
            depth = max(0, depth + c.count('PUSH') + c.count('EMPTY') + c.count('DUP') - c.count('DROP') - c.count('ADD') - c.count('PAIR')
                        - c.count('UPDATE') * 2 - c.count('CONS'))
        if rng.random() < 0.15:
            depth = rng.randrange(0, 5)
    for _ in range(rng.randrange(1, 4)):
        cells.append(rng.choice(RAW_PROBE).format())
    return cells


def shrink_raw(cells):
    cur = list(cells)
    changed = True
    while changed:
        changed = False
        i = 0
        while i < len(cur):
            cand = cur[:i] + cur[i + 1:]
            if cand and raw_oracle(cand) is not None:
                cur, changed = cand, True
            else:
                i += 1
    return cur


RAW_REGRESSIONS = [
    ['PUSH int 1 ; PUSH int 2', 'DIP { UNIT ; FAILWITH }', 'PUSH int 3'],
    ['PUSH int 1 ; PUSH int 2', 'DIG 2', 'PUSH int 3'],
    ['PUSH int 1 ; PUSH int 2', 'DUP 3', 'PUSH int 3'],
    ['PATCH AMOUNT 5', 'PATCH AMOUNT 9 ; UNIT ; FAILWITH', 'AMOUNT'],
    ['PUSH int 1', 'DIP { DIP { UNIT } }', 'PUSH int 2', 'DIP 2 { DROP }', 'PUSH nat 4 ; PUSH nat 5'],
]


def session_text(session):
    return [cell_text(c) for c in session]


def run(ctx):
    ctx.prepare_lean(extract.generate(PROP))
    quick = ctx.tier == 'quick'
    max_cells = 8 if quick else 20
    n = 1500 if quick else 12000
    ctx.extra['rule'] = (
        'random sessions of 2-%d cells over the cell alphabet (70%% start with declarations + BEGIN), failing suffixes '
        '(FAIL, ill-typed ADD/CAR, underflow, BIG_MAP_DIFF;FAIL, EMPTY_BIG_MAP;BIG_MAP_DIFF;FAIL, BEGIN;FAIL, parse error) '
        'injected at a random instruction position of a cell with probability 0/0.15/0.3/0.5 per session, natural failures '
        'kept; every session run on a real Interpreter, again without its failing cells, and on the model; non-trivial = at '
        'least one failing cell followed by a successful cell with a big map on the stack or a COMMIT/RUN/BIG_MAP_DIFF' % max_cells)
    ctx.assumptions += [
        'big_map nat nat only, no DIP (stack.protected = 0), no shell attached (reads of registered on-chain maps raise)',
        'UPDATE with a payload that is not option nat is outside the model (never generated)',
        'michelson_to_micheline is memoised by the harness (pure function of the cell text)',
        'raw-text stream (failures inside DIP / DIP n bodies, DIG/DUG/DUP/DROP n at the stack depth, PATCH then fail, maps, lists, lambdas, loops): '
        'outside the Lean session model; judged on the real Interpreter by the property oracle only (no theorem covers a protected prefix at failure time)',
        'observation of a stacked big map reads its public attributes ptr / items / removed_keys / context',
    ]
    sessions = [[list(c) for c in s] for s in REGRESSIONS]
    for _ in range(n):
        sessions.append(gen_session(ctx.rng, max_cells if ctx.rng.random() < 0.7 else 5))
    sessions = [s for s in sessions if s]
    model = ctx.model([' | '.join(' '.join(c) for c in s) for s in sessions])
    shrunk = 0
    for i, s in enumerate(sessions):
        full = run_impl(s)
        fails = [f for f, _ in full]
        after_fail = False
        interesting = False
        for f, line in full:
            if f:
                after_fail = True
            elif after_fail and ('BM[' in line or 'COMMIT[' in line or 'RUN[' in line or 'BIG_MAP_DIFF[' in line):
                interesting = True
        ctx.case({'cells': session_text(s)}, nontrivial=interesting)
        ctx.count('cells', len(s))
        ctx.count('failing_cells', min(sum(fails), 6))
        for c, f in zip(s, fails):
            if f:
                ctx.count('failed_at', 'parse' if c == ['parseerror'] else 'instr')
        ctx.count('has_commit_or_run_output', any('COMMIT[' in l or 'RUN[' in l for _, l in full))
        bad = oracle(s, full)
        if bad is not None:
            if shrunk < 12:
                shrunk += 1
                small = shrink(s, lambda cand: oracle(cand) is not None)
                what, detail = oracle(small)
                key = ' | '.join(session_text(small))
                ctx.violation(key, f'{what}: {detail}', {'cells': session_text(small), 'what': what, 'detail': detail,
                                                          'from': session_text(s)})
            else:
                ctx.violation('unshrunk: ' + ' | '.join(session_text(s))[:300], f'{bad[0]}: {bad[1]}',
                              {'cells': session_text(s), 'what': bad[0], 'detail': bad[1]})
        if model is not None:
            got = ' | '.join(line for _, line in full)
            if got != model[i]:
                gl, ml = got.split(' | '), model[i].split(' | ')
                j = next((k for k, (a, b) in enumerate(zip(gl, ml)) if a != b), min(len(gl), len(ml)))
                ctx.mismatch('session', {'cells': session_text(s), 'tokens': s, 'first_difference_at_cell': j},
                             gl[j] if j < len(gl) else '(missing)', ml[j] if j < len(ml) else '(missing)')
    # ---- raw-text stream: property oracle on the real interpreter only
    n_raw = 700 if quick else 6000
    raws = [list(c) for c in RAW_REGRESSIONS] + [gen_raw_session(ctx.rng, 7 if quick else 14) for _ in range(n_raw)]
    shrunk = 0
    for cells in raws:
        full = run_raw(cells)
        fails = [f for f, _ in full]
        ctx.case({'raw_cells': cells}, nontrivial=any(fails) and not all(fails))
        ctx.count('raw_failing_cells', min(sum(fails), 6))
        for c, f in zip(cells, fails):
            if f:
                ctx.count('raw_failed_in', 'DIP body' if 'DIP' in c else ('deep stack op' if c.split()[0] in ('DIG', 'DUG', 'DUP', 'DROP') else
                                                                          ('after PATCH' if 'PATCH' in c else 'other')))
        bad = raw_oracle(cells, full)
        if bad is not None:
            if shrunk < 8:
                shrunk += 1
                small = shrink_raw(cells)
                what, detail = raw_oracle(small)
                ctx.violation('raw: ' + ' | '.join(small), f'{what}: {detail}', {'cells': small, 'what': what, 'detail': detail, 'from': cells})
            else:
                ctx.violation('raw-unshrunk: ' + ' | '.join(cells)[:300], f'{bad[0]}: {bad[1]}', {'cells': cells, 'what': bad[0], 'detail': bad[1]})
