"""C03 — COMPARE and ordered collections follow the Tezos total order.

Real code: `PUSH τ b; PUSH τ a; COMPARE`, `PUSH (set τ) {…}` / `PUSH (map τ unit) {…}` (accept / reject) and
`EMPTY_SET τ; … UPDATE` (resulting element order), executed by the real instruction classes (a sample also through
`Interpreter.execute` on source text).  Oracle: harness/gen_c03.py `tz_cmp` — an independent Python statement of the
Tezos order.  Model: lean/Driver/C03.lean (`Impl.Order.compare`, `Impl.Coll.checkConstraints`, `Set.add`, `Map.update` on
structured values: kind tag + payload bytes — the harness decodes nothing with pytezos, it *generates* payloads and
encodes them with its own base58check table, so the text/structure bridge of the model is exercised on every case)."""
from harness import gen_c03 as G
from harness import real_c03 as R
from translator import extract

PROP = 'C03'

P20 = bytes(range(20))
P32 = bytes(range(1, 33))
P64 = bytes(range(64))

# minimal witnesses of the defects seen on the pinned tree (always run first; key = defect family)
CORPUS = [
    (('pair', 'int', 'int'), ('pair', ('int', 1), ('int', 5)), ('pair', ('int', 2), ('int', 3))),
    (('pair', 'int', 'int'), ('pair', ('int', 2), ('int', 3)), ('pair', ('int', 1), ('int', 5))),
    ('key', ('key', 0, P32), ('key', 3, bytes(48))),
    ('key', ('key', 3, bytes(48)), ('key', 3, bytes(47) + b'\x01')),
    ('key', ('key', 2, b'\x02' + P32), ('key', 2, b'\x03' + P32)),
    ('key', ('key', 2, b'\x03' + P32), ('key', 2, b'\x02' + P32)),
    ('key', ('key', 2, b'\x02' + bytes([9]) + P32[1:]), ('key', 2, b'\x03' + P32)),
    ('address', ('addr', 5, P20, ''), ('addr', 0, P20, '')),
    ('address', ('addr', 5, P20, ''), ('addr', 4, P20, '')),
    ('address', ('addr', 0, P20, 'a'), ('addr', 4, P20, '')),
    ('address', ('addr', 4, P20, ''), ('addr', 4, P20, 'abc')),
    ('address', ('addr', 4, P20, 'default'), ('addr', 4, P20, '')),
    ('address', ('addr', 4, P20, 'e'), ('addr', 4, P20, '')),
    (('option', 'unit'), ('some', ('unit',)), ('none',)),
    (('or', 'unit', 'unit'), ('left', ('unit',)), ('right', ('unit',))),
    ('signature', ('sig', 0, P64), ('sig', 3, P64)),
    ('signature', ('sig', 0, bytes([1]) + P64[1:]), ('sig', 3, P64)),
    ('signature', ('sig', 4, P64 + bytes(32)), ('sig', 3, P64)),
    ('unit', ('unit',), ('unit',)),
    ('key_hash', ('kh', 0, b'\xff' * 20), ('kh', 1, bytes(20))),
    ('chain_id', ('cid', bytes(4)), ('cid', b'\x00\x00\x00\x01')),
]


def decider(t, a, b):
    """(leaf type at which the oracle order is decided, was an earlier pair component equal?, does a later component disagree?)"""
    if isinstance(t, str):
        return t, False, False
    if t[0] == 'option':
        if a[0] != b[0] or a[0] == 'none':
            return 'option-ctor', False, False
        return decider(t[1], a[1], b[1])
    if t[0] == 'or':
        if a[0] != b[0]:
            return 'or-ctor', False, False
        return decider(t[1] if a[0] == 'left' else t[2], a[1], b[1])
    c1 = G.tz_cmp(a[1], b[1])
    if c1 != 0:
        leaf, eqp, opp = decider(t[1], a[1], b[1])
        c2 = G.tz_cmp(a[2], b[2])
        return leaf, eqp, opp or (c2 != 0 and c2 != c1)
    leaf, eqp, opp = decider(t[2], a[2], b[2])
    return leaf, True, opp


def family(t, a, b, got):
    """stable name of the failing input class, computed on the SHRUNK case (used as the known-findings key)"""
    if got == 'raise':
        if G.contains_kind(a, ('key',)) or G.contains_kind(b, ('key',)):
            return 'key-lt-raises'
        if G.contains_kind(a, ('unit',)) or G.contains_kind(b, ('unit',)):
            return 'unit-unhashable'
        return 'raises:' + (t if isinstance(t, str) else t[0])
    if isinstance(t, str):
        return {'address': 'address-order', 'key': 'key-order', 'signature': 'signature-order'}.get(t, f'order:{t}')
    if t[0] == 'pair':
        return 'pair-not-lexicographic'
    if G.contains_kind(a, ('unit',)) or G.contains_kind(b, ('unit',)):
        return 'unit-eq'
    return f'order:{t[0]}'


def shrink(t, a, b, fails):
    """descend into the components while the failure persists"""
    while True:
        if isinstance(t, str):
            return t, a, b
        if t[0] == 'pair':
            for i in (1, 2):
                if fails(t[i], a[i], b[i]):
                    t, a, b = t[i], a[i], b[i]
                    break
            else:
                return t, a, b
        elif t[0] == 'option':
            if a[0] == b[0] == 'some' and fails(t[1], a[1], b[1]):
                t, a, b = t[1], a[1], b[1]
            else:
                return t, a, b
        else:
            if a[0] == b[0] and fails(t[1] if a[0] == 'left' else t[2], a[1], b[1]):
                t, a, b = (t[1] if a[0] == 'left' else t[2]), a[1], b[1]
            else:
                return t, a, b


def snippet(t, a, b):
    return f'PUSH {G.ty_text(t)} {G.to_text(b)}; PUSH {G.ty_text(t)} {G.to_text(a)}; COMPARE'


def gen_ty(rng, max_depth):
    while True:
        t = G.gen_type(rng, rng.randrange(0, max_depth + 1))
        if G.inhabited(t):
            return t


def run(ctx):
    ctx.prepare_lean(extract.generate(PROP))
    quick = ctx.tier == 'quick'
    n_pairs = 5000 if quick else 200000
    n_triples = 400 if quick else 20000
    coll_every = 4 if quick else 10        # every k-th pair also goes through set/map literals and UPDATE
    text_every = 60 if quick else 400
    ctx.extra['rule'] = (
        'type: random comparable type, nesting 0..4 over all 13 leaf types (+never); pair (a,b): b is a minimal mutation of a '
        '(one component changed / both changed in opposite directions / kind tag, first or last payload byte, entrypoint, '
        'parity flag changed) or independent; every k-th pair and every triple also as set and map literal and through UPDATE; '
        'non-trivial = the two values differ')
    rng = ctx.rng
    cases = []     # (op, kind, t, vals)
    for t, a, b in CORPUS:
        cases.append(('cmp', '', t, (a, b)))
        cases.append(('cmp', '', t, (b, a)))
        for kind in ('set', 'map'):
            cases.append(('lit', kind, t, (a, b)))
            cases.append(('lit', kind, t, (b, a)))
            cases.append(('ins', kind, t, (a, b)))
    for i in range(n_pairs):
        t = gen_ty(rng, 4)
        a, b = G.gen_pair(rng, t)
        cases.append(('cmp', 'text' if i % text_every == 0 else '', t, (a, b)))
        if i % coll_every == 0:
            kind = 'set' if (i // coll_every) % 2 == 0 else 'map'
            cases.append(('lit', kind, t, (a, b)))
            cases.append(('ins', kind, t, (a, b)))
    # text twins: the same base58 texts compared as `string`s right before and after they are compared as address / key / key_hash /
    # signature / chain_id — the typed order is by kind and bytes, the string order by code points, and the Python objects of both
    # compare and hash equal by their text: a result remembered per text (a memo keyed by value) would leak from one type to the other
    TEXT = ('address', 'key', 'key_hash', 'signature', 'chain_id')

    def has_text(t):
        return t in TEXT if isinstance(t, str) else any(has_text(x) for x in t[1:])

    def textify_t(t):
        return ('string' if t in TEXT else t) if isinstance(t, str) else (t[0],) + tuple(textify_t(x) for x in t[1:])

    def textify_v(v):
        if v[0] in ('kh', 'addr', 'key', 'sig', 'cid'):
            return ('str', G.to_micheline(v)['string'])
        if v[0] in ('some', 'left', 'right'):
            return (v[0], textify_v(v[1]))
        if v[0] == 'pair':
            return ('pair', textify_v(v[1]), textify_v(v[2]))
        return v
    n_twins = 0
    for i in range(400 if quick else 6000):
        t = rng.choice(TEXT) if i % 3 else gen_ty(rng, 2)
        if not has_text(t):
            continue
        a, b = G.gen_pair(rng, t)
        ts, sa, sb = textify_t(t), textify_v(a), textify_v(b)
        order = [(ts, sa, sb), (t, a, b), (ts, sb, sa), (t, b, a)] if i % 2 else [(t, a, b), (ts, sa, sb), (t, b, a), (ts, sb, sa)]
        for (tt, x, y) in order:
            cases.append(('cmp', '', tt, (x, y)))
        n_twins += 1
    ctx.hist.setdefault('text_twins', {})['pairs'] = n_twins
    for i in range(n_triples):
        t = gen_ty(rng, 3)
        tr = G.gen_triple(rng, t)
        cases.append(('tri', '', t, tr))
        kind = 'set' if i % 2 == 0 else 'map'
        cases.append(('lit', kind, t, tr))
        cases.append(('ins', kind, t, tr))
        if i % 2 == 1:
            cases.append(('bigins', str(i // 2 % 8), t, tr))
        if i % 3 == 0:
            # larger collections: 5-7 insertions in an order that puts late elements into interior gaps (a positional insertion routine is
            # only exercised once the collection is longer than three)
            more = list(tr) + list(G.gen_triple(rng, t)) + ([G.gen_triple(rng, t)[1]] if i % 2 else [])
            order = sorted(range(len(more)), key=lambda j: (j % 2, -j if i % 4 else j))      # evens first, then the odd positions
            vals2 = tuple(more[j] for j in order)
            cases.append(('ins', kind, t, vals2))
            if i % 6 == 0:
                cases.append(('bigins', str(i % 8), t, vals2[:5]))

    lines = []
    for op, kind, t, vals in cases:
        toks = [x for v in vals for x in G.val_tokens(v)]
        if op == 'cmp':
            lines.append(' '.join(['cmp'] + G.ty_tokens(t) + toks))
        elif op == 'tri':
            lines.append(' '.join(['cmp'] + G.ty_tokens(t) + G.val_tokens(vals[0]) + G.val_tokens(vals[2])))
        elif op == 'bigins':        # for the model: the final key list of a map that receives the same insertions
            lines.append(' '.join(['ins', 'map'] + G.ty_tokens(t) + [str(len(vals))] + toks))
        else:
            lines.append(' '.join([op, kind] + G.ty_tokens(t) + [str(len(vals))] + toks))
    model = ctx.model(lines)

    def cmp_fails(t, a, b):
        return R.compare(t, a, b) != str(G.tz_cmp(a, b))

    def fam_of(t, a, b, got=''):
        """family of the (shrunk) COMPARE failure behind a collection / axiom failure; falls back to the collection outcome"""
        if cmp_fails(t, a, b):
            t2, a2, b2 = shrink(t, a, b, cmp_fails)
            return family(t2, a2, b2, R.compare(t2, a2, b2))
        if cmp_fails(t, b, a):
            t2, b2, a2 = shrink(t, b, a, cmp_fails)
            return family(t2, b2, a2, R.compare(t2, b2, a2))
        return family(t, a, b, 'raise' if got == 'raise' else '')

    def report_cmp(t, a, b, got, want, stream='COMPARE'):
        t2, a2, b2 = shrink(t, a, b, cmp_fails)
        got2, want2 = R.compare(t2, a2, b2), str(G.tz_cmp(a2, b2))
        fam = family(t2, a2, b2, got2)
        ctx.violation(fam, f'{snippet(t2, a2, b2)} -> {got2} (expected {want2})',
                      {'stream': stream, 'type': G.ty_text(t2), 'a': G.to_text(a2), 'b': G.to_text(b2), 'code': snippet(t2, a2, b2),
                       'observed': got2, 'expected': want2, 'unshrunk': snippet(t, a, b)})

    for idx, (op, kind, t, vals) in enumerate(cases):
        desc = {'op': op, 'kind': kind, 'ty': G.ty_text(t), 'vals': [G.to_text(v) for v in vals]}
        distinct = any(G.tz_cmp(vals[0], v) != 0 for v in vals[1:])
        ctx.case(desc, nontrivial=distinct)
        ctx.count('op', op + (':' + kind if kind else ''))
        ctx.count('type', t if isinstance(t, str) else f'{t[0]}/depth{G.ty_depth(t)}')
        if op == 'cmp':
            a, b = vals
            want = str(G.tz_cmp(a, b))
            got = R.compare_text(t, a, b) if kind == 'text' else R.compare(t, a, b)
            leaf, eqp, opp = decider(t, a, b)
            ctx.count('oracle', want)
            ctx.count('decided-at', leaf + ('/after-equal-prefix' if eqp else '') + ('/later-component-opposite' if opp else ''))
            if got != want:
                report_cmp(t, a, b, got, want)
            if model is not None:
                m_impl, _, m_spec = model[idx].partition(' ')
                if m_impl != got:
                    ctx.mismatch('compare', desc, got, model[idx])
                if m_spec != want and m_impl not in ('ill-typed', 'bad-op'):
                    ctx.mismatch('lean-spec-vs-python-oracle', desc, want, model[idx])
        elif op == 'tri':
            a, b, c = vals
            ab, bc, ac, ba = R.compare(t, a, b), R.compare(t, b, c), R.compare(t, a, c), R.compare(t, b, a)
            want = str(G.tz_cmp(a, c))
            if ac != want:
                report_cmp(t, a, c, ac, want)
            # order axioms on the real code alone (no oracle): antisymmetry and transitivity
            if 'raise' not in (ab, ba) and int(ab) != -int(ba):
                ctx.violation('compare-not-antisymmetric:' + fam_of(t, a, b),
                              f'{snippet(t, a, b)} -> {ab} but swapped -> {ba}',
                              {'type': G.ty_text(t), 'a': G.to_text(a), 'b': G.to_text(b), 'ab': ab, 'ba': ba})
            if 'raise' not in (ab, bc, ac) and int(ab) <= 0 and int(bc) <= 0 and (int(ac) > 0 or (int(ac) == 0 and (int(ab) < 0 or int(bc) < 0))):
                ctx.violation('compare-not-transitive:' + fam_of(t, a, c),
                              f'type {G.ty_text(t)}: a={G.to_text(a)} b={G.to_text(b)} c={G.to_text(c)}: cmp(a,b)={ab} cmp(b,c)={bc} cmp(a,c)={ac}',
                              {'type': G.ty_text(t), 'a': G.to_text(a), 'b': G.to_text(b), 'c': G.to_text(c), 'ab': ab, 'bc': bc, 'ac': ac})
            if model is not None and model[idx].partition(' ')[0] != ac:
                ctx.mismatch('compare', desc, ac, model[idx])
        elif op == 'lit':
            vs = list(vals)
            got = R.literal(t, vs, kind)
            dup = any(G.tz_eq(vs[i], vs[j]) for i in range(len(vs)) for j in range(i))
            want = 'accept' if G.strictly_sorted(vs) else ('reject-dup' if dup else 'reject-unsorted')
            ctx.count('literal', want)
            if got != want:
                # the smallest offending adjacent pair
                k = next((i for i in range(len(vs) - 1) if R.literal(t, vs[i:i + 2], kind) !=
                          ('accept' if G.tz_cmp(vs[i], vs[i + 1]) < 0 else 'reject-dup' if G.tz_eq(vs[i], vs[i + 1]) else 'reject-unsorted')), None)
                sub = vs[k:k + 2] if k is not None else vs
                fam = fam_of(t, sub[0], sub[-1], got)
                ctx.violation(f'{kind}-literal:{fam}',
                              f'PUSH ({kind} {G.ty_text(t)}) {{{"; ".join(G.to_text(v) for v in sub)}}} -> {R.literal(t, sub, kind) if k is not None else got} (expected {"accept" if G.strictly_sorted(sub) else "reject"})',
                              {'kind': kind, 'type': G.ty_text(t), 'items': [G.to_text(v) for v in sub], 'observed': got, 'expected': want})
            if model is not None and model[idx] != got:
                ctx.mismatch(f'{kind}-literal', desc, got, model[idx])
        elif op == 'bigins':
            # big_map keys: a big map with an id, part of the keys already on chain (all 8 subsets over the run), every key written locally
            vs = list(vals)
            on_chain = [i for i in range(len(vs)) if (int(kind) >> i) & 1]
            got = R.insert_all_big_map(t, vs, on_chain)
            raws = [R.raw_of_abs(t, v) for v in vs]
            want = [R._index_of(R.raw_of_abs(t, x), raws) for x in G.tz_sorted(vs)]
            ctx.count('big_map_on_chain_subset', len(on_chain))
            if got != want:
                bad = next(((x, y) for x in vs for y in vs if cmp_fails(t, x, y)), None)
                fam = fam_of(t, bad[0], bad[1], got) if bad else f'on-chain-keys-overwritten:{t if isinstance(t, str) else t[0]}'
                ctx.violation(f'big_map-update-order:{fam}',
                              f'big_map {G.ty_text(t)} unit with id 7, keys {[G.to_text(vs[i]) for i in on_chain]} on chain; UPDATE-insert {[G.to_text(v) for v in vs]} -> local key order {got} (expected {want})',
                              {'kind': 'big_map', 'type': G.ty_text(t), 'on_chain': [G.to_text(vs[i]) for i in on_chain], 'inserted': [G.to_text(v) for v in vs], 'observed_order': got, 'expected_order': want})
            if model is not None:
                g = got if got == 'raise' else ' '.join(map(str, got))
                if model[idx] != g:
                    ctx.mismatch('big_map-update', desc, g, model[idx])
        else:
            vs = list(vals)
            got = R.insert_all(t, vs, kind)
            raws = [R.raw_of_abs(t, v) for v in vs]
            want = [R._index_of(R.raw_of_abs(t, x), raws) for x in G.tz_sorted(vs)]
            if got != want:
                bad = next(((x, y) for x in vs for y in vs if cmp_fails(t, x, y)), (vs[0], vs[-1]))
                fam = fam_of(t, bad[0], bad[1], got)
                ctx.violation(f'{kind}-update-order:{fam}',
                              f'EMPTY_{kind.upper()} {G.ty_text(t)}; UPDATE-insert {[G.to_text(v) for v in vs]} -> element order {got} (expected {want})',
                              {'kind': kind, 'type': G.ty_text(t), 'inserted': [G.to_text(v) for v in vs], 'observed_order': got, 'expected_order': want})
            if model is not None:
                g = got if got == 'raise' else ' '.join(map(str, got))
                if model[idx] != g:
                    ctx.mismatch(f'{kind}-update', desc, g, model[idx])

    # ---- which types the real code lets be a set element / map key -------------------------------------------------
    non_comparable = ['bls12_381_fr', 'bls12_381_g1', 'bls12_381_g2', 'big_map', 'contract', 'lambda', 'list', 'map', 'set', 'operation', 'ticket']
    args = {'big_map': ['int', 'int'], 'contract': ['unit'], 'lambda': ['unit', 'unit'], 'list': ['int'], 'map': ['int', 'int'],
            'set': ['int'], 'ticket': ['int']}
    for p in non_comparable:
        te = {'prim': p, 'args': [{'prim': a} for a in args.get(p, [])]} if p in args else {'prim': p}
        _, e = R.run_seq([{'prim': 'EMPTY_SET', 'args': [te]}])
        ctx.case({'op': 'set-of', 'ty': p}, nontrivial=True)
        if e is None:
            ctx.violation(f'non-comparable-accepted:{p}', f'EMPTY_SET ({p} …) accepted', {'type': p})
        _, e = R.run_seq([{'prim': 'EMPTY_SET', 'args': [{'prim': 'pair', 'args': [{'prim': 'int'}, te]}]}])
        if e is None:
            ctx.violation(f'non-comparable-accepted:pair int {p}', f'EMPTY_SET (pair int ({p} …)) accepted', {'type': p})
    for leaf in G.LEAVES + ['never']:
        _, e = R.run_seq([{'prim': 'EMPTY_SET', 'args': [{'prim': leaf}]}])
        ctx.case({'op': 'set-of', 'ty': leaf}, nontrivial=True)
        if e is not None:
            ctx.violation(f'comparable-rejected:{leaf}', f'EMPTY_SET {leaf} rejected', {'type': leaf})

    ctx.assumptions += [
        'Spec.cmp / the Python oracle are my transcription of the Michelson reference (Octez is not in the sandbox). Points I am '
        'least sure of: (1) p256 public keys are ordered by their 33 compressed bytes (parity flag first) — old Octez (uecc) '
        'compared the uncompressed X‖Y; (2) signatures are ordered by their raw bytes irrespective of the textual kind '
        '(edsig/spsig/p2sig/sig/BLsig), a 96-byte BLS signature against a 64-byte one lexicographically (prefix first); '
        '(3) address kinds: implicit < originated < smart rollup; tx-rollup (txr1) addresses are not values of type `address` in pytezos',
        'bridge text↔structure (key_hash, address, chain_id compared as base58 text by the code, as kind tag + payload by the model): '
        'Lean theorem C03.text_bridge proves it over the Base58 model of C09 under the hypothesis that both texts have the same number of '
        'characters (C09 table rows) and that the checksum is a function of prefix‖payload; that the real base58 library agrees with that '
        'model is C09; additionally validated here on every case (payloads generated, encoded with the harness\'s own base58check table). '
        'For key and signature the code compares `base58_decode(text)`, i.e. the payload the harness generated (decode∘encode = id is C09)',
        'domain: entrypoint suffixes are 1..31 characters of [A-Za-z0-9_] (an empty `%` suffix, `%default` spelled out, and several `%` '
        'are outside the model: the first is normalised by from_value, the others are not valid address literals); strings are ASCII; '
        'secret keys accepted by KeyType.from_value (`edsk…`) are not key values',
        'CPython `sorted`, `set`, list `==` and tuple `<` are modelled (insertion sort, eq-classes, element-wise eq, first differing '
        'component); `__hash__` is assumed consistent with `__eq__` (sampled: duplicates in literals are rejected)',
    ]
