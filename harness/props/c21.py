"""C21 — BLS12-381 group and field laws.

Every point is generated as a known multiple k·G1 / k·G2 of py_ecc's generators (k = 0 and k = r give the point at
infinity), every scalar as an integer literal (0, 1, r-1, r, r+1, 2^256-1, negative, random), so the expected result
of every instruction is known independently of the code under test.

Streams
  codec    from_point(k·G) vs the Lean mirror (`ENC`), to_point(bytes) vs the mirror (`DEC`);
           oracle: an independent reference serialisation (uncompressed zcash format: big-endian 48-byte
           coordinates, c1 before c0 in G2, 0x40 followed by zeros for infinity) and the round trip.
  ops      single instructions run on a fresh `Interpreter` (`PUSH …; PUSH …; ADD|MUL|NEG|INT`) vs the Lean mirror
           (driver instance of the py_ecc interface = projective arithmetic written in Lean);
           oracle: the group / ring laws themselves evaluated on the real code (identity, inverse, commutativity,
           associativity, both distributivities, compatibility of MUL with Fr multiplication, INT, literal round
           trip) and the known discrete logarithm of every result.
  pairing  PAIRING_CHECK on lists with known exponents vs the mirror over the discrete-log instance;
           oracle: true iff sum(a_i * b_i) = 0 mod r (empty list: true)."""
from translator import extract

PROP = 'C21'
R = 0x73EDA753299D7D483339D80809A1D80553BDA402FFFE5BFEFFFFFFFF00000001     # reference subgroup order
Q = 0x1A0111EA397FE69A4B1BA7B6434BACD764774B84F38512BF6730D2A0F6B0F6241EABFFFEB153FFFFB9FEFFFFFFFFAAAB
PUSH_TY = {'g1': 'bls12_381_g1', 'g2': 'bls12_381_g2', 'fr': 'bls12_381_fr', 'frb': 'bls12_381_fr', 'int': 'int', 'nat': 'nat'}


# ---- the real code -------------------------------------------------------------------------------------

def _lib():
    from py_ecc import optimized_bls12_381 as b
    from pytezos.michelson.types import bls as t
    return b, t


def canon_item(item):
    prim = getattr(item, 'prim', None)      # stack items are instances of dynamically created subclasses: go by prim
    if prim == 'bls12_381_g1':
        return 'g1:' + (bytes(item).hex() or '-')
    if prim == 'bls12_381_g2':
        return 'g2:' + (bytes(item).hex() or '-')
    if prim == 'bls12_381_fr':
        try:
            hx = item.to_micheline_value(mode='optimized')['bytes']
        except OverflowError:
            hx = 'err'
        return f'fr:{int(item)}:{hx}'
    if prim == 'int':
        return f'int:{int(item)}'
    if prim == 'nat':
        return f'nat:{int(item)}'
    if prim == 'bool':
        return 'bool:true' if bool(item) else 'bool:false'
    return f'other:{prim}'


def canon_error(e):
    msg = str(e.args[-1]) if e.args else ''
    if msg.startswith('unexpected types') or msg.startswith('expected one of'):
        return 'err:types'
    return 'err:other'


def run_code(code):
    from pytezos.michelson.repl import Interpreter
    i = Interpreter()
    res = i.execute(code)
    if res.error is not None:
        return canon_error(res.error)
    return canon_item(i.stack.items[0])


def push(val):
    kind, _, body = val.partition(':')
    if kind in ('g1', 'g2', 'frb'):
        return f'PUSH {PUSH_TY[kind]} 0x{"" if body == "-" else body}'
    return f'PUSH {PUSH_TY[kind]} {body}'


def pairing_job(pairs):
    """pairs: [(g1hex, g2hex)] -> canonical output (top-level so that a worker process can run it)"""
    from harness import common
    common.use_repo()
    body = ' ; '.join(f'Pair 0x{a} 0x{b}' for a, b in pairs)
    return run_code('PUSH (list (pair bls12_381_g1 bls12_381_g2)) { %s }; PAIRING_CHECK' % body)


class Real:
    """memoised single-instruction runs; the lines are replayed on the Lean driver afterwards"""

    def __init__(self):
        self.memo = {}

    def run(self, op, *vals):
        line = ' '.join([op, *vals])
        if line not in self.memo:
            if op == 'PUSHFR':
                code = push(vals[0])
            else:
                code = '; '.join([*(push(v) for v in reversed(vals)), op])
            self.memo[line] = run_code(code)
        return self.memo[line]


def as_val(out):
    """output of one instruction as the operand of the next"""
    if out.startswith('fr:'):
        return 'fr:' + out.split(':')[1]
    return out


# ---- reference serialisation (spec side) ------------------------------------------------------------------

def ref_encode(grp, pt):
    b, _ = _lib()
    if b.is_inf(pt):
        return bytes([0x40]) + bytes(95 if grp == 'g1' else 191)
    x, y = b.normalize(pt)
    if grp == 'g1':
        cs = [x.n, y.n]
    else:
        cs = [x.coeffs[1], x.coeffs[0], y.coeffs[1], y.coeffs[0]]
    return b''.join(int(c).to_bytes(48, 'big') for c in cs)


class Points:
    def __init__(self):
        b, t = _lib()
        self.b = b
        self.gen = {'g1': b.G1, 'g2': b.G2}
        self.cls = {'g1': t.BLS12_381_G1Type, 'g2': t.BLS12_381_G2Type}
        self.cache = {}

    def point(self, grp, k):
        return self.b.multiply(self.gen[grp], k)

    def ref(self, grp, k):
        """reference encoding of (k mod r)·G as an operand string"""
        k %= R
        if (grp, k) not in self.cache:
            self.cache[(grp, k)] = f'{grp}:' + ref_encode(grp, self.point(grp, k)).hex()
        return self.cache[(grp, k)]


# ---- the check -------------------------------------------------------------------------------------------

def run(ctx):
    ctx.prepare_lean(extract.generate(PROP))
    ctx.assumptions += [
        'py_ecc curve arithmetic (optimized_bls12_381 add/neg/multiply/normalize/is_inf/pairing, FQ/FQ2/FQ12) is modelled, '
        'not verified: the Lean theorems take the group laws, the order law r•P = 0 and bilinearity as hypotheses '
        '(structure CurveLaws / PairingLaws, an instance is exhibited); here they are only sampled on the real library',
        'the driver instance of the py_ecc interface is projective arithmetic written in Lean after optimized_curve.py '
        '(cross-checked against py_ecc by this run); PAIRING_CHECK is compared on the discrete-log instance, not on a Lean Miller loop',
        'byte strings that do not encode a subgroup point (wrong length, coordinates >= q, points off the curve) are outside '
        'the property; pytezos does not validate them and neither the theorems nor the sampling constrain them',
    ]
    ctx.extra['rule'] = ('points = k·G1 / k·G2 for k in {0 (infinity), 1, 2, r-1, r (infinity reached by multiply), random mod r}; '
                         'scalars in {0, 1, 2, r-1, r, r+1, 2^256-1, negative, random}; exhaustive small grid first, then random '
                         'bundles; a bundle evaluates every law on one (P, Q, R, k, l); non-trivial = distinct (law, group, dlogs, scalars)')
    quick = ctx.tier == 'quick'
    rng = ctx.rng
    b, t = _lib()
    P = Points()
    real = Real()

    def viol(key, what, replay):
        ctx.violation(key, what, replay)

    def rnd_scalar():
        return rng.choice([rng.randrange(R), rng.randrange(R), rng.getrandbits(256), -rng.randrange(1, R), rng.randrange(1, 1000)])

    # ---------------- codec ----------------
    ks = [0, 1, 2, 3, R - 1, R, R + 1, 2 * R - 1] + [rng.randrange(R) for _ in range(6 if quick else 150)]
    for grp in ('g1', 'g2'):
        for k in ks:
            pt = P.point(grp, k)
            desc = {'stream': 'codec', 'group': grp, 'k': str(k)}
            ctx.case(desc)
            ctx.count('stream', 'codec')
            ctx.count('infinity', 'yes' if k % R == 0 else 'no')
            try:
                enc = bytes(P.cls[grp].from_point(pt))
                enc_out = enc.hex()
            except Exception as e:  # noqa: BLE001
                enc, enc_out = None, 'err:other'
            real.memo[f'ENC {grp} {k}'] = enc_out
            want = ref_encode(grp, pt)
            tag = '[inf]' if k % R == 0 else ''
            if enc != want:
                viol(f'{grp}:encode{tag}', f'from_point({k}·G) = {enc_out[:40]}… expected {want.hex()[:40]}…',
                     {**desc, 'observed': enc_out, 'expected': want.hex()})
                continue
            back = P.cls[grp](enc).to_point()
            same = b.is_inf(back) if b.is_inf(pt) else (not b.is_inf(back) and b.eq(back, pt))
            if b.is_inf(back):
                dec_out = 'inf'
            else:
                x, y = b.normalize(back)
                dec_out = ','.join(str(int(c)) for c in ([x.n, y.n] if grp == 'g1' else [*x.coeffs, *y.coeffs]))
            real.memo[f'DEC {grp} {enc.hex()}'] = dec_out
            if not same:
                viol(f'{grp}:roundtrip{tag}', f'to_point(from_point({k}·G)) is not {k}·G (decoded as {dec_out[:60]})',
                     {**desc, 'bytes': enc.hex(), 'decoded': dec_out})
            else:
                again = bytes(P.cls[grp].from_point(back))
                if again != enc:
                    viol(f'{grp}:reencode{tag}', f'from_point(to_point(x)) != x for x = encoding of {k}·G',
                         {**desc, 'bytes': enc.hex(), 'again': again.hex()})

    # ---------------- group laws through the instructions ----------------
    def law(grp, name, operands, scalars, lhs, rhs, lines):
        """lhs / rhs: canonical outputs that must be equal (and not errors)"""
        inf = any(a % R == 0 for a in operands)
        desc = {'stream': 'ops', 'group': grp, 'law': name, 'dlogs': [str(a % R) for a in operands], 'scalars': [str(s) for s in scalars]}
        ctx.case(desc)
        ctx.count('stream', 'ops')
        ctx.count('law', f'{grp}:{name}')
        ctx.count('infinity', 'yes' if inf else 'no')
        if lhs != rhs or lhs.startswith('err'):
            key = f'{grp}:{name}' + ('[inf]' if inf else '')
            viol(key, f'{" ; ".join(lines)}: {lhs[:70]} expected {rhs[:70]}',
                 {**desc, 'lines': lines, 'observed': lhs, 'expected': rhs})

    def group_bundle(grp, a, bb, c, k, l):
        pa, pb, pc, inf = P.ref(grp, a), P.ref(grp, bb), P.ref(grp, c), P.ref(grp, 0)
        fk, fl = f'fr:{k}', f'fr:{l}'
        add = lambda x, y: real.run('ADD', x, y)           # noqa: E731
        mul = lambda x, s: real.run('MUL', x, s)           # noqa: E731
        neg = lambda x: real.run('NEG', x)                 # noqa: E731
        ab = add(pa, pb)
        law(grp, 'add-dlog', [a, bb], [], ab, P.ref(grp, a + bb), [f'ADD {a}G {bb}G'])
        law(grp, 'identity', [0, a], [], add(inf, pa), pa, [f'ADD inf {a}G'])
        law(grp, 'identity', [a, 0], [], add(pa, inf), pa, [f'ADD {a}G inf'])
        na = neg(pa)
        law(grp, 'neg-dlog', [a], [], na, P.ref(grp, -a), [f'NEG {a}G'])
        if not na.startswith('err'):
            law(grp, 'inverse', [a], [], add(pa, na), inf, [f'ADD {a}G (NEG {a}G)'])
            law(grp, 'neg-involutive', [a], [], neg(na), pa, [f'NEG (NEG {a}G)'])
        law(grp, 'commutative', [a, bb], [], ab, add(pb, pa), [f'ADD {a}G {bb}G', f'ADD {bb}G {a}G'])
        bc = add(pb, pc)
        if not ab.startswith('err') and not bc.startswith('err'):
            law(grp, 'associative', [a, bb, c], [], add(ab, pc), add(pa, bc), [f'ADD (ADD {a}G {bb}G) {c}G', f'ADD {a}G (ADD {bb}G {c}G)'])
        ak = mul(pa, fk)
        law(grp, 'mul-dlog', [a], [k], ak, P.ref(grp, a * (k % R)), [f'MUL {a}G {k}'])
        law(grp, 'mul-one', [a], [1], mul(pa, 'fr:1'), pa, [f'MUL {a}G 1'])
        law(grp, 'mul-zero', [a], [0], mul(pa, 'fr:0'), inf, [f'MUL {a}G 0'])
        law(grp, 'mul-infinity', [0], [k], mul(inf, fk), inf, [f'MUL inf {k}'])
        bk, al = mul(pb, fk), mul(pa, fl)
        if not any(x.startswith('err') for x in (ab, ak, bk, al)):
            law(grp, 'distributive-point', [a, bb], [k], mul(ab, fk), add(ak, bk), [f'MUL (ADD {a}G {bb}G) {k}', f'ADD (MUL {a}G {k}) (MUL {bb}G {k})'])
            kl = real.run('ADD', fk, fl)
            klm = real.run('MUL', fk, fl)
            if kl.startswith('fr:') and klm.startswith('fr:'):
                law(grp, 'distributive-scalar', [a], [k, l], mul(pa, as_val(kl)), add(ak, al), [f'MUL {a}G (ADD {k} {l})', f'ADD (MUL {a}G {k}) (MUL {a}G {l})'])
                law(grp, 'mul-compatible', [a], [k, l], mul(ak, fl), mul(pa, as_val(klm)), [f'MUL (MUL {a}G {k}) {l}', f'MUL {a}G (MUL {k} {l})'])

    small_pts = [0, 1, 2, R - 1]
    small_scalars = [0, 1, 2, R - 1, R, R + 1, 2 ** 256 - 1, -1]
    for grp in ('g1', 'g2'):
        for a in small_pts:
            for bb in small_pts:
                group_bundle(grp, a, bb, 1, 2, R - 1)
        for k in small_scalars:
            group_bundle(grp, 1, 0, 2, k, 3)
        for _ in range(8 if quick else 150):
            a, bb, c = (rng.choice([0, rng.randrange(R), rng.randrange(R), rng.randrange(R), rng.randrange(1, 50)]) for _ in range(3))
            if rng.random() < 0.15:
                bb = R - a          # inverse pair: the doubling / cancelling branches of py_ecc add
            if rng.random() < 0.1:
                bb = a
            group_bundle(grp, a, bb, c, rnd_scalar(), rnd_scalar())

    # ---------------- Fr ----------------
    def fr_expect(v):
        v %= R
        return f'fr:{v}:{v.to_bytes(32, "little").hex()}'

    def fr_law(name, scalars, got, want, lines):
        desc = {'stream': 'ops', 'group': 'fr', 'law': name, 'scalars': [str(s) for s in scalars]}
        ctx.case(desc)
        ctx.count('stream', 'ops')
        ctx.count('law', f'fr:{name}')
        if got != want or (got.startswith('err') and not want.startswith('err')):
            viol(f'fr:{name}', f'{" ; ".join(lines)}: {got[:90]} expected {want[:90]}', {**desc, 'lines': lines, 'observed': got, 'expected': want})

    def fr_bundle(x, y, z):
        fx, fy, fz = f'fr:{x}', f'fr:{y}', f'fr:{z}'
        px = real.run('PUSHFR', fx)
        fr_law('literal-int', [x], px, fr_expect(x), [f'PUSH fr {x}'])
        if px.startswith('fr:') and not px.endswith(':err'):
            fr_law('literal-roundtrip', [x], real.run('PUSHFR', 'frb:' + px.split(':')[2]), fr_expect(x), [f'PUSH fr 0x{px.split(":")[2]}'])
        s = real.run('ADD', fx, fy)
        fr_law('add', [x, y], s, fr_expect(x + y), [f'ADD {x} {y}'])
        m = real.run('MUL', fx, fy)
        fr_law('mul', [x, y], m, fr_expect(x * y), [f'MUL {x} {y}'])
        n = real.run('NEG', fx)
        fr_law('neg', [x], n, fr_expect(-x), [f'NEG {x}'])
        fr_law('int', [x], real.run('INT', fx), f'int:{x % R}', [f'INT {x}'])
        fr_law('add-zero', [x], real.run('ADD', 'fr:0', fx), fr_expect(x), [f'ADD 0 {x}'])
        fr_law('mul-one', [x], real.run('MUL', 'fr:1', fx), fr_expect(x), [f'MUL 1 {x}'])
        if n.startswith('fr:'):
            fr_law('inverse', [x], real.run('ADD', fx, as_val(n)), fr_expect(0), [f'ADD {x} (NEG {x})'])
        else:
            fr_law('inverse', [x], real.run('ADD', fx, as_val(n)) if not n.startswith('err') else n, fr_expect(0), [f'ADD {x} (NEG {x})'])
        fr_law('add-commutative', [x, y], s, real.run('ADD', fy, fx), [f'ADD {x} {y}', f'ADD {y} {x}'])
        fr_law('mul-commutative', [x, y], m, real.run('MUL', fy, fx), [f'MUL {x} {y}', f'MUL {y} {x}'])
        yz, myz, mxz = real.run('ADD', fy, fz), real.run('MUL', fy, fz), real.run('MUL', fx, fz)
        if all(v.startswith('fr:') for v in (s, m, yz, myz, mxz)):
            fr_law('add-associative', [x, y, z], real.run('ADD', as_val(s), fz), real.run('ADD', fx, as_val(yz)), [f'ADD (ADD {x} {y}) {z}', f'ADD {x} (ADD {y} {z})'])
            fr_law('mul-associative', [x, y, z], real.run('MUL', as_val(m), fz), real.run('MUL', fx, as_val(myz)), [f'MUL (MUL {x} {y}) {z}', f'MUL {x} (MUL {y} {z})'])
            fr_law('distributive', [x, y, z], real.run('MUL', as_val(s), fz), real.run('ADD', as_val(mxz), as_val(myz)), [f'MUL (ADD {x} {y}) {z}', f'ADD (MUL {x} {z}) (MUL {y} {z})'])
        # mixed MUL with int / nat on either side
        fr_law('mul-int', [x, y], real.run('MUL', fx, f'int:{y}'), fr_expect(x * y), [f'MUL fr {x} int {y}'])
        fr_law('mul-int', [y, x], real.run('MUL', f'int:{y}', fx), fr_expect(x * y), [f'MUL int {y} fr {x}'])
        if y >= 0:
            fr_law('mul-nat', [x, y], real.run('MUL', fx, f'nat:{y}'), fr_expect(x * y), [f'MUL fr {x} nat {y}'])
            fr_law('mul-nat', [y, x], real.run('MUL', f'nat:{y}', fx), fr_expect(x * y), [f'MUL nat {y} fr {x}'])

    for x in small_scalars:
        for y in (0, 1, R - 1, -3):
            fr_bundle(x, y, 2)
    for _ in range(20 if quick else 400):
        fr_bundle(rnd_scalar(), rnd_scalar(), rnd_scalar())
    # byte literals of every admissible length, and the first inadmissible one
    for n in range(0, 34):
        raw = rng.bytes_(n)
        if n and rng.random() < 0.3:
            raw = raw[:-1] + b'\xff'
        out = real.run('PUSHFR', 'frb:' + (raw.hex() or '-'))
        want = fr_expect(int.from_bytes(raw, 'little')) if n <= 32 else 'err:other'
        fr_law('literal-bytes', [raw.hex()], out, want, [f'PUSH fr 0x{raw.hex()}'])
    # ill-typed combinations (Michelson reference: none of these is an instance of ADD / MUL / INT)
    g1, g2 = P.ref('g1', 1), P.ref('g2', 1)
    for line in (('ADD', g1, g2), ('ADD', g2, g1), ('ADD', 'fr:1', 'int:1'), ('ADD', 'nat:1', 'fr:1'), ('ADD', g1, 'fr:1'),
                 ('MUL', 'fr:2', g1), ('MUL', g1, 'int:2'), ('MUL', g2, 'nat:2'), ('MUL', g1, g1), ('MUL', g1, g2), ('INT', 'int:1')):
        out = real.run(*line)
        desc = {'stream': 'ops', 'law': 'ill-typed', 'line': ' '.join(v[:12] for v in line)}
        ctx.case(desc)
        ctx.count('law', 'ill-typed')
        if out != 'err:types':
            viol('ill-typed:' + ' '.join(v.split(':')[0] for v in line), f'{desc["line"]} → {out[:60]} (expected a type error)', {**desc, 'observed': out})

    # ---------------- scalar / point entry forms of the Python-object API ----------------
    # the same field element handed over as int, little-endian bytes (any length <= 32), hex text with and without 0x, Micheline
    # int, Micheline bytes; the same point as bytes / hex text.  Every form must denote the element the group laws are stated for.
    def entry_forms(v):
        v %= R
        forms = [('int', v), ('int+r', v + R), ('int-r', v - R)]
        full = v.to_bytes(32, 'little')
        short = full.rstrip(b'\x00') or b''
        for nm, bs in (('bytes32', full), ('bytes-min', short), ('bytes-min+1', short + b'\x00' if len(short) < 32 else full)):
            forms.append((nm, bs))
            forms.append(('hex:' + nm, bs.hex()))
            forms.append(('0xhex:' + nm, '0x' + bs.hex()))
        return forms

    fr_cls = t.BLS12_381_FrType
    entry_scalars = [0, 1, 2, 255, 256, 257, 4096, 65536, 1 << 64, 1 << 248, (1 << 248) + 256, R - 1, R - 2, R - 256, R - 255,
                     0x30, 0x3000, 0x0100, 0x1000]
    entry_scalars += [rng.randrange(R) for _ in range(10 if quick else 300)]
    entry_scalars += [rng.randrange(R) & ~0xff for _ in range(10 if quick else 300)]          # low byte zero
    entry_scalars += [rng.randrange(R) & ~0xffff for _ in range(4 if quick else 100)]
    for v in entry_scalars:
        for nm, form in entry_forms(v):
            desc = {'stream': 'entry', 'group': 'fr', 'form': nm, 'scalar': str(v % R)}
            ctx.case(desc)
            ctx.count('stream', 'entry')
            ctx.count('entry-form', nm.split(':')[0])
            try:
                obj = fr_cls.from_python_object(form)
                got = obj.value
                opt = obj.to_micheline_value(mode='optimized')
                back = fr_cls.from_micheline_value(opt).value
                back2 = fr_cls.from_micheline_value(obj.to_micheline_value(mode='readable')).value
            except Exception as e:  # noqa: BLE001
                got, opt, back, back2 = f'{type(e).__name__}: {e}', None, None, None
            want = v % R
            if got != want:
                shown = form.hex() if isinstance(form, bytes) else form
                viol(f'fr:entry-form:{nm.split(":")[0]}', f'bls12_381_fr.from_python_object({shown!r}) denotes {got}, the little-endian value of these bytes modulo r is {want}',
                     {**desc, 'argument': shown, 'observed': str(got), 'expected': str(want)})
            elif back != want or back2 != want or opt != {'bytes': want.to_bytes(32, 'little').hex()}:
                viol('fr:micheline-roundtrip', f'fr {want}: optimized form {opt} reads back as {back}, readable as {back2}', {**desc, 'optimized': opt})
    for grp in ('g1', 'g2'):
        for k in [0, 1, R - 1] + [rng.randrange(R) for _ in range(2 if quick else 20)]:
            enc = ref_encode(grp, P.point(grp, k))
            for nm, form in (('bytes', enc), ('hex', enc.hex()), ('0xhex', '0x' + enc.hex())):
                desc = {'stream': 'entry', 'group': grp, 'form': nm, 'k': str(k)}
                ctx.case(desc)
                ctx.count('stream', 'entry')
                try:
                    got = bytes(P.cls[grp].from_python_object(form))
                except Exception as e:  # noqa: BLE001
                    got = f'{type(e).__name__}: {e}'
                if got != enc:
                    viol(f'{grp}:entry-form:{nm}', f'{grp}.from_python_object({nm} of {k}·G) = {got if isinstance(got, str) else got.hex()[:40]}, expected the same 0x{enc.hex()[:40]}…',
                         {**desc, 'observed': got if isinstance(got, str) else got.hex()})

    # ---------------- pairing ----------------
    def pairing_case(exps):
        """exps: [(a, b)] meaning the pair (a·G1, b·G2)"""
        pairs = [(P.ref('g1', a).split(':')[1], P.ref('g2', bb).split(':')[1]) for a, bb in exps]
        line = 'PAIRING ' + ' '.join(f'{x}:{a % R},{y}:{bb % R}' for (x, y), (a, bb) in zip(pairs, exps))
        return pairs, line.strip()

    pcases = [[], [(0, 1)], [(1, 0), (0, 0)]]
    # a pair holding the point at infinity is the factor 1 — the pairs AFTER it still count (one Miller loop each: false, false)
    pcases += [[(0, 1), (rng.randrange(1, R), 1)], [(rng.randrange(1, R), 0), (1, rng.randrange(1, R))]]
    budget = 11 if quick else 80
    used = 0

    def cost(exps):
        return sum(1 for a, bb in exps if a % R and bb % R)
    templates = []
    a, bb = rng.randrange(1, R), rng.randrange(1, R)
    templates.append([(a, bb), (-(a * bb), 1)])                # e(aG1,bG2)·e(-abG1,G2) = 1
    # the same G2 point at two positions that are NOT adjacent, with different G1 points: every pair is a factor of its own
    c0 = rng.randrange(1, R)
    templates.append([(a, 1), (c0, 2), (-(a + 2 * c0), 1)])    # true: a + 2c - (a + 2c) = 0
    # the same (g1, g2) pair listed twice must be multiplied in twice (a per-call cache of Miller loops must not drop it)
    templates.append([(a, bb), (a, bb), (-(2 * a * bb), 1)])   # true:  e(G1,G2)^(2ab - 2ab)
    templates.append([(a, bb), (a, bb), (-(a * bb), 1)])       # false: e(G1,G2)^(ab)
    for _ in range(200):
        a, bb, c = rng.randrange(1, R), rng.randrange(1, R), rng.randrange(1, R)
        kind = rng.randrange(6)
        if kind == 0:
            templates.append([(a, bb), (a, -bb)])
        elif kind == 1:
            templates.append([(a, bb), (0, c), (-a, bb)])
        elif kind == 2:
            templates.append([(a, bb), (c, 1), (-(a * bb + c), 1)])
        elif kind == 3:
            templates.append([(a, bb), (c, 1), (-(a * bb + c) + 1, 1)])     # off by one: false
        elif kind == 4:
            templates.append([(a, 1)])                                        # single non-degenerate pairing: false
        elif rng.random() < 0.5:
            templates.append([(a, bb), (-(a * bb), 1), (c, 0)])
        else:
            templates.append([(a, bb), (c, 1), (a, bb), (-(2 * a * bb + c), 1)])   # repeated pair, not adjacent: true
    for exps in templates:
        if used + cost(exps) > budget:
            continue
        used += cost(exps)
        pcases.append(exps)
    jobs = [pairing_case(e) for e in pcases]
    if quick or len(jobs) < 4:
        outs = [pairing_job(p) for p, _ in jobs]
    else:
        import multiprocessing
        with multiprocessing.get_context('fork').Pool(8) as pool:
            outs = pool.map(pairing_job, [p for p, _ in jobs])
    for exps, (pairs, line), out in zip(pcases, jobs, outs):
        real.memo[line] = out
        total = sum(a * bb for a, bb in exps) % R
        want = 'bool:true' if total == 0 else 'bool:false'
        inf = any(a % R == 0 or bb % R == 0 for a, bb in exps)
        desc = {'stream': 'pairing', 'exponents': [[str(a % R), str(bb % R)] for a, bb in exps]}
        ctx.case(desc)
        ctx.count('stream', 'pairing')
        ctx.count('pairing-expected', want)
        ctx.count('pairing-len', len(exps))
        if out != want:
            viol('pairing' + ('[inf]' if inf else ''), f'PAIRING_CHECK on exponents {desc["exponents"]} → {out} expected {want}',
                 {**desc, 'observed': out, 'expected': want})
    ctx.extra['pairings_evaluated'] = used

    # ---------------- model ----------------
    lines = ['CONST'] + list(real.memo)
    model = ctx.model(lines)
    if model is not None:
        consts = f'q={b.field_modulus} r={b.curve_order} modulus={t.BLS12_381_FrType.modulus}'
        ctx.obligation('contract:model constants q, r and extracted modulus equal py_ecc field_modulus / curve_order and the live class attribute',
                       model[0] == consts and b.curve_order == R and b.field_modulus == Q, f'model {model[0][:120]}')
        for ln, mo in zip(lines[1:], model[1:]):
            if real.memo[ln] != mo:
                ctx.mismatch(ln.split(' ')[0], ln[:400], real.memo[ln], mo)
