"""C01 — the interpreter computes Michelson results.  Well-typed programs over the modelled core are run on the
real instruction classes, on the Lean mirror `Impl.exec` and on the Lean reference semantics `Spec.eval`."""
import json

from harness import gen_interp, interp_run, mich
from translator import extract

PROP = 'C01'
FUEL = 400


def env_words(env):
    hx = lambda s: s.encode().hex() or '-'
    return ' '.join([str(env['amount']), str(env['balance']), str(env['now']), str(env['level']),
                     hx(env['sender']), hx(env['source']), hx(env['self']), hx(env['chain_id'])])


def gen_env(rng):
    return {'amount': rng.choice([0, 1, 10**6, 2**62]), 'balance': rng.choice([0, 5, 10**9]), 'now': rng.choice([0, 1, 1700000000, -5]),
            'level': rng.choice([1, 2, 10**7]), 'sender': rng.choice(gen_interp.ADDRS), 'source': rng.choice(gen_interp.ADDRS[:1] + gen_interp.ADDRS[2:4]),
            'self': rng.choice(gen_interp.ADDRS[1:2] + gen_interp.ADDRS[4:]), 'chain_id': rng.choice(gen_interp.CHAINS)}


def parse_model(out):
    """driver output -> same shape as interp_run.run_real"""
    if out == 'err':
        return 'err', None
    parts = out.split(' | ')
    if parts[0] == 'failed':
        t, v = parts[1].split(' ; ')
        return 'failed', (gen_interp.ty_from_mich(mich.from_line(t)), mich.from_line(v))
    items = []
    for p in parts[1:]:
        t, v = p.split(' ; ')
        items.append((mich.from_line(t), mich.from_line(v)))
    return 'ok', items


def norm_val(v):
    return mich.normalize(v)


def compare_outcomes(real, model, expect_ty=None):
    """None if they agree, else a description"""
    if real[0] != model[0]:
        return f'outcome {real[0]} vs {model[0]}'
    if real[0] == 'ok':
        rv = [(t, norm_val(v)) for t, v in real[1]]
        mv = [(t, norm_val(v)) for t, v in model[1]]
        if [v for _, v in rv] != [v for _, v in mv]:
            return 'stack values differ'
        if [t for t, _ in rv] != [t for t, _ in mv]:
            return 'runtime types differ'
    return None


def run(ctx, prop=PROP):
    ctx.prepare_lean(extract.generate(prop))
    n_prog = 1500 if ctx.tier == 'quick' else 40000
    g = gen_interp.Gen(ctx.rng)
    ctx.extra['rule'] = ('well-typed programs grown type-directedly over the modelled core (see harness/gen_interp.py); '
                         'non-trivial = at least 6 instructions and at least one control instruction (IF*/LOOP*/ITER/MAP/DIP/EXEC)')
    if prop == 'C02':
        ctx.extra['rule'] += ('; plus a systematic stream: MAP (6 bodies that keep / swap / replace / rebuild the element) over pushed maps of '
                              f'{len(KEY_TYPES)} key types (simple, pair, nested pair, option, or) x {len(ELT_TYPES)} element types, and over lists; '
                              'these count as non-trivial as well (they contain MAP)')
    ctx.assumptions += ['the Lean mirror omits pytezos\' dynamic type assertions: programs are well-typed by construction',
                        'FAILWITH values are observable only through repr() in pytezos; compared as repr strings',
                        'instructions outside the modelled core (see Instr in Interp/Syntax.lean) are not covered']
    progs = []
    if prop == 'C02':
        progs += collection_programs(g, ctx.rng, 1 if ctx.tier == 'quick' else 8)
    for i in range(n_prog):
        code, st = g.program(ctx.rng.choice([3, 5, 8, 12, 16]))
        progs.append((code, st, gen_env(ctx.rng)))
    lines = []
    for code, st, env in progs:
        line = f'{FUEL} | {env_words(env)} | {mich.to_line(code)}'
        lines.append('impl ' + line)
        lines.append('spec ' + line)
        lines.append('specg ' + line)
        lines.append('type ' + line)
    model = ctx.model(lines, driver=prop)
    ctx.extra['instruction_mix'] = dict(sorted(g.used.items()))
    for i, (code, st, env) in enumerate(progs):
        text = json.dumps(code)
        control = any(k in text for k in ('"IF', '"LOOP', '"ITER', '"MAP', '"DIP', '"EXEC'))
        size = gen_interp.code_size(code)
        ctx.case({'code': code if size < 10 else f'<{size} instrs>', 'env': env}, nontrivial=control and (size >= 6 or (prop == 'C02' and ('"MAP"' in text or '"ITER"' in text))))
        real = interp_run.run_real(code, env)
        ctx.count('outcome', real[0])
        for kt in map_key_kinds(code):
            ctx.count('map-key-type', kt)
        ctx.count('size', min(size // 5 * 5, 60))
        if model is None:
            impl_m = spec_m = specg_m = None
        else:
            impl_m, spec_m, specg_m = (parse_model(model[4 * i + k]) for k in range(3))
            # the generator's own type tracking against the Lean type checker (validates both)
            tline = model[4 * i + 3]
            want = 'ok' + ''.join(' | ' + mich.to_line(gen_interp.ty_mich(t)) for t in st)
            if tline != want and tline != 'failed':
                ctx.mismatch('typing', {'code': code}, want, tline)
            d = compare_outcomes(drop_fw(real), drop_fw(impl_m))
            if d:
                ctx.mismatch('impl-mirror', {'code': code, 'env': env}, f'{d}: {str(real)[:300]}', str(impl_m)[:300])
            if real[0] == 'failed' and impl_m[0] == 'failed':
                want_repr = interp_run.py_repr(*impl_m[1])
                if want_repr is not None and want_repr != real[1]:
                    ctx.mismatch('failwith-value', {'code': code, 'env': env}, real[1], want_repr)
            # ---- C02's property verbatim: runtime type of every final slot = the type the typing rules assign
            if prop == 'C02' and real[0] == 'ok' and tline.startswith('ok'):
                static = [mich.from_line(x) for x in tline.split(' | ')[1:]]
                got = [t for t, _ in real[1]]
                ctx.count('static-type-oracle', 'checked')
                if got != static:
                    key = ('MAP-over-empty-collection-with-type-changing-body' if specg_m[0] == 'err'
                           else 'type-differs:' + mich.to_line(code)[:120])
                    ctx.violation(key, f'runtime types {got} but the typing rules assign {static}',
                                  {'code': code, 'env': env, 'runtime_types': got, 'static_types': static})
        # ---- property oracle: an independent reference.  With the Lean side available it is Spec.eval; the
        # implementation must compute what the reference prescribes whenever the reference is defined.
        if spec_m is not None and spec_m[0] != 'err':
            d2 = compare_outcomes(drop_fw(real), drop_fw(spec_m))
            if d2 and (('types' in d2) == (prop == 'C02')):
                if specg_m[0] == 'err':
                    key = 'MAP-over-empty-collection-with-type-changing-body'
                else:
                    key = ('type-differs:' if prop == 'C02' else 'result-differs:') + mich.to_line(code)[:120]
                ctx.violation(key, f'{d2}: real {str(real)[:200]} reference {str(spec_m)[:200]}',
                              {'code': code, 'env': env, 'real': str(real), 'reference': str(spec_m)})
        elif spec_m is not None:
            ctx.count('spec', 'stuck-or-fuel')
        if spec_m is None:
            # Lean side unavailable: fall back to the generator's statically tracked types as the oracle for C02
            if real[0] == 'ok' and prop == 'C02':
                got = [t for t, _ in real[1]]
                want = [gen_interp.ty_mich(t) for t in st]
                if got != want:
                    ctx.violation('type-differs:' + mich.to_line(code)[:120], f'runtime types {got} expected {want}', {'code': code, 'env': env})
            if real[0] == 'err' and prop == 'C01' and 'overflow' not in str(real[1]) and 'natural' not in str(real[1]):
                ctx.violation('wellTyped-program-errors:' + mich.to_line(code)[:120], f'well-typed program fails with {real[1]}', {'code': code, 'env': env})


def map_key_kinds(code):
    """outermost prim of the key type of every `map k v` type expression in the code"""
    out = []

    def walk(x):
        if isinstance(x, list):
            for y in x:
                walk(y)
        elif isinstance(x, dict):
            if x.get('prim') in ('map', 'EMPTY_MAP') and len(x.get('args', [])) == 2:
                out.append(x['args'][0]['prim'])
            for y in x.get('args', []):
                walk(y)
    walk(code)
    return out


KEY_TYPES = [('int',), ('string',), ('pair', ('int',), ('int',)), ('pair', ('string',), ('nat',)), ('pair', ('pair', ('int',), ('bytes',)), ('nat',)),
             ('pair', ('int',), ('pair', ('nat',), ('string',))), ('option', ('int',)), ('or', ('nat',), ('string',)),
             ('pair', ('option', ('nat',)), ('or', ('int',), ('bytes',)))]
ELT_TYPES = [('int',), ('string',), ('pair', ('int',), ('nat',)), ('option', ('nat',)), ('list', ('int',)), ('or', ('unit',), ('bytes',))]


def collection_programs(g, rng, reps):
    """the mechanism the property is anchored in: MAP / ITER over maps and lists of every key and element shape
    (composite keys included), with bodies that keep, swap, replace or rebuild the element"""
    P = lambda prim, *args: {'prim': prim, 'args': list(args)} if args else {'prim': prim}
    progs = []
    for _ in range(reps):
        for kt in KEY_TYPES:
            for vt in ELT_TYPES:
                mt = ('map', kt, vt)
                bodies = [
                    ([P('CDR')], vt),
                    ([P('CAR')], kt),
                    ([P('DUP'), P('CDR'), P('SWAP'), P('CAR'), P('PAIR')], ('pair', kt, vt)),
                    ([P('UNPAIR'), P('SOME'), P('PAIR')], ('pair', ('option', kt), vt)),
                    ([P('DROP'), g.push(('nat',))], ('nat',)),
                    ([P('CDR'), P('LEFT', gen_interp.ty_mich(kt))], ('or', vt, kt)),
                ]
                for body, out in bodies:
                    val = g.gen_value(mt)
                    while not val and rng.random() < 0.9:
                        val = g.gen_value(mt)
                    code = [P('PUSH', gen_interp.ty_mich(mt), val), P('MAP', body)]
                    st = [('map', kt, out)]
                    if rng.random() < 0.3:      # the result must still be usable as a map of the new type
                        code += [P('DUP'), P('SIZE'), P('SWAP'), P('ITER', [P('DROP')])]
                        st = [('nat',)]
                    elif rng.random() < 0.3:
                        code += [P('EMPTY_MAP', gen_interp.ty_mich(kt), gen_interp.ty_mich(out)), P('PAIR')]
                        st = [('pair', ('map', kt, out), ('map', kt, out))]
                    progs.append((code, st, gen_env(rng)))
        for vt in ELT_TYPES + KEY_TYPES[2:]:
            lt = ('list', vt)
            for body, out in [([P('SOME')], ('option', vt)), ([P('DUP'), P('PAIR')], ('pair', vt, vt)), ([P('DROP'), P('UNIT')], ('unit',)), ([], vt)]:
                val = g.gen_value(lt)
                progs.append(([P('PUSH', gen_interp.ty_mich(lt), val), P('MAP', body)], [('list', out)], gen_env(rng)))
    return progs


def drop_fw(r):
    return ('failed', None) if r[0] == 'failed' else r
