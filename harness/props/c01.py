"""C01 — the interpreter computes Michelson results.  Well-typed programs over the modelled core are run on the
real instruction classes, on the Lean mirror `Impl.exec` and on the Lean reference semantics `Spec.eval`."""
import json
import re

from harness import gen_interp, interp_run, mich
from translator import extract

PROP = 'C01'
FUEL = 400


def env_words(env):
    hx = lambda s: s.encode().hex() or '-'
    return ' '.join([str(env['amount']), str(env['balance']), str(env['now']), str(env['level']),
                     hx(env['sender']), hx(env['source']), hx(env['self']), hx(env['chain_id']),
                     str(env.get('total_voting_power', 0)), str(env.get('min_block_time', 1)),
                     ','.join(f'{hx(k)}:{v}' for k, v in sorted(env.get('voting_power', {}).items())) or '-'])


def gen_env(rng):
    pname, ptype, eps = rng.choice(gen_interp.PARAMETERS)
    return {'parameter': ptype, 'entrypoints': eps, 'parameter_name': pname,
            'amount': rng.choice([0, 1, 10**6, 2**62]), 'balance': rng.choice([0, 5, 10**9]), 'now': rng.choice([0, 1, 1700000000, -5]),
            'level': rng.choice([1, 2, 10**7]), 'sender': rng.choice(gen_interp.ADDRS), 'source': rng.choice(gen_interp.ADDRS[:1] + gen_interp.ADDRS[2:4]),
            'self': rng.choice(gen_interp.ADDRS[1:2] + gen_interp.ADDRS[4:]), 'chain_id': rng.choice(gen_interp.CHAINS),
            'total_voting_power': rng.choice([0, 1, 500, 10**12]), 'min_block_time': rng.choice([1, 8, 15, 30]),
            # the delegates with a voting power (the others have 0): some of the hashes HASH_KEY produces, some pushed literally
            'voting_power': {k: rng.choice([0, 1, 4000, 2**63, 10**30]) for k in gen_interp.KEY_HASHES if rng.random() < 0.5}}


ERR_KINDS = ('err', 'stuck', 'oof', 'rtfail', 'offguard')


def for_model(code, env):
    """the program as the Lean driver reads it: `SELF %ep` is written with the type of that entrypoint of the running contract's
    parameter as an argument (the elaborated instruction — the real side looks it up in `context.parameter_expr`)"""
    eps = env.get('entrypoints', {})

    def walk(x):
        if isinstance(x, list):
            return [walk(y) for y in x]
        if isinstance(x, dict) and 'prim' in x:
            if x['prim'] == 'SELF':
                ep = (x.get('annots') or ['%default'])[0][1:]
                return {**x, 'args': [gen_interp.ty_mich(eps[ep])]}
            if 'args' in x:
                return {**x, 'args': [walk(a) for a in x['args']]}
        return x
    return walk(code)


_TS_CACHE = {}


def read_timestamp(text):
    """what `TimestampType.from_micheline_value` makes of a string node whose bytes are `text`: `unforge_micheline` decodes it
    (UTF-8), `optimize_timestamp` reads it; None if either raises.  The instance of the model's parameter `Env.readTimestamp`."""
    if text not in _TS_CACHE:
        from pytezos.michelson.forge import optimize_timestamp
        try:
            _TS_CACHE[text] = int(optimize_timestamp(text.decode()))
        except Exception:      # noqa: whatever it raises, UNPACK swallows it
            _TS_CACHE[text] = None
    return _TS_CACHE[text]


def timestamp_words(code):
    """12th environment word: `hex(text):seconds|x,…` for the texts of the program an UNPACK could read as a timestamp"""
    if '"UNPACK"' not in json.dumps(code):
        return '-'
    rows = []
    for text in gen_interp.texts_of(code):
        v = read_timestamp(text)
        rows.append(f'{text.hex()}:{"x" if v is None else v}')
    return ','.join(rows) or '-'


_SIG_CACHE = {}


def check_signature(key, sig, msg):
    """what CheckSignatureInstruction computes for the triple: True if `Key.verify` returns, False if it raises ValueError (None:
    anything else happens — the triple is then left out of the table and the real run will differ from the model)"""
    t = (key, sig, msg)
    if t not in _SIG_CACHE:
        from pytezos.crypto.key import Key
        try:
            Key.from_encoded_key(key).verify(signature=sig, message=bytes.fromhex(msg))
            _SIG_CACHE[t] = True
        except ValueError:
            _SIG_CACHE[t] = False
        except Exception:      # noqa
            _SIG_CACHE[t] = None
    return _SIG_CACHE[t]


def signature_words(code):
    """13th environment word: `hex(key):hex(signature):hex(message):0|1,…` — the instance of the model's parameter `Hashes.checkSig`"""
    if '"CHECK_SIGNATURE"' not in json.dumps(code):
        return '-'
    rows = []
    for k, s, m in gen_interp.sig_triples(code):
        v = check_signature(k, s, m)
        if v is not None:
            rows.append(f'{k.encode().hex()}:{s.encode().hex()}:{m or "-"}:{int(v)}')
    return ','.join(rows) or '-'


def prog_line(code, env):
    return f'{FUEL} | {env_words(env)} {timestamp_words(code)} {signature_words(code)} | {mich.to_line(for_model(code, env))}'


def parse_model(out):
    """driver output -> same shape as interp_run.run_real; every non-result outcome of the model is ('err', kind):
    `rtfail` (runtime failure: the reference *defines* that the operation fails — pytezos must raise), `oof` (fuel bound),
    `stuck` (ill-typed configuration), `offguard` (guard mode: MAP over an empty collection with a type-changing body),
    `err` (a literal rejected at the boundary)"""
    if out in ERR_KINDS:
        return 'err', out
    parts = out.split(' | ')
    if parts[0] == 'failed':
        t, v = parts[1].split(' ; ')
        return 'failed', (gen_interp.ty_from_mich(mich.from_line(t)), mich.from_line(v))
    items = []
    for p in parts[1:]:
        t, v = p.split(' ; ')
        items.append((mich.from_line(t), mich.from_line(v)))
    return 'ok', items


def binarize(m):
    """`pair a b c` / `Pair x y z` inside code (lambda bodies are rendered back as written) -> nested binary form"""
    if isinstance(m, list):
        return [binarize(x) for x in m]
    if isinstance(m, dict) and 'prim' in m:
        args = [binarize(a) for a in m.get('args', [])]
        if m['prim'] in ('pair', 'Pair') and len(args) > 2 and not m.get('annots'):
            rest = binarize({'prim': m['prim'], 'args': args[1:]})
            args = [args[0], rest]
        out = dict(m)
        if args:
            out['args'] = args
        return out
    return m


def norm_val(v):
    return mich.normalize(strip_default_ep(binarize(v)))


def strip_default_ep(m):
    """inside code rendered back (lambda values): `CONTRACT %default t` and `CONTRACT t` are the same instruction"""
    if isinstance(m, list):
        return [strip_default_ep(x) for x in m]
    if isinstance(m, dict) and 'prim' in m:
        out = dict(m)
        if 'args' in out:
            out['args'] = [strip_default_ep(a) for a in out['args']]
        if out['prim'] == 'CONTRACT' and out.get('annots') == ['%default']:
            del out['annots']
        return out
    return m


def defined(spec_m):
    """the reference defines the outcome of the run: a stack, a FAILWITH value, or a runtime failure"""
    return spec_m[0] != 'err' or spec_m[1] == 'rtfail'


def compare_outcomes(real, model, expect_ty=None):
    """None if they agree, else a description"""
    if real[0] != model[0]:
        return f'outcome {real[0]} vs {model[0]}'
    if real[0] == 'ok':
        rv = [(t, norm_val(v)) for t, v in real[1]]
        mv = [(t, norm_val(v)) for t, v in model[1]]
        if [v for _, v in rv] != [v for _, v in mv]:
            return 'stack values differ'
        if [t for t, _ in rv] != [t for t, _ in mv]:
            return 'runtime types differ'
    return None


def table_obligations(ctx):
    """name the obligation of Proofs/InterpTables.lean that an edited table / bound re-opened: the build log's error
    positions in that file are mapped to the enclosing `theorem` (the generic `theorem:*` obligations only say that the
    Props module does not build)"""
    import os
    from harness import common
    path = os.path.join(common.LEAN, 'PytezosModel', 'Proofs', 'InterpTables.lean')
    src = open(path).read().split('\n')
    names = [(i + 1, m.group(1)) for i, ln in enumerate(src) for m in [re.match(r'theorem\s+(\S+)', ln)] if m]
    log = '\n'.join(d for n, ok, d in ctx.obligations if n.startswith('build:') and not ok)
    bad = {}
    for m in re.finditer(r'InterpTables\.lean:(\d+):\d+: (.*)', log):
        line = int(m.group(1))
        owner = [nm for ln, nm in names if ln <= line]
        if owner:
            bad.setdefault(owner[-1], m.group(2)[:200])
    for _, nm in names:
        ctx.obligation(f'source-table:{nm}', nm not in bad, bad.get(nm, 'closed by decide / case analysis over Generated.C01'))
    # the re-opened ones first: they are what the report should name
    ctx.obligations.sort(key=lambda o: not (o[0].startswith('source-table:') and not o[1]))
    return sorted(bad)


def run(ctx, prop=PROP):
    # C02 runs on the same model: the tables `Impl` reads are regenerated from the source for both properties
    ctx.prepare_lean(extract.generate('C01'))
    ctx.extra['reopened_table_obligations'] = table_obligations(ctx)
    n_prog = 1500 if ctx.tier == 'quick' else 40000
    g = gen_interp.Gen(ctx.rng)
    ctx.extra['rule'] = ('well-typed programs grown type-directedly over the modelled core (see harness/gen_interp.py); '
                         'non-trivial = at least 6 instructions and at least one control instruction (IF*/LOOP*/ITER/MAP/DIP/EXEC)')
    if prop == 'C02':
        ctx.extra['rule'] += ('; plus a systematic stream: MAP (6 bodies that keep / swap / replace / rebuild the element) over pushed maps of '
                              f'{len(KEY_TYPES)} key types (simple, pair, nested pair, option, or) x {len(ELT_TYPES)} element types, and over lists; '
                              'these count as non-trivial as well (they contain MAP)')
    ctx.assumptions += ['the Lean mirror omits pytezos\' dynamic type assertions: programs are well-typed by construction',
                        'FAILWITH values are observable only through repr() in pytezos; compared as repr strings',
                        'instructions outside the modelled core (see Instr in Interp/Syntax.lean) are not covered']
    progs = []
    if prop == 'C02':
        progs += collection_programs(g, ctx.rng, 1 if ctx.tier == 'quick' else 8)
    for i in range(n_prog):
        env = gen_env(ctx.rng)
        g.entrypoints = env['entrypoints']      # SELF %ep is typed by the parameter of the running contract
        code, st = g.program(ctx.rng.choice([3, 5, 8, 12, 16]))
        progs.append((code, st, env))
    progs += edge_programs(g, ctx.rng, ctx.tier)
    progs += boundary_programs(ctx.rng)
    lines = []
    for code, st, env in progs:
        line = prog_line(code, env)
        lines.append('impl ' + line)
        lines.append('spec ' + line)
        lines.append('specg ' + line)
        lines.append('type ' + line)
        lines.append('stype ' + line)
    hash_cases = hash_stream(ctx.rng, ctx.tier) if prop == 'C01' else []
    if prop == 'C01':
        packability_stream(ctx)
        type_class_stream(ctx)
    n_prog_lines = len(lines)
    lines += [f'hash {algo} {msg.hex() or "-"}' for algo, msg in hash_cases]
    model = ctx.model(lines, driver=prop)
    if model is not None:
        # the executable Lean hash functions the driver plugs into the model against hashlib / pytezos' own helpers
        for (algo, msg), got in zip(hash_cases, model[n_prog_lines:]):
            want = real_hash(algo, msg).hex()
            ctx.count('hash-cross-check', algo)
            if got != want:
                ctx.mismatch('hash-functions', {'algo': algo, 'message': msg.hex()}, want, got)
        model = model[:n_prog_lines]
    ctx.extra['instruction_mix'] = dict(sorted(g.used.items()))
    ctx.extra['boundary_shapes'] = dict(sorted(g.shapes.items()))
    failing = []
    K = 5      # protocol lines per program: impl, spec, specg, type, stype
    n_session, max_session = 0, (120 if ctx.tier == 'quick' else 2500)
    for i, (code, st, env) in enumerate(progs):
        text = json.dumps(code)
        control = any(k in text for k in ('"IF', '"LOOP', '"ITER', '"MAP', '"DIP', '"EXEC'))
        size = gen_interp.code_size(code)
        ctx.case({'code': code if size < 10 else f'<{size} instrs>', 'env': env}, nontrivial=control and (size >= 6 or (prop == 'C02' and ('"MAP"' in text or '"ITER"' in text))))
        real = interp_run.run_real(code, env)
        ctx.count('outcome', real[0])
        # ---- the same program as a later cell of a REPL session (Interpreter.execute): earlier cells — failing ones are rolled back,
        # also when they fail under a protected stack prefix — must not change what it computes (text goes through format + parse)
        if real[0] == 'ok' and i % 7 == 3 and n_session < max_session and size <= 40 and prop == 'C01':
            n_session += 1
            prelude = interp_run.PRELUDES[n_session % len(interp_run.PRELUDES)]
            try:
                sess = interp_run.run_session(code, env, prelude)
            except Exception as e:      # e.g. a value the text printer cannot render: not this stream's business
                sess = None
                ctx.count('session-stream', f'skipped:{type(e).__name__}')
            if sess is not None:
                ctx.count('session-stream', 'after:' + prelude[0].split(' ; ')[-1][:24])
                if sess != real:
                    ctx.violation('session-history:' + prelude[0][:60],
                                  f'after the REPL cell(s) {prelude} the program {mich.to_line(code)[:200]} gives {str(sess)[:200]}; on a fresh stack {str(real)[:200]}',
                                  {'code': code, 'env': env, 'prelude': prelude, 'in_session': sess, 'fresh': real})
        for prim in sorted(instrs_in(code)):      # number of programs each instruction form occurs in
            ctx.count('programs-with-instruction', prim)
        for kt in map_key_kinds(code):
            ctx.count('map-key-type', kt)
        ctx.count('size', min(size // 5 * 5, 60))
        if model is None:
            impl_m = spec_m = specg_m = None
        else:
            impl_m, spec_m, specg_m = (parse_model(model[K * i + k]) for k in range(3))
            # the generator's own type tracking against the Lean type checker (validates both)
            tline = model[K * i + 3]
            # the static statement (C01.strict_run_eq_reference) on real inputs: how many generated programs satisfy its
            # hypotheses (`typeInstr true`, literals), and — the theorem — none of them leaves the guard
            sline = model[K * i + 4]
            ctx.count('strict-typing', {'strict': 'strictly-typed', 'lax': 'typed-not-strictly'}.get(sline, sline))
            if sline == 'strict':
                ctx.count('strictly-typed-with', 'MAP' if '"MAP"' in text else ('lambda' if ('"LAMBDA"' in text or '"lambda"' in text) else 'neither'))
                if specg_m == ('err', 'offguard'):
                    ctx.mismatch('strict-guard', {'code': code, 'env': env}, 'inside the guard (strictly typed)', 'offguard')
            if st is None:      # edge stream: arguments outside the typing rule; only the mirror is compared
                ctx.count('edge-stream', 'ill-typed' if tline == 'ill-typed' else 'typed')
                if tline != 'ill-typed':
                    ctx.mismatch('typing', {'code': code}, 'ill-typed', tline)
            else:
                want = 'ok' + ''.join(' | ' + mich.to_line(gen_interp.ty_mich(t)) for t in st)
                if tline != want and tline != 'failed':
                    ctx.mismatch('typing', {'code': code}, want, tline)
            d = compare_outcomes(drop_fw(real), drop_fw(impl_m))
            if d:
                ctx.mismatch('impl-mirror', {'code': code, 'env': env}, f'{d}: {str(real)[:300]}', str(impl_m)[:300])
            if real[0] == 'failed' and impl_m[0] == 'failed':
                try:
                    want_repr = interp_run.py_repr(*impl_m[1])
                except interp_run.NoRepr:
                    want_repr = None
                if want_repr is not None and want_repr != real[1]:
                    ctx.mismatch('failwith-value', {'code': code, 'env': env}, real[1], want_repr)
            # ---- C02's property verbatim: runtime type of every final slot = the type the typing rules assign
            if prop == 'C02' and real[0] == 'ok' and tline.startswith('ok'):
                static = [mich.from_line(x) for x in tline.split(' | ')[1:]]
                got = [t for t, _ in real[1]]
                ctx.count('static-type-oracle', 'checked')
                if got != static:
                    key = ('MAP-over-empty-collection-with-type-changing-body' if specg_m == ('err', 'offguard')
                           else 'type-differs:' + mich.to_line(code)[:120])
                    ctx.violation(key, f'runtime types {got} but the typing rules assign {static}',
                                  {'code': code, 'env': env, 'runtime_types': got, 'static_types': static})
        # ---- property oracle: an independent reference.  With the Lean side available it is Spec.eval; the
        # implementation must compute what the reference prescribes whenever the reference is defined.
        if spec_m is not None and defined(spec_m):
            ctx.count('spec', 'runtime-failure' if spec_m[0] == 'err' else 'defined')
            d2 = compare_outcomes(drop_fw(real), drop_fw(spec_m))
            if d2 and (('types' in d2) == (prop == 'C02')):
                failing.append((size, len(failing), code, env, real, spec_m, specg_m, d2))
        elif spec_m is not None:
            ctx.count('spec', {'oof': 'out-of-fuel', 'stuck': 'stuck'}.get(spec_m[1], 'literal-rejected'))
            # progress (Interp.progress, proved): a program the Lean type checker accepts is never stuck
            if spec_m[1] == 'stuck' and st is not None and tline != 'ill-typed':
                ctx.mismatch('progress', {'code': code, 'env': env}, 'not stuck (well-typed: ' + tline[:80] + ')', 'stuck')
        if spec_m is None:
            # Lean side unavailable: fall back to the generator's statically tracked types as the oracle for C02
            if real[0] == 'ok' and prop == 'C02':
                got = [t for t, _ in real[1]]
                want = [gen_interp.ty_mich(t) for t in st]
                if got != want:
                    ctx.violation('type-differs:' + mich.to_line(code)[:120], f'runtime types {got} expected {want}', {'code': code, 'env': env})
            if real[0] == 'err' and prop == 'C01' and 'overflow' not in str(real[1]) and 'natural' not in str(real[1]):
                ctx.violation('wellTyped-program-errors:' + mich.to_line(code)[:120], f'well-typed program fails with {real[1]}', {'code': code, 'env': env})

    # ---- COMPARE on the comparable types the interpreter model does not order itself (key_hash, address, key, signature, chain_id and
    # composites over them): judged by the independent order of C03's generator (harness/gen_c03.py), no Lean model in this stream.
    # The interpreter property covers COMPARE on every comparable type; the order itself is proved in C03's model.
    if prop == 'C01':
        from harness import gen_c03 as G3
        dom = ['key_hash', 'address', 'key', 'signature', 'chain_id', ('pair', 'key_hash', 'nat'), ('option', 'key_hash'), ('or', 'key_hash', 'address')]
        worst = None
        for di in range(160 if ctx.tier == 'quick' else 4000):
            t = dom[di % len(dom)]
            a, b = G3.gen_pair(ctx.rng, t)
            code = [{'prim': 'PUSH', 'args': [G3.ty_expr(t), G3.to_micheline(b)]}, {'prim': 'PUSH', 'args': [G3.ty_expr(t), G3.to_micheline(a)]}, {'prim': 'COMPARE'}]
            real = interp_run.run_real(code, gen_env(ctx.rng))
            want = G3.tz_cmp(a, b)
            ctx.case({'stream': 'domain-compare', 'type': G3.ty_text(t), 'a': G3.to_text(a), 'b': G3.to_text(b)}, nontrivial=want != 0)
            ctx.count('domain-compare', t if isinstance(t, str) else t[0])
            got = int(real[1][0][1]['int']) if real[0] == 'ok' and real[1] and 'int' in real[1][0][1] else real[0]
            if got != want:
                size = len(G3.to_text(a)) + len(G3.to_text(b))
                if worst is None or size < worst[0]:
                    worst = (size, t, a, b, got, want)
        if worst is not None:
            _, t, a, b, got, want = worst
            ctx.violation(f'result-differs:COMPARE:{t if isinstance(t, str) else t[0]}',
                          f'PUSH {G3.ty_text(t)} {G3.to_text(b)} ; PUSH {G3.ty_text(t)} {G3.to_text(a)} ; COMPARE -> {got}, the Michelson order gives {want}',
                          {'type': G3.ty_text(t), 'a': G3.to_text(a), 'b': G3.to_text(b), 'got': got, 'expected': want})

    # ---- report: smallest failing programs first; the first few are minimised (each step re-runs both sides)
    for n, (size, _, code, env, real, spec_m, specg_m, d2) in enumerate(sorted(failing, key=lambda f: f[:2])):
        small, real_s, spec_s = (shrink(ctx, prop, code, env, real, spec_m) if n < 4 else (code, real, spec_m))
        if specg_m == ('err', 'offguard'):
            key = 'MAP-over-empty-collection-with-type-changing-body'
        elif real[0] == 'err' and prop == 'C01':
            # the reference defines a result, the instruction raises: keyed by the raising instruction and its message
            key = 'raises:' + raising(str(real[1]))[:100]
        else:
            key = ('type-differs:' if prop == 'C02' else 'result-differs:') + mich.to_line(small)[:120]
        ctx.violation(key, f'{d2}: program {show_code(small)} real {str(real_s)[:200]} reference {str(spec_s)[:200]}',
                      {'code': code, 'minimal': small, 'env': env, 'real': str(real), 'reference': str(spec_m)})


HASHES = ['blake2b', 'sha256', 'sha512', 'keccak', 'sha3']      # + 'hashkey': HASH_KEY's function on the keys the generator uses


def real_hash(algo, msg):
    """what the instruction classes of pytezos call"""
    import hashlib
    from pytezos.crypto.keccak import Keccak256
    from pytezos.crypto.key import blake2b_32
    if algo == 'blake2b':
        return blake2b_32(msg).digest()
    if algo == 'keccak':
        return Keccak256(msg).digest()
    if algo == 'hashkey':      # what HashKeyInstruction computes: text of the key -> text of its hash
        from pytezos.crypto.key import Key
        return Key.from_encoded_key(msg.decode()).public_key_hash().encode()
    return {'sha256': hashlib.sha256, 'sha512': hashlib.sha512, 'sha3': hashlib.sha3_256}[algo](msg).digest()


def hash_stream(rng, tier):
    """messages of every length around the block boundaries of the five functions, plus random ones"""
    lengths = [0, 1, 2, 3, 31, 32, 33, 55, 56, 57, 63, 64, 65, 111, 112, 113, 119, 120, 127, 128, 129, 135, 136, 137, 143, 144,
               255, 256, 257, 271, 272, 273, 300]
    lengths += [rng.randrange(0, 600) for _ in range(10 if tier == 'quick' else 200)]
    cases = []
    for n in lengths:
        kind = rng.randrange(3)
        msg = rng.bytes_(n) if kind else bytes([rng.choice([0, 0xff, 0x80])] * n)
        for algo in HASHES:
            cases.append((algo, msg))
    cases += [('hashkey', k.encode()) for k in gen_interp.KEYS]
    return cases


def raising(msg):
    """`DIP -> IF -> GET -> expected one of ['pair'], got int` -> `GET -> expected one of ['pair']` (the instruction that raises)"""
    parts = msg.split(' -> ')
    k = max([j for j, x in enumerate(parts[:-1]) if x.replace('_', '').isupper()] or [0])
    return re.sub(r", got \w+", '', ' -> '.join(parts[k:]))


def show_code(code):
    try:
        from pytezos.michelson.format import micheline_to_michelson
        return micheline_to_michelson(code, inline=True)[:400]
    except Exception:      # noqa: display only
        return json.dumps(code)[:400]


def deviates(ctx, prop, code, env):
    """(description, real, reference) if the real run of `code` deviates from a defined reference result, else None"""
    line = prog_line(code, env)
    out = ctx.model(['spec ' + line], driver=prop)
    if out is None:
        return None
    spec_m = parse_model(out[0])
    if not defined(spec_m):
        return None
    real = interp_run.run_real(code, env)
    d = compare_outcomes(drop_fw(real), drop_fw(spec_m))
    return (d, real, spec_m) if d and (('types' in d) == (prop == 'C02')) else None


def shrink(ctx, prop, code, env, real, spec_m):
    """shortest failing prefix of the top-level sequence, then greedy removal of single instructions (top level and inside
    the bodies of the last instruction); a candidate counts only if the reference still defines a result (so it is well-typed)"""
    best = (code, real, spec_m)
    if not isinstance(code, list):
        return best
    for k in range(1, len(code)):
        r = deviates(ctx, prop, code[:k], env)
        if r:
            best = (code[:k], r[1], r[2])
            break
    budget = 60
    changed = True
    while changed and budget > 0:
        changed = False
        cur = best[0]
        for j in range(len(cur) - 1):
            budget -= 1
            cand = cur[:j] + cur[j + 1:]
            r = deviates(ctx, prop, cand, env)
            if r:
                best = (cand, r[1], r[2])
                changed = True
                break
    return best


def edge_programs(g, rng, tier):
    """arguments at and beyond the edges of the typing rules (`PAIR 0/1`, `UNPAIR n` / `GET n` / `UPDATE n` past the end
    of the comb, on non-pairs): ill-typed, so only the mirror's literal behaviour is compared with the real code"""
    P = lambda prim, *args: {'prim': prim, 'args': list(args)} if args else {'prim': prim}
    I = lambda n: {'int': str(n)}
    progs = []
    shapes = [[('int',), ('nat',)], [('int',), ('nat',), ('string',)], [('pair', ('int',), ('unit',)), ('nat',), ('bool',), ('bytes',)]]
    for leaves in shapes:
        t = gen_interp.comb_of(leaves)
        k = len(leaves)
        push = lambda: P('PUSH', gen_interp.ty_mich(t), g.gen_value(t, depth=3))
        for n in list(range(k + 1, k + 3)) + [0, 1]:
            progs.append(([push(), P('UNPAIR', I(n))], None))
        for n in range(2 * k - 1, 2 * k + 3):
            progs.append(([push(), P('GET', I(n))], None))
            progs.append(([push(), P('PUSH', P('string'), {'string': 'e'}), P('UPDATE', I(n))], None))
            progs.append(([push(), push(), P('UPDATE', I(n))], None))
        for n in (0, 1, 3, 4):
            progs.append(([push(), P('UNIT'), P('PAIR', I(n))], None))
    # ill-formed set / map literals (unsorted, duplicate keys): rejected by PUSH on the real side, not well-typed on the Lean side
    S = lambda x: {'string': x}
    for ty, lit in [(P('set', P('int')), [I(2), I(1)]), (P('set', P('int')), [I(1), I(1)]), (P('set', P('nat')), [I(0), I(5), I(3)]),
                    (P('set', P('string')), [S('b'), S('a')]), (P('set', P('string')), [S('a'), S('a')]), (P('set', P('bytes')), [{'bytes': '01'}, {'bytes': '00ff'}]),
                    (P('set', P('bool')), [P('True'), P('False')]), (P('set', P('mutez')), [I(7), I(7)]),
                    (P('map', P('int'), P('unit')), [P('Elt', I(2), P('Unit')), P('Elt', I(1), P('Unit'))]),
                    (P('map', P('string'), P('nat')), [P('Elt', S('a'), I(1)), P('Elt', S('a'), I(2))]),
                    (P('map', P('nat'), P('nat')), [P('Elt', I(1), I(1)), P('Elt', I(3), I(2)), P('Elt', I(2), I(2))]),
                    (P('list', P('set', P('int'))), [[I(1), I(2)], [I(2), I(1)]]),
                    (P('pair', P('unit'), P('set', P('timestamp'))), P('Pair', P('Unit'), [I(5), I(-5)]))]:
        progs.append(([P('PUSH', ty, lit)], None))
        progs.append(([P('UNIT'), P('PUSH', ty, lit), P('DROP')], None))
    for n in (1, 2, 3):
        progs.append(([P('UNIT'), P('GET', I(n))], None))
        progs.append(([P('UNIT'), P('UNIT'), P('UPDATE', I(n))], None))
        progs.append(([P('UNIT'), P('UNPAIR', I(n + 1))], None))
    return [(code, st, gen_env(rng)) for code, st in progs if gen_interp.well_typed_edge(code) is False]


def boundary_programs(rng):
    """well-typed programs exactly at and just beyond the bounds where Michelson defines a *runtime failure* (the reference
    outcome `rtfail`): 63-bit mutez results of ADD / MUL / SUB / SUB_MUTEZ / EDIV, shifts by 256 / 257 bits — run in every tier"""
    P = lambda prim, *args: {'prim': prim, 'args': list(args)} if args else {'prim': prim}
    I = lambda n: {'int': str(n)}
    tz = lambda n: P('PUSH', P('mutez'), I(n))
    nat = lambda n: P('PUSH', P('nat'), I(n))
    M = 2 ** 63
    progs = []
    for a, b in [(M - 1, 0), (M - 2, 1), (M - 1, 1), (M // 2, M // 2), (M // 2, M // 2 - 1), (M - 1, M - 1), (1, 0)]:
        progs.append(([tz(a), tz(b), P('ADD')], [('mutez',)]))
        progs.append(([tz(b), tz(a), P('SUB')], [('mutez',)]))           # a - b
        progs.append(([tz(a), tz(b), P('SUB')], [('mutez',)]))           # b - a: underflow unless equal
        progs.append(([tz(a), tz(b), P('SUB_MUTEZ')], [('option', ('mutez',))]))
    for a, n in [(M - 1, 1), (M // 2, 2), (M // 2 - 1, 2), (M // 2, 1), (1, M), (1, M - 1), (M - 1, 2), (0, 2 ** 70), (3, (M - 1) // 3), (3, (M - 1) // 3 + 1)]:
        progs.append(([nat(n), tz(a), P('MUL')], [('mutez',)]))
        progs.append(([tz(a), nat(n), P('MUL')], [('mutez',)]))
    for a, n in [(M - 1, 1), (M - 1, M - 1), (M - 1, 0), (7, 2)]:
        progs.append(([nat(n), tz(a), P('EDIV')], [('option', ('pair', ('mutez',), ('mutez',)))]))
        progs.append(([tz(n), tz(a), P('EDIV')], [('option', ('pair', ('nat',), ('mutez',)))]))
    for x in (0, 1, 2 ** 200 + 5):
        for n in (0, 1, 255, 256, 257, 258, 1000):
            progs.append(([nat(n), nat(x), P('LSL')], [('nat',)]))
            progs.append(([nat(n), nat(x), P('LSR')], [('nat',)]))
    # corpus: the recorded open finding (MAP over an empty collection keeps the source type) — run first in every tier, so that the
    # KNOWN-FINDING line does not depend on the seed
    progs.append(([P('NIL', P('timestamp')), P('MAP', [P('DROP'), P('PUSH', P('int'), I(0))]), P('PUSH', P('int'), I(1)), P('CONS')], [('list', ('int',))]))
    progs.append(([P('EMPTY_MAP', P('int'), P('nat')), P('MAP', [P('DROP'), P('PUSH', P('string'), {'string': ''})])], [('map', ('int',), ('string',))]))
    return [(code, st, gen_env(rng)) for code, st in progs]


def packability_stream(ctx):
    """outside the interpreter model (its PACK covers the plain value classes): a lambda is packable whatever its signature
    mentions (operation, big_map, ticket, sapling_state, contract) — PACK / UNPACK / FAILWITH of such lambdas against bytes written
    by hand from the binary Micheline format (`{ FAILWITH }` = 02 00000002 03 27), alone and inside pair / option / list"""
    P = lambda prim, *args: {'prim': prim, 'args': list(args)} if args else {'prim': prim}
    nat = P('nat')
    sigs = [(nat, nat), (P('unit'), P('list', P('operation'))), (P('big_map', nat, nat), nat), (P('ticket', nat), P('unit')),
            (P('pair', nat, P('sapling_state', {'int': '8'})), P('operation')), (P('contract', nat), P('option', P('big_map', P('string'), P('bytes')))),
            (P('lambda', P('operation'), P('unit')), P('lambda', P('unit'), P('ticket', P('string'))))]
    body, lam = [P('FAILWITH')], '0200000002' + '0327'
    env = gen_env(ctx.rng)
    for a, b in sigs:
        L = P('LAMBDA', a, b, body)
        lt = P('lambda', a, b)
        for name, code, want in [
                ('PACK', [L, P('PACK')], ('bytes', '05' + lam)),
                ('PACK in pair', [L, P('PUSH', nat, {'int': '1'}), P('PAIR'), P('PACK')], ('bytes', '0507070001' + lam)),
                ('PACK in option', [L, P('SOME'), P('PACK')], ('bytes', '050509' + lam)),
                ('PACK in list', [P('NIL', lt), L, P('CONS'), P('PACK')], ('bytes', '05020000000' + '7' + lam)),
                ('FAILWITH', [L, P('FAILWITH')], ('failed',)),
                ('UNPACK', [P('PUSH', P('bytes'), {'bytes': '05' + lam}), P('UNPACK', lt), P('IF_NONE', [P('PUSH', P('string'), {'string': 'none'}), P('FAILWITH')], [P('PACK')])],
                 ('bytes', '05' + lam))]:
            ctx.count('lambda-packability', name)
            real = interp_run.run_real(code, env)
            if want[0] == 'bytes':
                ok = real[0] == 'ok' and len(real[1]) == 1 and real[1][0][1] == {'bytes': want[1]}
                wanted = 'one bytes value 0x' + want[1]
            else:
                ok = real[0] == 'failed'
                wanted = 'FAILWITH with the lambda'
            if not ok:
                ctx.violation('lambda-packability:' + name, f'{mich.to_line(code)} must give {wanted} (a lambda is packable whatever its signature); the interpreter gives {str(real)[:200]}',
                              {'code': code, 'env': env, 'real': str(real)[:400]})


# ---- the type classes the instructions' typing rules consult, against the Michelson reference table ------------------------------
REF_LEAVES = ['unit', 'never', 'bool', 'int', 'nat', 'string', 'chain_id', 'bytes', 'mutez', 'key_hash', 'key', 'signature', 'timestamp', 'address',
              'bls12_381_fr', 'bls12_381_g1', 'bls12_381_g2', 'operation', 'chest', 'chest_key']
REF_COMPARABLE_LEAVES = REF_LEAVES[:14]
# class -> the type constructors that are outside it (anywhere in the type, except inside a lambda's signature)
REF_EXCLUDED = {'pushable': {'operation', 'big_map', 'contract', 'ticket', 'sapling_state'}, 'packable': {'operation', 'big_map', 'ticket', 'sapling_state'},
                'duplicable': {'ticket'}, 'big_map_friendly': {'operation', 'big_map', 'sapling_state'},
                'storable': {'operation', 'contract'}, 'passable': {'operation'}}


def ref_in_class(t, cls):
    p, args = t['prim'], [a for a in t.get('args', []) if 'prim' in a]
    if cls == 'comparable':
        if p in ('option', 'or', 'pair'):
            return all(ref_in_class(a, cls) for a in args)
        return p in REF_COMPARABLE_LEAVES
    if p in REF_EXCLUDED[cls]:
        return False
    if p == 'lambda':
        return True
    return all(ref_in_class(a, cls) for a in args)


def gen_any_type(rng, depth):
    P = lambda prim, *args: {'prim': prim, 'args': list(args)} if args else {'prim': prim}
    k = rng.randrange(16) if depth > 0 else 0
    sub = lambda: gen_any_type(rng, depth - 1)

    def cmp_(d):
        j = rng.randrange(6) if d > 0 else 0
        if j == 3:
            return P('pair', cmp_(d - 1), cmp_(d - 1))
        if j == 4:
            return P('option', cmp_(d - 1))
        if j == 5:
            return P('or', cmp_(d - 1), cmp_(d - 1))
        return P(rng.choice(REF_COMPARABLE_LEAVES))
    if k <= 2:
        return P(rng.choice(REF_LEAVES))
    if k <= 4:
        return P('pair', *[sub() for _ in range(rng.choice([2, 2, 3]))])
    if k == 5:
        return P('or', sub(), sub())
    if k == 6:
        return P('option', sub())
    if k == 7:
        return P('list', sub())
    if k == 8:
        return P('set', cmp_(depth - 1))
    if k == 9:
        return P('map', cmp_(depth - 1), sub())
    if k == 10:
        return P('big_map', cmp_(depth - 1), sub())
    if k in (11, 12):
        return P('lambda', sub(), sub())
    if k == 13:
        return P('contract', sub())
    if k == 14:
        return P('ticket', cmp_(depth - 1))
    return P('sapling_state', {'int': str(rng.choice([8, 16]))})


def type_class_stream(ctx):
    """`MichelsonType.is_comparable / is_pushable / is_packable / is_duplicable / is_big_map_friendly / is_storable / is_passable` decide
    whether COMPARE, PUSH, PACK / UNPACK / FAILWITH, DUP, EMPTY_BIG_MAP / big_map updates, storage and parameter declarations accept
    a type.  Direction checked: a type the Michelson reference puts IN the class must be accepted (otherwise a well-typed program
    fails); types pytezos accepts beyond the reference table are counted, not reported (ill-typed programs are outside C01)."""
    from pytezos.michelson.types.base import MichelsonType
    n = 700 if ctx.tier == 'quick' else 12000
    for i in range(n):
        t = gen_any_type(ctx.rng, ctx.rng.choice([1, 2, 2, 3, 3, 4]))
        try:
            cls_ = MichelsonType.match(t)
        except Exception as e:      # e.g. nested big_map the type constructor itself refuses: not a class question
            ctx.count('type-class', f'type refused:{type(e).__name__}')
            continue
        for c in ['comparable', 'pushable', 'packable', 'duplicable', 'big_map_friendly', 'storable', 'passable']:
            want = ref_in_class(t, c)
            try:
                got = bool(getattr(cls_, 'is_' + c)())
            except Exception as e:
                got = f'raises {type(e).__name__}: {e}'
            ctx.count('type-class', f'{c}: reference {"in" if want else "out"}, pytezos {"in" if got is True else ("out" if got is False else "raises")}')
            if want and got is not True:
                ctx.violation('type-class:' + c, f'the type {mich.type_text(t) if hasattr(mich, "type_text") else json.dumps(t)} is {c} in Michelson, pytezos says {got}: '
                              f'a well-typed program using it with the instruction that asks for this class fails', {'type': t, 'class': c, 'got': str(got)})


def instrs_in(code):
    """instruction forms occurring in a program; the forms that share a prim are told apart by their arguments"""
    out = set()

    def walk(x):
        if isinstance(x, list):
            for y in x:
                walk(y)
        elif isinstance(x, dict) and 'prim' in x:
            prim, args = x['prim'], x.get('args', [])
            if prim == 'PUSH':
                out.add('PUSH')
                return
            if prim.isupper() or prim.replace('_', '').isupper():
                if prim in ('PAIR', 'UNPAIR', 'GET', 'UPDATE', 'DUP', 'DROP', 'DIP') and args and isinstance(args[0], dict) and 'int' in args[0]:
                    out.add(prim + ' n')
                else:
                    out.add(prim)
            for y in args:
                walk(y)
    walk(code)
    return out


def map_key_kinds(code):
    """outermost prim of the key type of every `map k v` type expression in the code"""
    out = []

    def walk(x):
        if isinstance(x, list):
            for y in x:
                walk(y)
        elif isinstance(x, dict):
            if x.get('prim') in ('map', 'EMPTY_MAP') and len(x.get('args', [])) == 2:
                out.append(x['args'][0]['prim'])
            for y in x.get('args', []):
                walk(y)
    walk(code)
    return out


KEY_TYPES = [('int',), ('string',), ('pair', ('int',), ('int',)), ('pair', ('string',), ('nat',)), ('pair', ('pair', ('int',), ('bytes',)), ('nat',)),
             ('pair', ('int',), ('pair', ('nat',), ('string',))), ('option', ('int',)), ('or', ('nat',), ('string',)),
             ('pair', ('option', ('nat',)), ('or', ('int',), ('bytes',)))]
ELT_TYPES = [('int',), ('string',), ('pair', ('int',), ('nat',)), ('option', ('nat',)), ('list', ('int',)), ('or', ('unit',), ('bytes',))]


def collection_programs(g, rng, reps):
    """the mechanism the property is anchored in: MAP / ITER over maps and lists of every key and element shape
    (composite keys included), with bodies that keep, swap, replace or rebuild the element"""
    P = lambda prim, *args: {'prim': prim, 'args': list(args)} if args else {'prim': prim}
    progs = []
    for _ in range(reps):
        for kt in KEY_TYPES:
            for vt in ELT_TYPES:
                mt = ('map', kt, vt)
                bodies = [
                    ([P('CDR')], vt),
                    ([P('CAR')], kt),
                    ([P('DUP'), P('CDR'), P('SWAP'), P('CAR'), P('PAIR')], ('pair', kt, vt)),
                    ([P('UNPAIR'), P('SOME'), P('PAIR')], ('pair', ('option', kt), vt)),
                    ([P('DROP'), g.push(('nat',))], ('nat',)),
                    ([P('CDR'), P('LEFT', gen_interp.ty_mich(kt))], ('or', vt, kt)),
                ]
                for body, out in bodies:
                    val = g.gen_value(mt)
                    while not val and rng.random() < 0.9:
                        val = g.gen_value(mt)
                    code = [P('PUSH', gen_interp.ty_mich(mt), val), P('MAP', body)]
                    st = [('map', kt, out)]
                    r0 = rng.random()
                    if r0 < 0.25:
                        # the source map stays alive next to the result (DUP before MAP): a value is typed by its own class, transforming
                        # one copy must not retype the other (pytezos builds type classes at run time and shares their `args` lists)
                        code = [P('PUSH', gen_interp.ty_mich(mt), val), P('DUP'), P('MAP', body)]
                        st = [('map', kt, out), mt]
                        if rng.random() < 0.5:      # … and the untouched copy is still usable at its own type
                            code += [P('SWAP'), P('MAP', [P('CDR')]), P('SWAP')]
                            st = [('map', kt, out), ('map', kt, vt)]
                        progs.append((code, st, gen_env(rng)))
                        continue
                    if rng.random() < 0.3:      # the result must still be usable as a map of the new type
                        code += [P('DUP'), P('SIZE'), P('SWAP'), P('ITER', [P('DROP')])]
                        st = [('nat',)]
                    elif rng.random() < 0.3:
                        code += [P('EMPTY_MAP', gen_interp.ty_mich(kt), gen_interp.ty_mich(out)), P('PAIR')]
                        st = [('pair', ('map', kt, out), ('map', kt, out))]
                    progs.append((code, st, gen_env(rng)))
        for vt in ELT_TYPES + KEY_TYPES[2:]:
            lt = ('list', vt)
            for body, out in [([P('SOME')], ('option', vt)), ([P('DUP'), P('PAIR')], ('pair', vt, vt)), ([P('DROP'), P('UNIT')], ('unit',)), ([], vt)]:
                val = g.gen_value(lt)
                progs.append(([P('PUSH', gen_interp.ty_mich(lt), val), P('MAP', body)], [('list', out)], gen_env(rng)))
    # bodies that change the TYPE of the element and keep its value (INT on nats, ABS on non-negative ints, the same inside a pair):
    # the result is a collection of the new type although every new element compares equal to the old one
    I = lambda n: {'int': str(n)}
    for _ in range(reps):
        ns = sorted({rng.choice([0, 1, 2, 7, 2 ** 64]) for _ in range(rng.choice([1, 2, 3]))})
        L = lambda t: P('PUSH', P('list', P(t)), [I(n) for n in ns])
        M = lambda t: P('PUSH', P('map', P('nat'), P(t)), [P('Elt', I(i), I(n)) for i, n in enumerate(ns)])
        use_int = [P('MAP', [P('NEG')])]      # only an int can be negated into an int … the result has to BE a list of int
        progs.append(([L('nat'), P('MAP', [P('INT')])], [('list', ('int',))], gen_env(rng)))
        progs.append(([L('nat'), P('MAP', [P('INT')])] + use_int, [('list', ('int',))], gen_env(rng)))
        progs.append(([L('int'), P('MAP', [P('ABS')])], [('list', ('nat',))], gen_env(rng)))
        progs.append(([L('nat'), P('DUP'), P('MAP', [P('INT')])], [('list', ('int',)), ('list', ('nat',))], gen_env(rng)))
        progs.append(([M('nat'), P('MAP', [P('CDR'), P('INT')])], [('map', ('nat',), ('int',))], gen_env(rng)))
        progs.append(([M('int'), P('MAP', [P('CDR'), P('ABS')])], [('map', ('nat',), ('nat',))], gen_env(rng)))
        progs.append(([M('nat'), P('MAP', [P('CDR'), P('INT')]), P('MAP', [P('CDR'), P('NEG')])], [('map', ('nat',), ('int',))], gen_env(rng)))
        progs.append(([P('PUSH', P('list', P('pair', P('nat'), P('nat'))), [P('Pair', I(n), I(n)) for n in ns]), P('MAP', [P('UNPAIR'), P('INT'), P('PAIR')])],
                      [('list', ('pair', ('int',), ('nat',)))], gen_env(rng)))
    # comb twins: the same leaf types in the same order under different nestings (a, b, c, d / (a, b), c, d / a, (b, c), d), built at run
    # time by PAIR n one after the other in one process — the type of a comb is a function of its items, not of their flattening
    leaf_ts = [('int',), ('nat',), ('string',), ('bool',), ('bytes',), ('mutez',)]
    for _ in range(6 * reps):
        n = rng.choice([3, 4, 4, 5])
        ts = [rng.choice(leaf_ts) for _ in range(n)]
        pushes = [P('PUSH', gen_interp.ty_mich(t), g.gen_value(t, depth=0)) for t in reversed(ts)]     # first leaf ends on top

        def comb_ty(items):
            t = items[-1]
            for x in reversed(items[:-1]):
                t = ('pair', x, t)
            return t
        flat = (pushes + [P('PAIR', {'int': str(n)})], [comb_ty(ts)])
        k = rng.randrange(0, n - 2)                  # pair up leaves k, k+1 first (a non-last position), then comb the rest
        inner = ('pair', ts[k], ts[k + 1])
        code = list(pushes)
        if k:
            code.append(P('DIP', {'int': str(k)}, [P('PAIR')]))
        else:
            code.append(P('PAIR'))
        code.append(P('PAIR', {'int': str(n - 1)}))
        nested = (code, [comb_ty(ts[:k] + [inner] + ts[k + 2:])])
        for a, b in ((flat, nested), (nested, flat)) if rng.random() < 0.5 else ((nested, flat),):
            progs.append((a[0], a[1], gen_env(rng)))
            progs.append((b[0], b[1], gen_env(rng)))
    return progs


def drop_fw(r):
    return ('failed', None) if r[0] == 'failed' else r
