"""C28 — multi-node rotation.  Real RpcMultiNode with each node's `request` stubbed to succeed or raise;
observable = index of the node each request was sent to."""
import itertools

from translator import extract

PROP = 'C28'


FAILURE_KINDS = ('RpcError', 'ConnectionError', 'ReadTimeout', 'RuntimeError')


FORMS = ("request('GET', p)", "request('GET', p, stream=True)", "request('POST', p, json={}, timeout=3)", "get(p)", "post(p, json={'a': 1})",
         "get(p, params={'a': 1}, timeout=1)", "request('GET', 'monitor/heads/main', stream=True, timeout=None)", "put(p)", "delete(p)",
         "request('GET', p, stream=False)")


class _Resp:
    status_code = 200
    text = '"ok"'

    def json(self):
        return 'ok'

    def iter_lines(self):
        return iter(())


def _issue(cli, form):
    p = 'x'
    if form == 0:
        return cli.request('GET', p)
    if form == 1:
        return cli.request('GET', p, stream=True)
    if form == 2:
        return cli.request('POST', p, json={}, timeout=3)
    if form == 3:
        return cli.get(p)
    if form == 4:
        return cli.post(p, json={'a': 1})
    if form == 5:
        return cli.get(p, params={'a': 1}, timeout=1)
    if form == 6:
        return cli.request('GET', 'monitor/heads/main', stream=True, timeout=None)
    if form == 7:
        return cli.put(p)
    if form == 8:
        return cli.delete(p)
    return cli.request('GET', p, stream=False)


def impl_nodes_used(n, outcomes, kinds=None, mutate=None, forms=None, twins=None):
    """outcomes: 1 = the node answers, 0 = the request fails; kinds (same length, optional): which exception a failing request
    raises — the property says "regardless of failures", so the way a request fails must not matter"""
    import requests
    from pytezos.rpc.node import RpcError, RpcMultiNode

    excs = [lambda: RpcError('boom'), lambda: requests.exceptions.ConnectionError('refused'), lambda: requests.exceptions.ReadTimeout('slow'),
            lambda: RuntimeError('bug')]

    uris = [f'http://node{i}' for i in range(n)]      # the caller's own list (for a `.pool` shell: a module-level list)
    for a, b in twins or []:                           # the same address listed twice (weighting a node): still n positions to rotate over
        uris[b] = uris[a]
    cli = RpcMultiNode(uris)
    used = []
    it = iter(zip(outcomes, kinds or [0] * len(outcomes)))

    def mk(i):
        def request(method, path, **kwargs):
            used.append(i)
            ok, kind = next(it)
            if ok:
                return _Resp()
            raise excs[kind]()
        return request

    for i, node in enumerate(cli.nodes):
        node.request = mk(i)
    for step, _ in enumerate(outcomes):
        if mutate is not None and step == mutate[0]:
            # the caller goes on using its list: the client's nodes were fixed when it was built
            if mutate[1] > 0:
                uris.append('http://later')
            elif len(uris) > 1:
                uris.pop()
        try:
            _issue(cli, forms[step] if forms else 0)
        except Exception:
            pass
    return used


def run(ctx):
    ctx.prepare_lean(extract.generate(PROP))
    ctx.extra['rule'] = ('node counts 1..4 x success/error sequences (exhaustive up to a length, then random longer ones; histories of 255..1025 requests (thorough: ..65537) for 1..5 and 7 nodes); failing requests raise RpcError, '
                         'requests ConnectionError / ReadTimeout or RuntimeError (drawn per request in two thirds of the cases); half of the cases issue requests through get/post/put/delete and with stream= / timeout= / params= / json= keywords; '
                         'non-trivial = contains at least one error and n >= 2')
    max_len = 7 if ctx.tier == 'quick' else 11
    cases = []
    for n in range(1, 5):
        for ln in range(0, max_len + 1):
            for os_ in itertools.product((1, 0), repeat=ln):
                cases.append((n, list(os_)))
    for _ in range(300 if ctx.tier == 'quick' else 5000):
        n = ctx.rng.randrange(1, 5)
        ln = ctx.rng.randrange(max_len + 1, 60)
        p = ctx.rng.random()
        cases.append((n, [1 if ctx.rng.random() < p else 0 for _ in range(ln)]))
    # long-lived clients: histories around the counter widths a rotation cursor might be kept in (8 / 9 / 10 / 16 bits), node counts
    # that do and do not divide 2^k
    for n in (1, 2, 3, 4, 5, 7):
        for ln in ([255, 256, 257, 258, 513, 1025] if ctx.tier == 'quick' else [255, 256, 257, 258, 511, 513, 1023, 1025, 4097, 65537]):
            p = ctx.rng.choice([1.0, 0.9, 0.5])
            cases.append((n, [1 if ctx.rng.random() < p else 0 for _ in range(ln)]))
    ctx.extra['exhaustive_upto_len'] = max_len
    lines = [' '.join(map(str, [n, *os_])) for n, os_ in cases]
    model = ctx.model(lines)
    for idx, (n, os_) in enumerate(cases):
        # the failure kind of every failing request: all RpcError for every third case, otherwise drawn per request
        kinds = [0] * len(os_) if idx % 3 == 0 else [ctx.rng.randrange(len(FAILURE_KINDS)) for _ in os_]
        mutate = (ctx.rng.randrange(0, len(os_)), ctx.rng.choice([1, -1])) if (idx % 5 == 2 and os_) else None
        # how each request is issued: plain request() for half of the cases, otherwise drawn per request from the public verbs and the
        # keyword arguments callers pass through (stream=True is what the /monitor wrappers use)
        forms = None if idx % 2 == 0 else [ctx.rng.randrange(len(FORMS)) if ctx.rng.random() < 0.6 else 0 for _ in os_]
        # every seventh case with n >= 2: one address is listed at two (or three) positions of the pool
        twins = None
        if idx % 7 == 4 and n >= 2:
            a = ctx.rng.randrange(n - 1)
            twins = [(a, b) for b in ctx.rng.sample(range(a + 1, n), ctx.rng.choice([1, 1, 2]) if n - a - 1 >= 2 else 1)]
            ctx.count('pool_with_repeated_address', f'n={n}')
        used = impl_nodes_used(n, os_, kinds, mutate, forms, twins)
        for f in forms or []:
            ctx.count('request_form', FORMS[f])
        if mutate:
            ctx.count('uri_list_mutated_after_construction', 'grown' if mutate[1] > 0 else 'shrunk')
        ctx.case({'n': n, 'outcomes': os_, 'failure_kinds': [FAILURE_KINDS[k] for o, k in zip(os_, kinds) if not o]}, nontrivial=(0 in os_ and n >= 2))
        for o, k in zip(os_, kinds):
            if not o:
                ctx.count('failure_kind', FAILURE_KINDS[k])
        ctx.count('n', n)
        ctx.count('length', len(os_) if len(os_) <= max_len else ('<60' if len(os_) < 60 else '>=255'))
        ctx.count('errors', min(os_.count(0), 5))
        want = [i % n for i in range(len(os_))]
        if used != want:
            # shrink: the shortest prefix that already deviates
            k = next((i for i, (a, b) in enumerate(zip(used, want)) if a != b), min(len(used), len(want))) + 1     # (a request that reached no node at all: lists differ in length)
            first_err = os_.index(0) if 0 in os_[:k] else -1
            key = 'rotation-sticks-after-error' if first_err >= 0 and used[:first_err + 1] == want[:first_err + 1] else f'n={n} outcomes={os_[:k]}'
            fk = [FAILURE_KINDS[kk] if not o else 'ok' for o, kk in zip(os_[:k], kinds[:k])]
            if any(kk for o, kk in zip(os_[:k], kinds[:k]) if not o):
                key += ' failures=' + ','.join(fk)
            if forms and any(forms[:k]):
                # which form matters?  replay the prefix with one non-plain form at a time
                culprit = None
                for f in sorted(set(forms[:k]) - {0}):
                    only = [x if x == f else 0 for x in forms[:k]]
                    if impl_nodes_used(n, os_[:k], kinds[:k], None, only) != want[:k]:
                        culprit = f
                        break
                if culprit is not None and impl_nodes_used(n, os_[:k], kinds[:k], None, None) == want[:k]:
                    key = f'rotation-depends-on-request-form: {FORMS[culprit]}'
                else:
                    key += ' forms=' + ','.join(str(x) for x in forms[:k])
            if twins:
                key += ' repeated-address-at-positions=' + ','.join(f'{a}={b}' for a, b in twins)
            if mutate and mutate[0] < k:
                key += f" caller's-uri-list-{'grown' if mutate[1] > 0 else 'shrunk'}-before-request-{mutate[0]}" 
            how = f' issued as {[FORMS[x] for x in forms[:k]]}' if forms and any(forms[:k]) else ''
            ctx.violation(key, f'n={n} outcomes={fk}{how}: nodes used {used[:k]} expected {want[:k]}',
                          {'n': n, 'outcomes': os_[:k], 'failure_kinds': fk, 'forms': [FORMS[x] for x in (forms or [])[:k]], 'twins': twins, 'used': used[:k], 'expected': want[:k]})
        if model is not None:
            got = ' '.join(map(str, used))
            if got != model[idx]:
                ctx.mismatch('nodes-used', {'n': n, 'outcomes': os_}, got, model[idx])
