"""C26 — retry of transient node failures.

The real `RpcNode.request` runs against a stubbed `requests.request` (module attribute of `pytezos.rpc.node`) that
hands out real `requests.Response` objects from a scripted sequence, and a stubbed `sleep` that records its argument.
Observables: number of HTTP requests, the sleep sequence (exact milliseconds), returned object / raised exception
class, and which response's payload ended up in the result (every response of a sequence carries a position tag).

Three things are compared per sequence: the real code, the Lean mirror (`Impl.Retry.request`, via Driver/C26) and the
property oracle `spec_*` below — an independent Python restatement of the property, not of the code."""
import itertools
import json

from translator import extract

PROP = 'C26'

MARK = 'prevalidator.ml'
JSON_CT = 'application/json'


# ---- alphabet ---------------------------------------------------------------------------------------------------
# symbol = (name, status, content-type header or None, payload, domain)
#   payload: ('json', builder(tag) -> python value)  text = json.dumps(value)
#            ('raw', builder(tag) -> str)             text that is not JSON
#   domain:  'full'   in the alphabet of the property: retry decision and error class are judged by the oracle
#            'retry'  retry decision judged; the exception class of a final such response is not (malformed error list)
#            'none'   outside the property's domain (correspondence with the model only)
def E(id_, kind, tag, msg=''):
    d = {}
    if id_ is not None:
        d['id'] = id_
    if kind is not None:
        d['kind'] = kind
    d['msg'] = f'{msg}#{tag}'
    return d


ALPHABET = [
    ('ok', 200, JSON_CT, ('json', lambda t: {'hash': t}), 'full'),
    ('ok-list-marker', 200, JSON_CT, ('json', lambda t: [E('node.x', 'temporary', t, MARK)]), 'full'),
    ('tmp', 500, JSON_CT, ('json', lambda t: [E('node.mempool.x', 'temporary', t)]), 'full'),
    ('tmp-mixed-503', 503, JSON_CT, ('json', lambda t: [E('a.b', 'permanent', t), E('c.d', 'temporary', t)]), 'full'),
    ('tmp-protolike', 500, JSON_CT, ('json', lambda t: [E('protocol.x', 'temporary', t), E('proto', 'branch', t)]), 'full'),
    ('perm', 500, JSON_CT, ('json', lambda t: [E('node.x', 'permanent', t)]), 'full'),
    ('kind-case', 500, JSON_CT, ('json', lambda t: [E('node.x', 'Temporary', t)]), 'full'),
    ('proto-tmp', 500, JSON_CT, ('json', lambda t: [E('proto.alpha.michelson_v1.runtime_error', 'temporary', t)]), 'full'),
    ('mixed-proto', 500, JSON_CT, ('json', lambda t: [E('failure', 'temporary', t), E('proto.alpha.tez.subtraction_underflow', 'temporary', t)]), 'full'),
    ('proto-first', 502, JSON_CT, ('json', lambda t: [E('proto.alpha.gas_exhausted.operation', 'temporary', t), E('failure', 'temporary', t)]), 'full'),
    # protocol errors under the names protocols really have (digits, a hyphen, mixed case), not only `alpha`
    ('proto-real-tmp', 500, JSON_CT, ('json', lambda t: [E('proto.021-PsQuebec.michelson_v1.runtime_error', 'temporary', t)]), 'full'),
    ('mixed-proto-real', 500, JSON_CT, ('json', lambda t: [E('failure', 'temporary', t), E('proto.016-PtMumbai.tez.subtraction_underflow', 'temporary', t)]), 'full'),
    ('proto-real-first', 503, JSON_CT, ('json', lambda t: [E('proto.019-PtParisB.gas_exhausted.operation', 'temporary', t), E('failure', 'temporary', t)]), 'full'),
    ('proto-genesis-tmp', 500, JSON_CT, ('json', lambda t: [E('proto.genesis.x', 'temporary', t)]), 'full'),
    ('proto-marker', 500, JSON_CT, ('json', lambda t: [E('proto.alpha.x.y', 'permanent', t, 'Assert_failure ' + MARK)]), 'full'),
    ('perm-marker', 500, JSON_CT, ('json', lambda t: [E('failure', 'permanent', t, 'Assert_failure src/' + MARK + ':1918')]), 'full'),
    ('nonstr-kind', 500, JSON_CT, ('json', lambda t: [E('node.x', 7, t)]), 'full'),
    ('empty-list', 500, JSON_CT, ('json', lambda t: []), 'full'),
    ('invalid-json', 500, JSON_CT, ('raw', lambda t: f'Internal error #{t}'), 'full'),
    ('invalid-json-marker', 500, JSON_CT, ('raw', lambda t: f'Assert_failure {MARK}:1918 #{t}'), 'full'),
    ('text-marker', 500, 'text/plain', ('raw', lambda t: f'Assert_failure src/lib_shell/{MARK}:1918:11 #{t}'), 'full'),
    # the same failure reported at the END of a long body (a backtrace / a proxy's error page in front of it): where in the body it stands
    # does not matter
    ('text-marker-late', 500, 'text/plain', ('raw', lambda t: 'Raised at Lwt.Miscellaneous.poll in file "src/core/lwt.ml", line 3077\n' * 9 + f'Assert_failure src/lib_shell/{MARK}:1918:11 #{t}'), 'full'),
    ('text-marker-very-late', 502, 'text/html', ('raw', lambda t: '<html><body><h1>502</h1><pre>' + 'upstream said: ' * 40 + f'{MARK} #{t}</pre></body></html>'), 'full'),
    ('text', 502, 'text/html', ('raw', lambda t: f'<html>Bad gateway #{t}</html>'), 'full'),
    ('text-noct', 500, None, ('raw', lambda t: f'oops #{t}'), 'full'),
    ('jsonlike-text', 500, 'text/plain', ('json', lambda t: [E('node.x', 'temporary', t)]), 'full'),
    ('unauthorized', 401, 'text/plain', ('raw', lambda t: f'no #{t}'), 'full'),
    ('unauthorized-tmp', 401, JSON_CT, ('json', lambda t: [E('node.x', 'temporary', t)]), 'full'),
    ('notfound', 404, JSON_CT, ('raw', lambda t: f'Not found #{t}'), 'full'),
    ('notfound-marker', 404, 'text/plain', ('raw', lambda t: f'{MARK} #{t}'), 'full'),
    ('bad-request', 400, JSON_CT, ('json', lambda t: [E('proto.alpha.x', 'permanent', t)]), 'full'),
    ('conflict-tmp', 409, JSON_CT, ('json', lambda t: [E('node.x', 'temporary', t)]), 'full'),
    ('tmp-499', 499, JSON_CT, ('json', lambda t: [E('node.x', 'temporary', t, MARK)]), 'full'),
    ('text-marker-400', 400, 'text/plain', ('raw', lambda t: f'{MARK} #{t}'), 'full'),
    ('redirect', 302, 'text/plain', ('raw', lambda t: f'moved #{t}'), 'full'),
    # the error list is defined (json list) but the raised class is not the property's business
    ('created-201', 201, JSON_CT, ('json', lambda t: {'hash': t}), 'retry'),
    ('nonlist-json', 500, JSON_CT, ('json', lambda t: {'error': t}), 'retry'),
    ('nonlist-json-marker', 502, JSON_CT, ('json', lambda t: {'error': MARK, 'tag': t}), 'retry'),
    ('no-id-tmp', 500, JSON_CT, ('json', lambda t: [E(None, 'temporary', t)]), 'retry'),
    ('nondict-tmp', 500, JSON_CT, ('json', lambda t: ['boom', E('node.x', 'temporary', t)]), 'retry'),
    ('nondict-last', 500, JSON_CT, ('json', lambda t: [E('node.x', 'permanent', t), 'boom']), 'retry'),
    # outside the domain
    ('nonstr-id', 500, JSON_CT, ('json', lambda t: [E(5, 'temporary', t)]), 'none'),
    ('null-id-after-proto', 500, JSON_CT, ('json', lambda t: [E('proto.a.b', 'temporary', t), {'id': None, 'msg': f'#{t}'}]), 'none'),
    ('ok-nonjson', 200, 'text/plain', ('raw', lambda t: f'ok #{t}'), 'none'),
    ('json-charset', 500, 'application/json; charset=utf-8', ('json', lambda t: [E('node.x', 'temporary', t)]), 'none'),
]
SYM = {s[0]: s for s in ALPHABET}


def sym_text(sym, tag):
    kind, build = sym[3]
    v = build(tag)
    return (json.dumps(v), v) if kind == 'json' else (v, None)


# ---- description handed to the model (what the code looks at; built from the symbol, not by running the code) ---
def hx(s):
    return s.encode('ascii').hex() or '-'


def field(d, key):
    if key not in d:
        return '-'
    return 's' + d[key].encode('ascii').hex() if isinstance(d[key], str) else 'o'


def describe(sym, tag):
    text, value = sym_text(sym, tag)
    if sym[3][0] == 'raw':
        body = 'I'
    elif not isinstance(value, list):
        body = 'N'
    else:
        body = 'L' + ','.join('d' + field(e, 'id') + '/' + field(e, 'kind') if isinstance(e, dict) else 'x' for e in value)
    return f'{sym[1]}:{1 if sym[2] == JSON_CT else 0}:{body}:{hx(text)}'


# ---- the real code ----------------------------------------------------------------------------------------------
class Exhausted(Exception):
    pass


def make_response(sym, tag):
    import requests
    from requests.structures import CaseInsensitiveDict
    text, _ = sym_text(sym, tag)
    r = requests.Response()
    r.status_code = sym[1]
    r._content = text.encode('utf-8')
    r.encoding = 'utf-8'
    r.headers = CaseInsensitiveDict({'Content-Type': sym[2]} if sym[2] is not None else {})
    r.url = 'http://node/chains/main/blocks/head'
    return r


def ms(x):
    v = round(x * 1000)
    return str(v) if abs(x * 1000 - v) < 1e-9 else repr(x)


def tag_of(text):
    i = text.rfind('#')
    j = i + 1
    while j < len(text) and text[j].isdigit():
        j += 1
    return text[i + 1:j] if i >= 0 and j > i + 1 else '?'


def impl_run(names, node=None):
    """-> (issued, [sleep ms], outcome string, raw result for the oracle); `node`: an RpcNode that already served earlier
    requests (the retry budget and the back-off schedule belong to one request, not to the node object)"""
    from types import SimpleNamespace
    import pytezos.rpc.errors  # noqa: F401  (registers the error classes, as any client does)
    from pytezos.rpc import node as node_mod

    responses = [make_response(SYM[n], k) for k, n in enumerate(names)]
    calls = []
    sleeps = []

    def fake_request(**kw):
        calls.append((kw.get('method'), kw.get('url')))
        if len(calls) > len(responses):
            raise Exhausted()
        return responses[len(calls) - 1]

    saved = node_mod.requests, node_mod.sleep
    node_mod.requests = SimpleNamespace(request=fake_request)
    node_mod.sleep = sleeps.append
    ret = exc = None
    try:
        try:
            ret = (node or node_mod.RpcNode('http://node')).request('GET', 'chains/main/blocks/head')
        except Exception as e:  # canonicalised below
            exc = e
    finally:
        node_mod.requests, node_mod.sleep = saved
    if len(set(calls)) > 1:
        out = 'requests-differ'
    elif exc is None:
        k = next((i for i, r in enumerate(responses) if r is ret), '?')
        out = f'returned@{k}'
    elif isinstance(exc, Exhausted):
        out = 'exhausted'
    elif isinstance(exc, node_mod.RpcError):
        a = exc.args[0] if len(exc.args) == 1 else None
        if isinstance(a, str) and a.startswith('Unauthorized: '):
            out = 'rpc:unauthorized'
        elif isinstance(a, str) and a.startswith('Not found: '):
            out = 'rpc:notfound'
        elif a == 'Unspecified error':
            out = 'rpc:unspecified'
        elif isinstance(a, str):
            k = tag_of(a)
            out = f'rpc:text@{k}' if k != '?' and int(k) < len(responses) and responses[int(k)].text == a else 'rpc:text@?'
        elif isinstance(a, dict) and isinstance(a.get('id'), str):
            out = f"rpc:errors@{tag_of(a.get('msg', ''))}:{hx(a['id'])}"
        else:
            out = 'rpc:other'
    else:
        name = type(exc).__name__
        out = 'crash:' + ('JSONDecodeError' if 'JSONDecodeError' in [c.__name__ for c in type(exc).__mro__] else name)
    return len(calls), [ms(s) for s in sleeps], out, (ret, exc, responses)


# ---- the property, restated ----------------------------------------------------------------------------------------
SCHEDULE_MS = ['250', '500', '1000', '2000', '2000']      # 0.25 s doubling, capped at 2 s; at most 5 retries


def spec_transient(sym, tag):
    """a 5xx response whose errors are temporary and none of them a protocol error, or a prevalidator failure
    (a response reporting a protocol error is never transient)"""
    text, value = sym_text(sym, tag)
    if not 500 <= sym[1]:
        return False
    errors = value if sym[2] == JSON_CT and sym[3][0] == 'json' and isinstance(value, list) else None
    if errors is not None:
        dicts = [e for e in errors if isinstance(e, dict)]
        if any(isinstance(e.get('id'), str) and e['id'][:6] == 'proto.' for e in dicts):
            return False
        if any(e.get('kind') == 'temporary' for e in dicts):
            return True
    return MARK in text


def spec_check(names, issued, sleeps, raw):
    """-> None (holds / not judged) or a description of the violation"""
    ret, exc, responses = raw
    n = 0
    while True:
        if n >= len(names):
            return None                      # the scripted node ran dry before the property's answer is determined
        sym = SYM[names[n]]
        if sym[4] == 'none':
            return None
        n += 1
        if not (n <= 5 and spec_transient(sym, n - 1)):
            break
    last = SYM[names[n - 1]]
    if issued != n:
        return f'{issued} requests issued, expected {n}'
    if sleeps != SCHEDULE_MS[:n - 1]:
        return f'sleeps {sleeps}, expected {SCHEDULE_MS[:n - 1]}'
    if last[1] == 200:
        if ret is not responses[n - 1]:
            return f'response {n - 1} (200) not returned: {type(exc).__name__ if exc else "other object"}'
        return None
    if exc is None:
        return f'status {last[1]} returned instead of raised'
    if last[4] == 'retry':
        return None
    from pytezos.rpc.node import RpcError
    if not isinstance(exc, RpcError):
        return f'raised {type(exc).__name__}, not an RpcError'
    a = exc.args[0] if exc.args else None
    text, value = sym_text(last, n - 1)
    if last[1] in (401, 404):
        ok = isinstance(a, str) and 'chains/main/blocks/head' in a
    elif last[2] == JSON_CT and isinstance(value, list):
        ok = (a == value[-1]) if value else isinstance(a, str)
    else:
        ok = a == text
    return None if ok else f'error does not carry the payload of response {n - 1}: {a!r}'


# ---- cases ------------------------------------------------------------------------------------------------------------
def transient_names():
    return [s[0] for s in ALPHABET if s[4] != 'none' and spec_transient(s, 0)]


SIMPLE = ['ok', 'tmp', 'perm', 'text-marker', 'notfound']


def shrink(names, fails):
    """greedy: drop elements while the property still fails, then replace each symbol by the simplest one that keeps it failing"""
    cur = list(names)
    changed = True
    while changed:
        changed = False
        for i in range(len(cur)):
            cand = cur[:i] + cur[i + 1:]
            if cand and fails(cand):
                cur, changed = cand, True
                break
    for i in range(len(cur)):
        for s in SIMPLE:
            if cur[i] == s:
                break
            cand = cur[:i] + [s] + cur[i + 1:]
            if fails(cand):
                cur = cand
                break
    return cur


def run(ctx):
    ctx.prepare_lean(extract.generate(PROP))
    names = [s[0] for s in ALPHABET]
    trans = transient_names()
    ctx.extra['alphabet'] = {s[0]: f'{s[1]} {s[2]} {sym_text(s, 0)[0][:70]} [{s[4]}]' for s in ALPHABET}
    ctx.extra['transient_symbols'] = trans
    quick = ctx.tier == 'quick'
    ctx.extra['rule'] = (
        f'{len(ALPHABET)}-symbol alphabet; all sequences of length <= {2 if quick else 3}; every (transient prefix of '
        f'length 0..6 over {"3" if quick else "3-4"} representative transient symbols) + any final symbol '
        '+ one more symbol; random sequences of length 1..8 biased towards transient symbols. non-trivial = at least '
        'one retry expected or a 5xx response that must not be retried')
    cases = [[]]
    for ln in range(1, (2 if quick else 3) + 1):
        cases.extend(list(c) for c in itertools.product(names, repeat=ln))
    rep = ['tmp', 'text-marker-late', 'perm-marker', 'nonlist-json-marker']
    for j in range(0, 7):
        for pre in itertools.product(rep[:3 if quick or j >= 5 else 4], repeat=j):
            if j >= 5 and quick and len(set(pre)) > 2:
                continue
            for last in names:
                cases.append(list(pre) + [last])
                if j == 5 or (j == 4 and not quick):
                    cases.append(list(pre) + [last, 'ok'])
    for _ in range(6000 if quick else 40000):
        ln = ctx.rng.randrange(1, 9)
        p = ctx.rng.choice([0.5, 0.8, 0.95])
        cases.append([ctx.rng.choice(trans) if ctx.rng.random() < p else ctx.rng.choice(names) for _ in range(ln)])
    ctx.extra['cases_generated'] = len(cases)

    lines = [' '.join(describe(SYM[n], k) for k, n in enumerate(c)) for c in cases]
    model = ctx.model(lines)
    seen_fail = set()
    shrunk = 0
    from pytezos.rpc import node as _node_mod
    shared = {'node': None, 'served': 0}
    for idx, c in enumerate(cases):
        use_shared = idx % 3 == 1
        if use_shared and (shared['node'] is None or shared['served'] >= 40):
            shared['node'], shared['served'] = _node_mod.RpcNode('http://node'), 0
        issued, sleeps, out, raw = impl_run(c, shared['node'] if use_shared else None)
        if use_shared:
            shared['served'] += 1
            ctx.count('node-object', 'reused (served %d+ requests before)' % (10 * ((shared['served'] - 1) // 10)))
        got = f"{issued} {','.join(sleeps) or '-'} {out}"
        retried = issued > 1
        blocked = any(SYM[n][1] >= 500 for n in c[:issued]) and not all(spec_transient(SYM[n], k) for k, n in enumerate(c[:issued]))
        ctx.case(c, nontrivial=retried or blocked)
        ctx.count('requests', issued)
        ctx.count('outcome', out.split('@')[0])
        if c:
            ctx.count('final-symbol-domain', SYM[c[min(issued, len(c)) - 1]][4])
        bad = spec_check(c, issued, sleeps, raw)
        if bad:
            ctx.count('oracle', 'fails')
        if bad and shrunk < 8:          # every further failure is only counted
            shrunk += 1
            def fails(cand):
                i2, s2, _, r2 = impl_run(cand)
                return spec_check(cand, i2, s2, r2) is not None
            if use_shared and not fails(c):
                # only wrong on a node object that served other requests before: report the case as found
                key = 'node-reuse:responses=' + ','.join(c)
                if key not in seen_fail:
                    seen_fail.add(key)
                    ctx.violation(key, f'{c} on an RpcNode that had served {shared["served"] - 1} requests: {bad} (observed: {issued} requests, sleeps {sleeps}, {out}); '
                                       'the same responses on a fresh RpcNode are handled correctly',
                                  {'responses': c, 'earlier_requests_on_the_node': shared['served'] - 1, 'observed': {'requests': issued, 'sleeps_ms': sleeps, 'outcome': out}})
                continue
            small = shrink(c, fails)
            key = 'responses=' + ','.join(small)
            if key not in seen_fail:
                seen_fail.add(key)
                i2, s2, o2, r2 = impl_run(small)
                ctx.violation(key, f'{small}: {spec_check(small, i2, s2, r2)} (observed: {i2} requests, sleeps {s2}, {o2})',
                              {'responses': [{'symbol': n, 'status': SYM[n][1], 'content_type': SYM[n][2], 'text': sym_text(SYM[n], k)[0]}
                                             for k, n in enumerate(small)],
                               'observed': {'requests': i2, 'sleeps_ms': s2, 'outcome': o2}})
        if model is not None and got != model[idx] and model[idx] != 'unrecognised-source':
            # (an unrecognised source is already a broken translator obligation; the model then has nothing to say)
            ctx.mismatch('request-trace', c, got, model[idx])
    ctx.assumptions += [
        'requests.Response (json(), text, case-insensitive headers) is the real class; the network is the scripted stub',
        'a response is abstracted to: status, content-type == "application/json" (exact match, as in the code), the shape of res.json() '
        '(raises / non-list / list of dicts with id and kind), and its text (searched for the markers)',
        'which RpcError subclass from_errors picks is property C27; here only "an RpcError carrying the last error of that response"',
        'outside the property alphabet, compared with the model but not judged: ids that are not strings (AttributeError escapes), '
        '200 with a non-JSON body (JSONDecodeError from the eagerly evaluated debug argument), content-type with parameters '
        '(treated as non-JSON by both the classifier and from_response); for non-list JSON / id-less / non-dict error lists only the retry decision is judged',
        'timeouts / connection errors raised by requests.request are not responses and are not retried (outside the statement)',
    ]
