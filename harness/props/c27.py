"""C27 — node errors map to the most specific registered error class.

Real `RpcError.from_errors(errors)` (registry filled by importing `pytezos.rpc.errors`, as every client module does)
against the Lean mirror (`Impl.Errors.classify`, Driver/C27) and against the property oracle `spec_class` below, an
independent restatement of the statement: keys tried on the full identifier, then the identifier without its
`proto.<protocol>.` prefix, then its final component, then its category (= first component after the prefix); the
generic `RpcError` when none is registered; always the LAST error of the list.
Observable: class name of the returned exception and which error dict it carries (`args[0] is errors[k]`)."""
import itertools

from translator import extract

PROP = 'C27'

RANKS = ['full-id', 'id-without-protocol-prefix', 'final-component', 'category']


def handlers():
    import pytezos.rpc.errors  # noqa: F401
    from pytezos.rpc.node import RpcError
    return RpcError, dict(RpcError.__handlers__)


def spec_keys(error_id):
    chunks = error_id.split('.')
    rest = chunks[2:] if chunks[0] == 'proto' and len(chunks) >= 3 else chunks
    return [error_id, '.'.join(rest), rest[-1], rest[0]]


def spec_class(error_id, registry, generic):
    """-> (class, rank index or None)"""
    for rank, key in enumerate(spec_keys(error_id)):
        if key in registry:
            return registry[key], rank
    return generic, None


def impl_classify(ids):
    RpcError, _ = handlers()
    errors = [{'id': i, 'kind': 'permanent', 'n': k} for k, i in enumerate(ids)]
    try:
        e = RpcError.from_errors(errors)
    except Exception as x:  # not expected for string ids
        return f'raised:{type(x).__name__}', None
    if not errors:
        ok = type(e) is RpcError and e.args == ('Unspecified error',)
        return ('unspecified' if ok else f'{type(e).__name__}:{e.args!r}'), e
    k = next((j for j, d in enumerate(errors) if len(e.args) == 1 and e.args[0] is d), '?')
    return f'{type(e).__name__}@{k}', e


# identifiers octez really sends: preferred as replay witnesses when they fail
REAL_IDS = ['proto.alpha.michelson_v1.script_rejected', 'proto.alpha.michelson_v1.bad_return',
            'proto.alpha.michelson_v1.bad_contract_parameter', 'proto.alpha.michelson_v1.runtime_error',
            'proto.alpha.tez.subtraction_underflow', 'proto.alpha.contract.balance_too_low']


def replay_rank(ids):
    """smaller = reported first: a single error, a real octez id, the statement's own form
    proto.<protocol>.<category>.<name>, no empty component, fewer components, shorter"""
    if not ids:
        return (0,)
    chunks = ids[-1].split('.')
    canonical = len(chunks) == 4 and chunks[0] == 'proto' and chunks[1] == 'alpha' and '' not in chunks
    return (len(ids), ids[-1] not in REAL_IDS, not canonical, '' in chunks, len(chunks), len(ids[-1]), ids[-1])


def hx(s):
    return s.encode('ascii').hex() or '-'


def components(registry):
    comps = ['proto', 'alpha', '018-Proxford', 'contract', 'runtime_error', '']
    for key in sorted(registry):
        for c in key.split('.'):
            if c not in comps:
                comps.append(c)
    return comps


def run(ctx):
    ctx.prepare_lean(extract.generate(PROP))
    RpcError, registry = handlers()
    quick = ctx.tier == 'quick'

    # the generated registry against the imported one (ties the translator's table to the running code)
    from translator import c27 as tr
    reg_src, why = tr.read_registry()
    src_map = {}
    for k, n in reg_src or []:
        src_map[k] = n
    run_map = {k: v.__name__ for k, v in registry.items()}
    ctx.case({'selfcheck': 'registry'}, nontrivial=True)
    if reg_src is None or src_map != run_map:
        ctx.mismatch('registry-selfcheck', {'why': why}, sorted(run_map.items()), sorted(src_map.items()))

    comps = components(registry)
    reduced = [c for c in comps if c not in ('018-Proxford', 'runtime_error', '', 'contract', 'bad_contract_parameter')]
    ctx.extra['components'] = comps
    ctx.extra['rule'] = (
        f'ids = all sequences of 1..{4 if quick else 5} components over {len(comps)} components (proto, two protocol names, every '
        'component of a registered key, unregistered names, the empty component)'
        + (f', length 5 over the {len(reduced)} most relevant components' if quick else '')
        + f'; each id alone, ids of <= {2 if quick else 3} components also behind every prefix of 0..2 distractor errors mapping to other '
        'classes, 3-component ids behind each single distractor, the rest behind random prefixes; the empty list. non-trivial = some variant key of the last id is registered')
    ids = []
    for ln in range(1, (4 if quick else 5) + 1):
        ids.extend('.'.join(c) for c in itertools.product(comps, repeat=ln))
    if quick:
        ids.extend('.'.join(c) for c in itertools.product(reduced, repeat=5))
    # identifiers are compared as they are: spellings that differ from a registered key only by the case of a letter are other identifiers
    case_ids = []
    for base in REAL_IDS + sorted(registry):
        parts = base.split('.')
        for j in range(len(parts)):
            for f in (str.capitalize, str.upper):
                v = parts[:j] + [f(parts[j])] + parts[j + 1:]
                if v != parts:
                    case_ids.append('.'.join(v))
                    if parts[0] != 'proto':
                        case_ids.append('proto.alpha.' + '.'.join(v))
    case_ids = sorted(set(case_ids))
    ids.extend(case_ids)
    ctx.extra['case_variant_ids'] = len(case_ids)
    distractors = ['proto.alpha.tez.subtraction_underflow', 'michelson_v1.bad_return', 'proto.alpha.michelson_v1.script_rejected', 'node.unknown']
    prefixes = [list(p) for n in range(0, 3) for p in itertools.product(distractors, repeat=n)]
    cases = [[]]
    for i in ids:
        cases.append([i])
        if i.count('.') <= (1 if quick else 2):
            cases.extend(p + [i] for p in prefixes[1:])
        elif i.count('.') == 2:
            cases.extend(p + [i] for p in prefixes[1:5])
        elif ctx.rng.random() < (0.3 if quick else 0.15):
            cases.append(ctx.rng.choice(prefixes[1:]) + [i])
    ctx.extra['ids'] = len(ids)

    lines = ['E ' + ' '.join(hx(i) for i in c) for c in cases]
    vlines = ['V ' + hx(i) for i in ids[:3000]]
    model = ctx.model(lines + vlines)

    worst = {}      # rank / reason -> minimal failing case
    for idx, c in enumerate(cases):
        got, exc = impl_classify(c)
        if c:
            want_cls, rank = spec_class(c[-1], registry, RpcError)
            want = f'{want_cls.__name__}@{len(c) - 1}'
        else:
            rank, want = None, 'unspecified'
        ctx.case(c, nontrivial=rank is not None)
        ctx.count('errors', len(c))
        ctx.count('components-of-last', c[-1].count('.') + 1 if c else 0)
        ctx.count('expected', want.split('@')[0])
        ctx.count('matched-by', RANKS[rank] if rank is not None else 'nothing')
        if got != want:
            reason = RANKS[rank] if rank is not None else ('empty-list' if not c else 'nothing-registered')
            cur = worst.get(reason)
            size = replay_rank(c)
            if cur is None or size < cur[0]:
                worst[reason] = (size, c, got, want)
        if model is not None and got != model[idx] and model[idx] != 'unrecognised-source':
            ctx.mismatch('from-errors', c, got, model[idx])
    for reason, (_, c, got, want) in sorted(worst.items()):
        keys = spec_keys(c[-1]) if c else []
        ctx.violation(f'ids={",".join(c)}',
                      f'from_errors(ids {c}) -> {got}, expected {want} (most specific registered key by {reason}; keys in order {keys})',
                      {'error_ids': c, 'observed': got, 'expected': want, 'matched_by': reason, 'keys_most_specific_first': keys})
    if model is not None:
        from pytezos.rpc.node import _gen_error_variants
        for i, m in zip(ids[:3000], model[len(lines):]):
            got = ' '.join(hx(v) for v in _gen_error_variants(i))
            if got != m and m != 'unrecognised-source':
                ctx.mismatch('variants', i, got, m)
    ctx.assumptions += [
        'an error is reduced to its id (a string, as octez sends it); errors without an id / non-string ids raise KeyError / AttributeError and are outside the statement',
        'the registry is the one present after importing pytezos.rpc.errors; the generated table is compared with RpcError.__handlers__ on every run',
        '"category" is read as the first component after the optional proto.<protocol>. prefix; "most specific" = least rank in the order full id, id without prefix, final component, category',
        'python dict / str.split / str.join are modelled (association list with last-wins lookup, one-character separator)',
    ]
