"""C23 — OperationGroup.sign / hash / binary_payload for sources of the four curves.

The real `OperationGroup(context=stub)` is driven offline (harness/stubctx_c23.py: the key plus a shell recorder
that must never be called).  Groups: 1–4 contents of the forgeable kinds of one validation pass, consensus
groups with and without chain id, mixed-pass groups, unknown kinds, empty groups.  Forged bytes are taken from
the real `forge()` (forging is C06) and handed to the model as an opaque byte string.

Oracle (independent recomputation): message = 0x02 ++ chain id (own Base58Check decoder) for consensus kinds,
0x03 otherwise, followed by the forged bytes; the signature text must decode (own decoder) to 64 / 96 bytes that
the independent verifier of C07 accepts over that message; hash = own Base58Check `o` of hashlib Blake2b-256 of
forged bytes ++ raw signature; binary_payload = forged bytes ++ raw signature."""
import multiprocessing
import os
import random

from harness import keylib as K
from harness.props.c07 import random_secret
from translator import extract

PROP = 'C23'
CONSENSUS = {'endorsement', 'endorsement_with_slot'}          # spec: validation pass 0
FORGEABLE_BY_PASS = {
    -1: ['failing_noop'],
    0: ['endorsement', 'endorsement_with_slot'],
    2: ['activate_account'],
    3: ['reveal', 'transaction', 'origination', 'delegation', 'register_global_constant', 'transfer_ticket',
        'smart_rollup_add_messages', 'smart_rollup_execute_outbox_message'],
}
EXTRA_PREFIX = {'B': bytes([1, 52]), 'KT1': bytes([2, 90, 121]), 'sr1': bytes([6, 124, 117]), 'src1': bytes([17, 165, 134, 138])}


def b58(kind, payload):
    return K.b58check_encode(({**K.BIN_PREFIX, **EXTRA_PREFIX})[kind] + payload)


def rbytes(rng, n):
    return bytes(rng.getrandbits(8) for _ in range(n))


def make_content(rng, kind, src, pk_text):
    mgr = {'source': src, 'fee': str(rng.randrange(0, 10 ** 6)), 'counter': str(rng.randrange(1, 10 ** 7)),
           'gas_limit': str(rng.randrange(0, 10 ** 6)), 'storage_limit': str(rng.randrange(0, 60000))}
    dest = rng.choice([src, b58('KT1', rbytes(rng, 20)), b58('tz1', rbytes(rng, 20))])
    if kind == 'transaction':
        c = {'kind': kind, **mgr, 'amount': str(rng.randrange(0, 10 ** 9)), 'destination': dest}
        if rng.random() < 0.5:
            c['parameters'] = {'entrypoint': rng.choice(['default', 'do', 'mint_tokens']), 'value': {'prim': 'Pair', 'args': [{'int': str(rng.randrange(-999, 10 ** 9))}, {'string': 'x'}]}}
        return c
    if kind == 'reveal':
        return {'kind': kind, **mgr, 'public_key': pk_text}
    if kind == 'delegation':
        c = {'kind': kind, **mgr}
        if rng.random() < 0.6:
            c['delegate'] = src
        return c
    if kind == 'origination':
        return {'kind': kind, **mgr, 'balance': str(rng.randrange(0, 10 ** 6)),
                'script': {'code': [{'prim': 'parameter', 'args': [{'prim': 'unit'}]}, {'prim': 'storage', 'args': [{'prim': 'unit'}]},
                                    {'prim': 'code', 'args': [[{'prim': 'CDR'}, {'prim': 'NIL', 'args': [{'prim': 'operation'}]}, {'prim': 'PAIR'}]]}],
                           'storage': {'prim': 'Unit'}}}
    if kind == 'register_global_constant':
        return {'kind': kind, **mgr, 'value': {'prim': 'Pair', 'args': [{'int': str(rng.randrange(10 ** 12))}, {'bytes': rbytes(rng, 5).hex()}]}}
    if kind == 'transfer_ticket':
        return {'kind': kind, **mgr, 'ticket_contents': {'string': 'T'}, 'ticket_ty': {'prim': 'string'}, 'ticket_ticketer': b58('KT1', rbytes(rng, 20)),
                'ticket_amount': str(rng.randrange(1, 1000)), 'destination': b58('KT1', rbytes(rng, 20)), 'entrypoint': 'default'}
    if kind == 'smart_rollup_add_messages':
        return {'kind': kind, **mgr, 'message': [rbytes(rng, rng.randrange(0, 12)).hex() for _ in range(rng.randrange(1, 4))]}
    if kind == 'smart_rollup_execute_outbox_message':
        return {'kind': kind, **mgr, 'rollup': b58('sr1', rbytes(rng, 20)), 'cemented_commitment': b58('src1', rbytes(rng, 32)), 'output_proof': rbytes(rng, 20).hex()}
    if kind == 'endorsement':
        return {'kind': kind, 'level': rng.randrange(0, 2 ** 31)}
    if kind == 'endorsement_with_slot':
        return {'kind': kind, 'endorsement': {'branch': b58('B', rbytes(rng, 32)), 'operations': {'kind': 'endorsement', 'level': rng.randrange(0, 2 ** 31)},
                                              'signature': b58('sig', rbytes(rng, 64))}, 'slot': rng.randrange(0, 2 ** 15)}
    if kind == 'failing_noop':
        return {'kind': kind, 'arbitrary': ''.join(rng.choice('abc xyz 123') for _ in range(rng.randrange(0, 30)))}
    if kind == 'activate_account':
        return {'kind': kind, 'pkh': b58('tz1', rbytes(rng, 20)), 'secret': rbytes(rng, 20).hex()}
    return {'kind': kind}           # not forgeable here (ballot, proposals, …) or unknown: only the pass check sees it


def eval_case(case):
    from harness import common
    common.use_repo()
    from harness.stubctx_c23 import StubContext
    from pytezos.crypto.key import Key
    from pytezos.operation.group import OperationGroup
    rng = random.Random(case['seed'])
    curve, secret = case['curve'], case['secret']
    key = Key.from_secret_exponent(secret, curve.encode())
    pub, sk = key.public_point, key.secret_exponent
    src = key.public_key_hash()
    contents = [make_content(rng, k, src, key.public_key()) for k in case['kinds']]
    if case.get('tail') is not None and contents:
        # steer the LAST BYTE of the forged group (line breaks, blanks, NUL, 0xff …): the message that is signed is the forged bytes
        # as they are, whatever text-like bytes they end with
        tb, last = case['tail'], contents[-1]
        if last['kind'] == 'transaction':
            last['parameters'] = {'entrypoint': 'default', 'value': {'bytes': rbytes(rng, 3).hex() + f'{tb:02x}'}}
        elif last['kind'] == 'endorsement':
            last['level'] = (rng.randrange(0, 2 ** 23) << 8) | tb
        elif last['kind'] == 'failing_noop':
            last['arbitrary'] = last['arbitrary'] + chr(tb)
    chain, branch = case['chain'], case['branch']
    kinds = [c['kind'] for c in contents]
    base = {'curve': curve, 'secret': secret.hex(), 'kinds': kinds, 'chain': chain, 'shape': case['shape'], **({'last_forged_byte': case['tail']} if case.get('tail') is not None else {})}
    out, viol = [], []
    stub = StubContext(key)
    g = OperationGroup(context=stub, contents=contents, chain_id=chain, branch=branch)
    try:
        forged = bytes.fromhex(g.forge())
    except Exception as e:      # kinds the local forger does not know: nothing to sign (C06)
        forged = None
    # ---- real sign
    try:
        signed = g.sign()
        res = 'ok ' + K.text_hex(signed.signature)
    except Exception as e:
        signed = None
        res = K.canon_exc(e) if forged is not None or not isinstance(e, NotImplementedError) else 'unforgeable'
    if res == 'unforgeable':
        return out, viol
    # ---- spec message
    spec_wm = None
    if kinds and len({k in CONSENSUS for k in kinds}) == 1 and case['shape'] in ('plain', 'consensus'):
        if kinds[0] in CONSENSUS:
            cid = K.tz_decode('Net', chain) if chain else None
            spec_wm = None if cid is None else b'\x02' + cid
        else:
            spec_wm = b'\x03'
    # ---- model lines
    o = K.Oracles()
    if chain is not None:
        o.dec(chain.encode())
    if spec_wm is not None and forged is not None:
        msg = spec_wm + forged
        o.b2b(32, msg)
        for p in ([msg] if curve == 'BL' else [K.blake(msg), msg]):
            raw = o.sign(curve, sk, p)
            if raw is not None:
                for pfx in (b'sig', curve.encode() + b'sig'):
                    o.enc(pfx, raw)
    kinds_w = ','.join(kinds) if kinds else '-'
    chain_w = K.text_hex(chain) if chain is not None else 'none'
    out.append({'stream': 'opsign', 'desc': base, 'impl': res,
                'line': K.line(['opsign', curve, K.hx(pub), K.hx(sk), chain_w, kinds_w, K.hx(forged or b'')], o)})
    o2 = K.Oracles()
    if chain is not None:
        o2.dec(chain.encode())
    # the watermark alone (what the real code prepends is observed through the signature; here the model's view)
    if spec_wm is not None:
        out.append({'stream': 'watermark', 'desc': base, 'impl': 'ok ' + K.hx(spec_wm), 'line': K.line(['wm', chain_w, kinds_w], o2)})
    if stub.touched:
        viol.append(('network-touched', f'sign() touched {stub.touched[:3]}', {**base, 'touched': stub.touched[:5]}))
    want_ok = spec_wm is not None and forged is not None
    if want_ok and signed is None:
        viol.append((f'group-sign-raises:{curve}', f'OperationGroup.sign() from a {K.TZ[curve]} source raised ({res}); kinds {kinds}',
                     {**base, 'result': res, 'contents': contents, 'branch': branch}))
    if not want_ok and signed is not None:
        viol.append((f'group-sign-accepts:{case["shape"]}', f'OperationGroup.sign() succeeded on a {case["shape"]} group {kinds} chain {chain}', {**base}))
    if signed is None or not want_ok:
        return out, viol
    # ---- signature verifies over the watermarked bytes (independent) and with the real Key.verify
    sig = signed.signature
    kind = 'BLsig' if sig.startswith('BLsig') else 'sig' if sig.startswith('sig') else None
    raw = K.tz_decode(kind, sig) if kind else None
    msg = spec_wm + forged
    if raw is None or len(raw) != K.SIG_LEN[curve]:
        viol.append((f'group-signature-form:{curve}', f'{sig[:14]}… is not a {K.SIG_LEN[curve]}-byte sig/BLsig', {**base, 'signature': sig}))
        return out, viol
    if case['independent'] and not K.indep_verify(curve, pub, msg, raw):
        viol.append((f'group-signature-invalid:{curve}', f'independent verifier rejects the signature over {"0x02 ++ chain id" if spec_wm[0] == 2 else "0x03"} ++ forged bytes',
                     {**base, 'signature': sig, 'message': msg.hex()}))
    try:
        ok = key.verify(sig, msg) is True
    except Exception as e:
        ok = False
    if not ok:
        viol.append((f'group-signature-invalid:{curve}', 'Key.verify rejects the group signature over the watermarked bytes', {**base, 'signature': sig, 'message': msg.hex()}))
    # a wrong watermark must not verify (the other watermark byte)
    other = (b'\x03' if spec_wm[0] == 2 else b'\x02' + b'\0\0\0\0') + forged
    if curve != 'BL':
        try:
            key.verify(sig, other)
            viol.append((f'group-signature-watermark:{curve}', 'signature also verifies over the other watermark', {**base, 'signature': sig}))
        except ValueError:
            pass
    # ---- payload and hash
    try:
        bp = signed.binary_payload()
        bp_res = 'ok ' + K.hx(bp)
    except Exception as e:
        bp, bp_res = None, K.canon_exc(e)
    try:
        h = signed.hash()
        h_res = 'ok ' + K.text_hex(h)
    except Exception as e:
        h, h_res = None, K.canon_exc(e)
    o3 = K.Oracles()
    o3.dec(sig.encode())
    o3.b2b(32, forged + raw)
    o3.enc(b'o', K.blake(forged + raw))
    out.append({'stream': 'payload', 'desc': base, 'impl': bp_res, 'line': K.line(['payload', K.text_hex(sig), K.hx(forged)], o3)})
    out.append({'stream': 'ophash', 'desc': base, 'impl': h_res, 'line': K.line(['ophash', K.text_hex(sig), K.hx(forged)], o3)})
    if bp != forged + raw:
        viol.append(('payload-differs', f'binary_payload() is not forged bytes ++ raw signature ({bp_res[:60]})', {**base, 'signature': sig}))
    want_h = K.tz_encode('o', K.blake(forged + raw))
    if h != want_h:
        viol.append(('group-hash-differs', f'hash() = {h}, expected {want_h}', {**base, 'signature': sig, 'forged': forged.hex()}))
    # ---- a group DERIVED from one whose hash was already read (extended by one content, signed again) hashes its own bytes
    if case['shape'] == 'plain' and kinds and all(k in ('transaction', 'delegation', 'reveal', 'origination') for k in kinds) and curve != 'BL':
        try:
            s2 = signed.operation(make_content(rng, 'transaction', src, key.public_key())).sign()
            forged2 = bytes.fromhex(s2.forge())
            raw2 = K.tz_decode('sig', s2.signature)
            h2 = s2.hash()
            want2 = K.tz_encode('o', K.blake(forged2 + raw2))
            try:
                ok2 = key.verify(s2.signature, spec_wm + forged2) is True
            except Exception:
                ok2 = False
            if not ok2 or (case['independent'] and not K.indep_verify(curve, pub, spec_wm + forged2, raw2)):
                viol.append((f'group-signature-invalid-after-derivation:{curve}', 'a signed group extended by one transaction and signed again carries a signature that does not verify '
                             'over 0x03 ++ its own forged bytes' + (' (it is the parent\'s signature)' if s2.signature == sig else ''),
                             {**base, 'signature': s2.signature, 'parent_signature': sig, 'message': (spec_wm + forged2).hex()}))
            if forged2 == forged or h2 != want2:
                viol.append(('group-hash-after-derivation', f'group extended by one transaction and signed again: hash() = {h2}, expected {want2} '
                             f'(Blake2b-256 of its own forged bytes ++ signature); the parent group hashed to {h}', {**base, 'parent_hash': h, 'derived_hash': h2}))
        except Exception as e:
            viol.append(('group-hash-after-derivation', f'extending a signed group and signing again raised {K.canon_exc(e)}', {**base}))
    # ---- the same group carrying a signature from elsewhere (restored from JSON, another key / chain): sign() signs THESE bytes
    if curve != 'BL' or case['independent']:
        try:
            foreign = K.tz_encode('BLsig' if curve == 'BL' else 'sig', bytes([7]) * K.SIG_LEN[curve])
            s3 = OperationGroup(context=StubContext(key), contents=contents, chain_id=chain, branch=branch, signature=foreign).sign()
            ok3 = key.verify(s3.signature, msg) is True
        except Exception as e:
            ok3 = False
        if not ok3:
            viol.append((f'group-signature-invalid-on-resign:{curve}', 'a group that already carries a signature (restored with signature=…) is signed: the result does not verify over the '
                         'watermarked bytes', {**base, 'message': msg.hex()}))
    # unsigned group: binary_payload / hash must refuse
    try:
        g.binary_payload()
        unsigned = 'ok'
    except Exception as e:
        unsigned = K.canon_exc(e)
    out.append({'stream': 'payload', 'desc': {**base, 'unsigned': True}, 'impl': unsigned, 'line': K.line(['payload', 'none', K.hx(forged)], K.Oracles())})
    return out, viol


def hunt_widths(job):
    """ECDSA signatures whose r or s has leading zero bytes occur once in 128 groups: sign `n` single-transaction groups that
    differ only in the counter and judge each signature with the independent verifier (fixed-width r || s is part of the
    operation format).  Returns (signed, short, violations)."""
    from harness import common
    common.use_repo()
    from harness.stubctx_c23 import StubContext
    from pytezos.crypto.key import Key
    from pytezos.operation.group import OperationGroup
    curve, secret, chain, branch, start, n = job
    key = Key.from_secret_exponent(secret, curve.encode())
    pub, src = key.public_point, key.public_key_hash()
    viol, short, signed_n = [], 0, 0
    for c in range(start, start + n):
        contents = [{'kind': 'transaction', 'source': src, 'fee': '1000', 'counter': str(c), 'gas_limit': '10000', 'storage_limit': '0',
                     'amount': '1', 'destination': src}]
        base = {'curve': curve, 'secret': secret.hex(), 'kinds': ['transaction'], 'chain': chain, 'shape': 'width-hunt', 'counter': c}
        g = OperationGroup(context=StubContext(key), contents=contents, chain_id=chain, branch=branch)
        try:
            forged = bytes.fromhex(g.forge())
            sig = g.sign().signature
        except Exception as e:
            viol.append((f'group-sign-raises:{curve}', f'OperationGroup.sign() raised ({K.canon_exc(e)}) for a transaction with counter {c}', base))
            continue
        signed_n += 1
        raw = K.tz_decode('sig', sig) if sig.startswith('sig') else None
        if raw is None or len(raw) != 64:
            viol.append((f'group-signature-form:{curve}', f'{sig[:14]}… is not a 64-byte sig (counter {c})', {**base, 'signature': sig}))
            continue
        if raw[0] == 0 or raw[32] == 0:
            short += 1
        msg = b'\x03' + forged
        if not K.indep_verify(curve, pub, msg, raw):
            viol.append((f'group-signature-invalid:{curve}', f'independent verifier rejects the signature over 0x03 ++ forged bytes (transaction, counter {c}; '
                         f'r = {raw[:32].hex()}, s = {raw[32:].hex()})', {**base, 'signature': sig, 'message': msg.hex()}))
            continue
        try:
            ok = key.verify(sig, msg) is True
        except Exception:
            ok = False
        if not ok:
            viol.append((f'group-signature-invalid:{curve}', f'Key.verify rejects the group signature (transaction, counter {c})', {**base, 'signature': sig}))
    return signed_n, short, viol


def run(ctx):
    import time
    st = {}
    for p in ('C23', 'C07', 'C08'):
        for k, v in extract.generate(p).items():
            st[k if p == PROP else f'{p}:{k}'] = v
    t0 = time.time()
    ctx.prepare_lean(st)
    timing = {'regenerate+build+audit_s': round(time.time() - t0, 1)}
    ctx.extra['timing'] = timing
    quick = ctx.tier == 'quick'
    rng = ctx.rng
    ctx.extra['rule'] = (
        'keys of the four curves (random secrets) x groups of 1-4 contents drawn from the forgeable kinds of one validation pass '
        '(failing_noop | endorsement, endorsement_with_slot | activate_account | the 8 manager kinds), random chain ids and branches; '
        'plus consensus groups without chain id, mixed-pass groups (incl. unforgeable kinds: the pass check comes first), unknown kinds, empty groups. '
        'non-trivial = every case (each exercises pass lookup, watermark, signing, or a refusal)')
    ctx.assumptions += [
        'forged bytes are taken from the real forge() and are opaque to the model (forging is property C06)',
        'MODELLED, NOT VERIFIED: the signature primitives, Blake2b and Base58Check (same contracts as C07: `Laws`, `CodecLaws`); '
        'sampled against `cryptography` / the py_ecc pairing equation / hashlib / an own Base58Check',
        'consensus kinds = validation pass 0 of the table this client ships (endorsement, endorsement_with_slot); newer protocol kinds '
        '(preattestation/attestation watermarks 0x12/0x13) are not in the code and not in the property statement',
        'the execution context is a stub holding the key; the shell recorder shows sign/hash/binary_payload never touch the network',
    ]
    n_fast = 40 if quick else 1200
    n_bls = 5 if quick else 120
    cases = []
    passes = list(FORGEABLE_BY_PASS)
    all_kinds = [k for ks in FORGEABLE_BY_PASS.values() for k in ks]
    for curve in K.CURVES:
        for i in range(n_bls if curve == 'BL' else n_fast):
            r = rng.random()
            chain = b58('Net', rbytes(rng, 4))
            if i == 0:
                shape, kinds = 'plain', ['transaction']
            elif i == 1:
                shape, kinds = 'consensus', ['endorsement']
            elif r < 0.50:
                p = rng.choice([3, 3, 3, -1, 2])
                shape, kinds = 'plain', [rng.choice(FORGEABLE_BY_PASS[p]) for _ in range(rng.randrange(1, 5))]
            elif r < 0.65:
                shape, kinds = 'consensus', [rng.choice(FORGEABLE_BY_PASS[0]) for _ in range(rng.randrange(1, 3))]
            elif r < 0.72:
                shape, kinds, chain = 'consensus-no-chain', [rng.choice(FORGEABLE_BY_PASS[0])], None
            elif r < 0.90:
                a, b = rng.sample(passes + [1], 2)
                pool_a = FORGEABLE_BY_PASS.get(a, ['ballot', 'proposals'])
                pool_b = FORGEABLE_BY_PASS.get(b, ['ballot', 'proposals'])
                kinds = [rng.choice(pool_a) for _ in range(rng.randrange(1, 3))] + [rng.choice(pool_b)] + [rng.choice(pool_a + pool_b) for _ in range(rng.randrange(0, 2))]
                shape = 'mixed'
            elif r < 0.96:
                kinds = [rng.choice(all_kinds) for _ in range(rng.randrange(0, 2))] + ['no_such_kind']
                rng.shuffle(kinds)
                shape = 'unknown-kind'
            else:
                shape, kinds = 'empty', []
            cases.append({'curve': curve, 'secret': random_secret(rng, curve), 'kinds': kinds, 'shape': shape, 'chain': chain,
                          'branch': b58('B', rbytes(rng, 32)), 'seed': rng.getrandbits(48), 'independent': True})
    # groups whose forged bytes end with a byte a text-minded helper might trim (LF, CR, blank, tab, NUL, 0xff, 0x85), in both watermark classes
    for j, tb in enumerate([0x0a, 0x0d, 0x20, 0x09, 0x00, 0xff, 0x0b, 0x0c, 0x85] if quick else [0x0a, 0x0d, 0x20, 0x09, 0x00, 0xff, 0x0b, 0x0c, 0x85, 0x1c, 0x1f, 0xa0] * 3):
        for curve in (K.CURVES if j < 2 else [c for c in K.CURVES if c != 'BL'][j % 3:j % 3 + 1]):
            for shape, kinds in (('plain', ['transaction']), ('consensus', ['endorsement']), ('plain', ['failing_noop'])):
                cases.append({'curve': curve, 'secret': random_secret(rng, curve), 'kinds': kinds, 'shape': shape, 'chain': b58('Net', rbytes(rng, 4)),
                              'branch': b58('B', rbytes(rng, 32)), 'seed': rng.getrandbits(48), 'independent': True, 'tail': tb})
    workers = int(os.environ.get('VERIF_WORKERS', '8'))
    order = sorted(range(len(cases)), key=lambda i: cases[i]['curve'] != 'BL')
    t0 = time.time()
    with multiprocessing.get_context('fork').Pool(workers) as pool:
        results = pool.map(eval_case, [cases[i] for i in order], chunksize=1)
    timing['real_code+oracles_s'] = round(time.time() - t0, 1)
    # ---- signature-width hunt (ECDSA curves): r or s with a leading zero byte, 1 group in 128
    per, jobs = (100, 8) if quick else (250, 16)
    hunt_jobs = [(curve, random_secret(rng, curve), b58('Net', rbytes(rng, 4)), b58('B', rbytes(rng, 32)), 1 + j * per, per)
                 for curve in ('sp', 'p2') for j in range(jobs)]
    t0 = time.time()
    with multiprocessing.get_context('fork').Pool(workers) as pool:
        hunted = pool.map(hunt_widths, hunt_jobs, chunksize=1)
    timing['width_hunt_s'] = round(time.time() - t0, 1)
    for (curve, *_), (signed_n, short, viol) in zip(hunt_jobs, hunted):
        ctx.evaluations += signed_n
        ctx.hist.setdefault('width_hunt_signed', {})
        ctx.hist['width_hunt_signed'][curve] = ctx.hist['width_hunt_signed'].get(curve, 0) + signed_n
        ctx.hist.setdefault('width_hunt_short_r_or_s', {})
        ctx.hist['width_hunt_short_r_or_s'][curve] = ctx.hist['width_hunt_short_r_or_s'].get(curve, 0) + short
        for key, what, replay in viol[:3]:
            ctx.violation(key, what, replay)
    by_index = dict(zip(order, results))
    records = []
    for i in range(len(cases)):
        out, viol = by_index[i]
        records += out
        for key, what, replay in viol:
            ctx.violation(key, what, replay)
    model = ctx.model([r['line'] for r in records])
    for i, r in enumerate(records):
        d = r['desc']
        ctx.case({'stream': r['stream'], **d}, nontrivial=True)
        ctx.count('stream', r['stream'])
        ctx.count('curve', d['curve'])
        ctx.count('shape', d['shape'])
        ctx.count('group_size', len(d['kinds']))
        for k in d['kinds']:
            ctx.count('kind', k)
        ctx.count('outcome:' + r['stream'], ' '.join(r['impl'].split()[:3]) if r['impl'].startswith('err') else 'ok')
        if model is not None and model[i] != r['impl']:
            ctx.mismatch(r['stream'], d, r['impl'][:200], model[i][:200])
