"""C02 — values produced by execution have the statically expected type.  Same machinery as C01 (well-typed
programs on the real instruction classes, the Lean mirror and the Lean reference semantics); the property oracle
compares the runtime type of every final stack slot with the type the Lean type checker `Typing.typeInstr`
assigns to it (and with the reference semantics' types)."""
from harness.props import c01

PROP = 'C02'


def run(ctx):
    return c01.run(ctx, PROP)
