"""C11 — typed values <-> readable / optimized / legacy-optimized Micheline.

Streams (real pytezos vs the Lean mirror, same inputs):
  render   v.to_micheline_value(mode, lazy_diff) for random (type, value), every mode, lazy_diff in {None, False, True}
  parse    T.from_micheline_value(m) on the rendered forms, on alternative spellings (flat / nested / sequence combs,
           annotated value primitives, timestamp strings with offsets and fractions, strings for ints …) and on
           mutants (wrong arities, wrong primitives, swapped literal kinds)
  malformed  Micheline that is NOT a value, next to look-alike controls that are: annotated data constructors of every class,
           three or more arguments (`Pair` and sequence form) over a right component that is not a pair class, strings with
           control / non-ASCII characters (newlines are fine).  Own oracle: the real verdict must be the protocol's.
  clock    `Civil.fmtTimestamp` / `Civil.parseTimestamp` / `civilFromDays` / `daysFromCivil` (the model whose round trip is
           proved) vs the real `format_timestamp`, `TimestampType` parsing and `strict_rfc3339`, on year / month / leap-day
           boundaries, midnights, the epoch, random and out-of-range instants, and ~45 spellings of the text
Property oracle on the real code: T.from_micheline_value(v.to_micheline_value(mode)) is the same value (compared
structurally through the objects; signatures by payload) for every mode, and timestamps outside years 1..9999 render
as integers in readable mode."""
import json

from harness import gen_c11 as g
from harness import mich
from translator import extract

PROP = 'C11'
MODES = [('readable', 'r'), ('optimized', 'o'), ('legacy_optimized', 'l')]
LAZY = [(None, 'n'), (False, 'f'), (True, 't')]
RFC_LO, RFC_HI = -62135596800, 253402300799


def pair_order_is_lexicographic():
    """C03's area: is PairType.__lt__ the lexicographic order?  (decides whether multi-element sets of pairs are generated)"""
    try:
        cls = g.type_class({'prim': 'pair', 'args': [{'prim': 'nat'}, {'prim': 'nat'}]})
        mkp = lambda a, b: g.build(cls, ('pair', ('int', a), ('int', b)))
        return bool(mkp(1, 5) < mkp(2, 3)) and not bool(mkp(2, 3) < mkp(1, 5)) and not bool(mkp(2, 1) < mkp(1, 9)) \
            and bool(mkp(1, 5) < mkp(1, 6)) and not bool(mkp(1, 6) < mkp(1, 5)) and not bool(mkp(1, 5) < mkp(1, 5))
    except Exception:
        return False


def faithful(t, sv, lz):
    """does to_micheline_value(mode, lazy_diff=lz) keep all the information of the value (python twin of `VC.faithful`,
    signatures aside)"""
    t = g.binarize(t)
    a = t.get('args', [])
    k = sv[0]
    if k in ('some',):
        return faithful(a[0], sv[1], lz)
    if k == 'left':
        return faithful(a[0], sv[1], lz)
    if k == 'right':
        return faithful(a[1], sv[1], lz)
    if k == 'pair':
        return faithful(a[0], sv[1], lz) and faithful(a[1], sv[2], lz)
    if k in ('list', 'set'):
        return all(faithful(a[0], x, lz) for x in sv[1])
    if k == 'map':
        return all(faithful(a[1], v, lz) for _, v in sv[1])
    if k == 'bigmap':
        lazy = (sv[1] is None) if lz is None else lz
        return (sv[1] is None) if lazy else (sv[1] is not None and not sv[2])
    if k == 'sapling':
        return (sv[1] is None) if lz is True else (sv[1] is not None)
    return True


def children(t, sv):
    t = g.binarize(t)
    a = t.get('args', [])
    k = sv[0]
    if k in ('some', 'left'):
        return [(a[0], sv[1])]
    if k == 'right':
        return [(a[1], sv[1])]
    if k == 'pair':
        return [(a[0], sv[1]), (a[1], sv[2])]
    if k in ('list', 'set'):
        return [(a[0], x) for x in sv[1]]
    if k in ('map',):
        return [(a[0], x) for x, _ in sv[1]] + [(a[1], y) for _, y in sv[1]]
    if k == 'bigmap':
        return [(a[0], x) for x, _ in sv[2]] + [(a[1], y) for _, y in sv[2]]
    if k == 'ticket':
        return [(a[0], sv[2])]
    return []


def canon_tokens(tokens, mode):
    """signatures are compared by payload: the optimized forms name them by length only"""
    out = []
    for t in tokens:
        if t.startswith('dsignature:') and mode != 'readable':
            parts = t.split(':')
            if parts[1] in ('0', '1', '2', '3'):
                parts[1] = '3'
            t = ':'.join(parts)
        out.append(t)
    return out


def roundtrip(t, sv, mode, lz):
    """(ok, detail) of the property on the real code for one value"""
    cls = g.type_class(t)
    v = g.build(cls, sv)
    try:
        m = v.to_micheline_value(mode=mode, lazy_diff=lz)
    except Exception as e:
        return False, f'to_micheline_value raises {type(e).__name__}: {str(e)[:100]}'
    try:
        back = cls.from_micheline_value(m)
    except Exception as e:
        return False, f'rendered as {json.dumps(m)[:120]}, from_micheline_value raises {type(e).__name__}: {str(e)[:100]}'
    a, b = canon_tokens(g.obj_tokens(v), mode), canon_tokens(g.obj_tokens(back), mode)
    if a != b:
        return False, f'rendered as {json.dumps(m)[:120]}, parsed back as a different value ({" ".join(b)[:120]})'
    return True, ''


def shrink(t, sv, mode, lz):
    """smallest sub-value that fails on its own"""
    for ct, csv in children(t, sv):
        if faithful(ct, csv, lz) and not roundtrip(ct, csv, mode, lz)[0]:
            return shrink(ct, csv, mode, lz)
    return t, sv


def unplaceholder(line):
    """a mutant can put base58 text at a `string`-typed leaf: the model then holds the placeholder as a plain string"""
    if ' s23' not in ' ' + line and ' S23' not in ' ' + line:
        return line
    out = []
    for tok in line.split(' '):
        if tok.startswith('s23') or tok.startswith('S23'):       # value token / Micheline token inside a lambda body
            try:
                tok = tok[0] + g.from_placeholders({'string': bytes.fromhex(tok[1:]).decode()})['string'].encode().hex()
            except Exception:
                pass
        out.append(tok)
    return ' '.join(out)


def ts_bucket(v):
    return ('before-year-1' if v < RFC_LO else 'year-1..999' if v < -30610224000 else 'year-1000..9999' if v <= RFC_HI else 'after-year-9999')


def violation_key(t, sv, mode, detail=''):
    p = t['prim']
    if "unhashable type: 'unit'" in detail:
        return f'dep-C03:unit-unhashable:{p}:{mode}'     # `unit.__hash__` is missing: check_constraints of a set / map with unit keys raises
    if sv[0] == 'ts':
        return f'timestamp-{mode}:{ts_bucket(sv[1])}'
    if sv[0] == 'dom':
        pref = g.DOM_PREFIXES[sv[1]][sv[2]]
        extra = ''
        if sv[1] == 'key_hash':
            extra = ':digest-starts-00..03' if sv[3][0] < 4 else ':digest-ends-00' if sv[3][-1] == 0 else ''
        return f'dep-C10:{p}:{pref}{extra}:{mode}'
    return f'roundtrip:{p}:{mode}'


def expected_readable_ts(v):
    """independent statement of the readable form: RFC 3339 with a four-digit year inside 0001..9999, the integer outside"""
    if RFC_LO <= v <= RFC_HI:
        days, secs = divmod(v, 86400)
        import datetime
        d = datetime.date.fromordinal(719163 + days)          # 1970-01-01 is ordinal 719163
        return {'string': '%04d-%02d-%02dT%02d:%02d:%02dZ' % (d.year, d.month, d.day, secs // 3600, secs % 3600 // 60, secs % 60)}
    return {'int': str(v)}


# ------------------------------------------------------------------------------------------------ case builders
def comb_types(n):
    """every annotation pattern of the n-1 pair nodes of a right comb of n nats (inner nodes: none / %f / :t)"""
    import itertools
    out = []
    for pat in itertools.product((0, 1), repeat=n - 1):
        t = {'prim': 'nat'}
        for depth, flag in enumerate(reversed(pat)):
            node = {'prim': 'pair', 'args': [{'prim': 'nat'}, t]}
            if flag:
                node['annots'] = [f'%f{depth}'] if depth % 2 == 0 else [f':t{depth}']
            t = node
        out.append((pat, t))
    return out


def comb_value(n):
    sv = ('int', n)
    for i in range(n - 1, 0, -1):
        sv = ('pair', ('int', i), sv)
    return sv


def alt_spellings(rng, m, depth=0):
    """other Micheline spellings of the same value, and mutants"""
    out = []
    if isinstance(m, dict) and m.get('prim') == 'Pair':
        args = m['args']
        out.append(('seq-comb', list(args)))
        if len(args) > 2:
            nested = args[-1]
            for x in reversed(args[:-1]):
                nested = {'prim': 'Pair', 'args': [x, nested]}
            out.append(('nested-comb', nested))
            out.append(('half-nested', {'prim': 'Pair', 'args': [args[0], {'prim': 'Pair', 'args': args[1:]}]}))
        out.append(('annotated-prim', dict(m, annots=['%x'])))
        out.append(('pair-1-arg', {'prim': 'Pair', 'args': args[:1]}))
        out.append(('pair-lowercase', dict(m, prim='pair')))
    elif isinstance(m, list):
        if len(m) >= 2:
            out.append(('flat-pair', {'prim': 'Pair', 'args': list(m)}))
        out.append(('seq-as-prim', {'prim': 'Unit'}))
        if m:
            out.append(('seq-drop-last', m[:-1]))
            out.append(('seq-swap', list(reversed(m))))
            out.append(('seq-dup', m + m[-1:]))
    elif isinstance(m, dict) and 'prim' in m:
        out.append(('annotated-prim', dict(m, annots=['@v', '%f'])))
        other = {'Some': 'None', 'None': 'Some', 'Left': 'Right', 'Right': 'Left', 'True': 'False', 'False': 'True', 'Unit': 'unit', 'Elt': 'Pair'}
        out.append(('other-prim', dict(m, prim=other.get(m['prim'], 'Unit'))))
        out.append(('extra-arg', dict(m, args=m.get('args', []) + [{'int': '0'}])))
        out.append(('lowercase', dict(m, prim=m['prim'].lower())))
    elif isinstance(m, dict):
        if 'int' in m:
            out += [('int-as-string', {'string': m['int']}), ('int-as-bytes', {'bytes': '00'}), ('int-negated', {'int': str(-int(m['int']) - 1)})]
        if 'string' in m:
            out += [('string-as-bytes', {'bytes': m['string'].encode().hex()}), ('string-nonascii', {'string': m['string'] + 'é'}),
                    ('string-as-int', {'int': '5'})]
        if 'bytes' in m:
            out += [('bytes-as-string', {'string': m['bytes']}), ('bytes-truncated', {'bytes': m['bytes'][:-2]}), ('bytes-extended', {'bytes': m['bytes'] + '00'})]
    # one mutant somewhere inside
    if depth < 3:
        kids = m if isinstance(m, list) else m.get('args', []) if isinstance(m, dict) else []
        if kids:
            i = rng.randrange(len(kids))
            for name, sub in alt_spellings(rng, kids[i], depth + 1)[:3]:
                new = list(kids)
                new[i] = sub
                out.append(('inner-' + name, new if isinstance(m, list) else dict(m, args=new)))
    return out


TS_STRINGS = ['1970-01-01T00:00:00Z', '0001-01-01T00:00:00Z', '0000-12-31T23:59:59Z', '0999-12-31T23:59:59Z', '999-12-31T23:59:59Z',
              '9999-12-31T23:59:59Z', '10000-01-01T00:00:00Z', '2020-02-29T12:00:00Z', '2021-02-29T12:00:00Z', '1900-02-29T00:00:00Z',
              '2000-02-29T00:00:00+01:00', '2000-02-29T00:00:00-23:59', '2000-02-29T00:00:00+24:00', '1969-12-31T23:59:59.5Z',
              '1970-01-01T00:00:00.000Z', '1970-01-01T00:00:00.Z', '1970-01-01T00:00:60Z', '1970-01-01T24:00:00Z', '1970-13-01T00:00:00Z',
              '1970-01-01t00:00:00z', '1970-01-01 00:00:00Z', '1970-01-01T00:00:00', '0', '-1', '+7', '253402300800', '-62135596801', '12a',
              '', '-', '1960-06-30T23:59:59.25-00:30', '0001-01-01T00:00:00+00:01']


def run(ctx):
    st = extract.generate(PROP)
    ctx.prepare_lean(st)
    pairs_ok = pair_order_is_lexicographic()
    ctx.extra['rule'] = ('type-directed: storable/passable types to depth 4 (all leaf types, n-ary and binary pairs with field/type annotations on '
                         'every node, or, option, list, set, map, big_map, lambda, contract, ticket, sapling_state) with values up to 4096-bit ints, '
                         'timestamps at the year boundaries 0001/0999/1000/9999/10000, negative and >= 2^63; right combs of 2..9 components in every '
                         'annotation pattern of the pair nodes; x 3 modes x lazy_diff None/False/True; parse stream adds alternative spellings and mutants. '
                         'malformed stream: 24 annotated-constructor cases x 5 annotation lists (root and nested; Unit, True, False, Some, None, Left, Right, Pair, Elt, ticket comb) '
                         '+ a random constructor node of 250 (T: 6000) rendered values; Pair / sequence with >= 3 arguments over 14 non-pair right components at four positions; '
                         '~180 strings with tab / 0x01 / 0x7f / NUL / CR / non-ASCII / newline at the root and nested; each with accepted look-alike controls. '
                         'clock stream (model of format_timestamp / strict_rfc3339 vs the real functions, and the round trip on the real code): every month start / month end '
                         '+-1 s and 28 Feb .. 1 Mar of 34 years (0001, 0004, 0100, 0400, 1000, 1582, 1600, 1900, 1970, 2000, 2038, 2100, 9999, neighbours, leap and common years), '
                         'October 1582, epoch and 2^31 / 2^32 neighbourhoods, random midnights +-1 s rendered in three different orders, 10 000 (T: 200 000) random instants '
                         '(a quarter negative), instants outside the range (integer fallback); for the instants: canonical text, and for a part of them ~45 other spellings '
                         '(lower case, fractions, offsets, trailing newline, impossible dates, one-character mutants); civilFromDays / daysFromCivil also far outside years 1..9999 '
                         'against an independent 400-year-shift reference. non-trivial = composite value, boundary timestamp, non-random clock instant, non-canonical spelling, or a mutant')
    ctx.assumptions += [
        'base58 text and optimized bytes of domain values are abstract in the theorems (laws = C09/C10); the driver uses a structured placeholder, converted with the real library at the boundary',
        'RFC 3339: the round trip parse(format(t)) = t is PROVED for the model (Civil.fmtTimestamp / Civil.parseTimestamp, all t in 0001..9999); trusted and only sampled here (clock stream): '
        'that datetime.fromtimestamp/strftime (inside format_timestamp) and strict_rfc3339 / calendar.timegm compute the same functions as the model',
        "timestamp strings: Python's `\\d` also matches non-ASCII decimal digits (not modelled, not generated); the binary-float arithmetic of a fraction (`timestamp += float('0' + frac)`, "
        "`-= offset`, `int`) IS modelled (round-to-nearest-even binary64 on rationals) and compared on fractions of 1..400 digits including the ones that round to the neighbouring second",
        'check_constraints (sorted/set over __lt__/__hash__) is abstract (C03); multi-element sets/maps are generated only for key types this harness can order independently'
        + ('' if pairs_ok else ' — pair keys excluded: PairType.__lt__ is not lexicographic on this tree (C03)'),
        'lambda bodies: Micheline.match(...).as_micheline_expr() is assumed idempotent on the generated bodies (checked here on each body)',
        'sapling_transaction / never / operation have no Micheline form in the library and are outside the model',
        "int(str) of Python is modelled for plain decimal spellings only; JSON-level spellings ('007', upper-case hex) are normalised before the AST",
    ]
    ctx.extra['pair_keys_generated'] = pairs_ok
    n_rand = 420 if ctx.tier == 'quick' else 40000
    rng = ctx.rng

    cases = []          # (label, type, sv)
    for n in range(2, 10):
        for pat, t in comb_types(n):
            cases.append((f'comb{n}', t, comb_value(n)))
        cases.append((f'comb{n}-nary', {'prim': 'pair', 'args': [{'prim': 'nat'}] * n, 'annots': ['%top']} if n > 2 else
                      {'prim': 'pair', 'args': [{'prim': 'nat'}, {'prim': 'nat'}]}, comb_value(n)))
    for v in g.TS_BOUNDARIES:
        cases.append(('ts-boundary', {'prim': 'timestamp'}, ('ts', v)))
    cases.append(('ts-nested', {'prim': 'pair', 'args': [{'prim': 'timestamp'}, {'prim': 'option', 'args': [{'prim': 'timestamp'}]}, {'prim': 'list', 'args': [{'prim': 'timestamp'}]}]},
                  ('pair', ('ts', -30610224001), ('pair', ('some', ('ts', 253402300800)), ('list', [('ts', 0), ('ts', -62135596801)])))))
    for kind_t in ['key_hash', 'address', 'signature', 'key', 'chain_id', 'tx_rollup_l2_address']:
        for force in ([0.1, 0.3, 0.47, 0.9] if ctx.tier == 'quick' else [0.1, 0.1, 0.3, 0.3, 0.47, 0.47, 0.9, 0.9]):
            cases.append(('dom', {'prim': kind_t}, g.gen_dom(rng, g.TYPE_TO_KIND[kind_t], force)))
    # unions nested 3 to 6 deep: every value is a path of Left / Right choices whose ORDER is the value (full binary trees of the same
    # leaf type, so that a permuted path still type-checks and can only be told by where it ends)
    def or_tree(d, leaf):
        return leaf if d == 0 else {'prim': 'or', 'args': [or_tree(d - 1, leaf), or_tree(d - 1, leaf)]}

    def or_value(path, leaf_v):
        v = leaf_v
        for step in reversed(path):
            v = (step, v)
        return v
    for d in (3, 4, 5, 6):
        for _ in range(6 if ctx.tier == 'quick' else 60):
            leaf_t = rng.choice([{'prim': 'nat'}, {'prim': 'string'}, {'prim': 'option', 'args': [{'prim': 'int'}]}])
            path = [rng.choice(['left', 'right']) for _ in range(d)]
            if path == path[::-1] or len(set(path[1:])) == 1:
                path[1], path[-1] = 'left', 'right'              # a path that differs from its own reverse below the root
            cases.append((f'or-depth{d}', or_tree(d, leaf_t), or_value(path, g.gen_value(rng, leaf_t, pairs_ok))))
    for i in range(n_rand):
        depth = rng.choice([1, 2, 2, 3, 3, 4])
        t = g.gen_type(rng, depth, pairs_ok=pairs_ok)
        cases.append(('random', t, g.gen_value(rng, t, pairs_ok, unfaithful=0.1)))

    # lambda bodies must be fixed points of Micheline.match(..).as_micheline_expr()
    from pytezos.michelson.micheline import Micheline
    for body in g.LAMBDA_POOL:
        try:
            same = mich.normalize(Micheline.match(body).as_micheline_expr()) == mich.normalize(body)
        except Exception:
            same = False
        ctx.obligation('harness:lambda body is a fixed point of match/as_micheline_expr', same, json.dumps(body)[:200])

    # ---------------------------------------------------------------- render stream
    lines, meta = [], []
    rendered = []      # (case index, mode, real micheline) for the parse stream
    for ci, (label, t, sv) in enumerate(cases):
        try:
            cls = g.type_class(t)
            v = g.build(cls, sv)
        except Exception as e:
            ctx.obligation('harness:generated value is constructible', False, f'{t} {sv}: {type(e).__name__}: {e}'[:300])
            continue
        toks = g.obj_tokens(v)
        if toks != g.sv_tokens(t, sv):
            ctx.mismatch('value-tokens', {'type': t}, ' '.join(toks)[:200], ' '.join(g.sv_tokens(t, sv))[:200])
        has_lazy = any(x[0] in 'Ga' for x in toks)
        for mode, mc in MODES:
            for lz, lc in (LAZY if has_lazy else LAZY[:1]):
                try:
                    m = mich.normalize(v.to_micheline_value(mode=mode, lazy_diff=lz))
                    impl = mich.to_line(g.to_placeholders(m))
                except Exception as e:
                    m, impl = None, 'err'
                lines.append(f'render {mc} {lc} ' + ' '.join(toks))
                meta.append((ci, mode, lz, impl))
                if m is not None and (lz is None or has_lazy):
                    rendered.append((ci, mode, m))
    model = ctx.model(lines)
    failing_seen = set()
    for i, (ci, mode, lz, impl) in enumerate(meta):
        label, t, sv = cases[ci]
        nontrivial = label != 'random' or sv[0] in ('pair', 'list', 'set', 'map', 'bigmap', 'some', 'left', 'right', 'ticket', 'ts', 'dom')
        ctx.case({'stream': 'render', 'label': label, 'type': t if len(json.dumps(t)) < 200 else '<large>', 'mode': mode, 'lazy_diff': lz,
                  'value': ' '.join(g.sv_tokens(t, sv))[:160]}, nontrivial=nontrivial)
        ctx.count('label', label)
        ctx.count('mode', mode)
        ctx.count('top_type', t['prim'])
        if sv[0] == 'ts':
            ctx.count('timestamp_bucket', ts_bucket(sv[1]))
        # ---- property oracle on the real code
        if faithful(t, sv, lz):
            ok, detail = roundtrip(t, sv, mode, lz)
            if not ok:
                mt, msv = shrink(t, sv, mode, lz)
                _, mdetail = roundtrip(mt, msv, mode, lz)
                key = violation_key(mt, msv, mode, mdetail)
                if (key, mode) not in failing_seen or len(failing_seen) < 40:
                    failing_seen.add((key, mode))
                    ctx.violation(key, f'{mt["prim"]} value {" ".join(g.sv_tokens(mt, msv))[:120]} in {mode} mode: {mdetail}',
                                  {'type': mt, 'value_tokens': g.sv_tokens(mt, msv), 'mode': mode, 'lazy_diff': lz,
                                   'python': f'T = MichelsonType.match({json.dumps(mt)}); v = <value>; T.from_micheline_value(v.to_micheline_value({mode!r}))'})
                continue        # a failing input is reported once, not again as a model mismatch
            if sv[0] == 'ts' and mode == 'readable' and impl != 'err':
                want = mich.to_line(expected_readable_ts(sv[1]))
                if impl != want:
                    ctx.violation(f'timestamp-readable-form:{ts_bucket(sv[1])}', f'timestamp {sv[1]} renders as {impl}, expected {want}',
                                  {'timestamp': sv[1], 'rendered': impl, 'expected': want})
        if model is not None and model[i] != impl:
            ctx.mismatch('render', {'type': t, 'value': ' '.join(g.sv_tokens(t, sv))[:300], 'mode': mode, 'lazy_diff': lz}, impl[:300], model[i][:300])

    # ---------------------------------------------------------------- parse stream
    plines, pmeta = [], []
    budget = 2500 if ctx.tier == 'quick' else 60000
    step = max(1, len(rendered) * 4 // budget)
    for ri, (ci, mode, m) in enumerate(rendered):
        label, t, sv = cases[ci]
        inputs = [('rendered-' + mode, m)]
        if ri % step == 0:
            # lambda bodies are outside the model (Micheline.match is abstract): no mutants inside them
            inputs += [x for x in alt_spellings(rng, m) if not ('"lambda"' in json.dumps(t) and x[0].startswith('inner'))][:8]
        if t['prim'] == 'timestamp' and mode == 'readable':
            inputs += [('ts-string', {'string': s}) for s in TS_STRINGS]
        cls = g.type_class(t)
        for name, mm in inputs:
            try:
                impl = ' '.join(g.obj_tokens(cls.from_micheline_value(mm)))
            except Exception:
                impl = 'err'
            try:
                line = 'parse ' + mich.to_line(t) + ' | ' + mich.to_line(g.to_placeholders(mich.normalize(mm)))
            except Exception:
                continue
            plines.append(line)
            pmeta.append((ci, name, mm, impl))
    model = ctx.model(plines)
    for i, (ci, name, mm, impl) in enumerate(pmeta):
        label, t, sv = cases[ci]
        ctx.case({'stream': 'parse', 'spelling': name, 'type': t if len(json.dumps(t)) < 200 else '<large>', 'micheline': json.dumps(mm)[:200]}, nontrivial=True)
        ctx.count('spelling', name.split('-')[0] if name.startswith('inner') else name)
        ctx.count('parse_verdict', 'err' if impl == 'err' else 'ok')
        if model is not None and unplaceholder(model[i]) != impl:
            ctx.mismatch('parse', {'type': t, 'spelling': name, 'micheline': json.dumps(mm)[:300]}, impl[:300], model[i][:300])

    # ---------------------------------------------------------------- malformed values
    run_malformed(ctx, cases, rendered)

    # ---------------------------------------------------------------- clock stream
    run_clock(ctx, st)


ANNOT_SETS = [['%a'], [':t'], ['@v'], ['%a', ':t'], ['']]


def printable(s):
    """independent statement of the protocol's rule for a Michelson string: printable ASCII and newlines"""
    return all(ch == '\n' or 0x20 <= ord(ch) <= 0x7e for ch in s)


def _prim_paths(m, path=()):
    """paths of the nodes `{'prim': …}` of a Micheline value"""
    out = []
    if isinstance(m, list):
        for i, x in enumerate(m):
            out += _prim_paths(x, path + (i,))
    elif isinstance(m, dict) and 'prim' in m:
        out.append(path)
        for i, x in enumerate(m.get('args', [])):
            out += _prim_paths(x, path + (i,))
    return out


def _annotate_at(m, path, annots):
    if not path:
        return dict(m, annots=list(annots))
    if isinstance(m, list):
        return [(_annotate_at(x, path[1:], annots) if i == path[0] else x) for i, x in enumerate(m)]
    return dict(m, args=[(_annotate_at(x, path[1:], annots) if i == path[0] else x) for i, x in enumerate(m['args'])])


def _node_at(m, path):
    for i in path:
        m = m[i] if isinstance(m, list) else m['args'][i]
    return m


def malformed_cases(ctx, cases, rendered):
    """(group, key, type, Micheline, accepted?) — the last component is the oracle: what the protocol's typed reader says"""
    rng = ctx.rng
    quick = ctx.tier == 'quick'
    T = lambda p, *a, **k: dict({'prim': p}, **({'args': list(a)} if a else {}), **k)
    I = lambda n: {'int': str(n)}
    P = lambda p, *a: dict({'prim': p}, **({'args': list(a)} if a else {}))
    nat, int_, string, unit, bool_ = T('nat'), T('int'), T('string'), T('unit'), T('bool')
    addr = g.dom_text('address', 0, bytes(range(20)), b'')
    out = []

    # ---- (1) a data constructor that carries annotations, every class that has constructors; the bare node is the control
    fixed = [
        ('Unit', unit, P('Unit'), ()), ('True', bool_, P('True'), ()), ('False', bool_, P('False'), ()),
        ('Some', T('option', nat), P('Some', I(5)), ()), ('None', T('option', nat), P('None'), ()),
        ('Left', T('or', nat, string), P('Left', I(1)), ()), ('Right', T('or', nat, string), P('Right', {'string': 'r'}), ()),
        ('Pair', T('pair', nat, nat), P('Pair', I(1), I(2)), ()),
        ('Pair', T('pair', nat, nat, nat), P('Pair', I(1), I(2), I(3)), ()),
        ('Pair', T('pair', nat, nat, nat), P('Pair', I(1), P('Pair', I(2), I(3))), (1,)),
        ('Pair', T('pair', nat, nat, nat, nat), [I(1), I(2), P('Pair', I(3), I(4))], (2,)),
        ('Pair', T('pair', T('pair', nat, nat, annots=['%l']), nat), P('Pair', P('Pair', I(1), I(2)), I(3)), (0,)),
        ('Elt', T('map', nat, nat), [P('Elt', I(1), I(2))], (0,)),
        ('Elt', T('map', nat, nat), [P('Elt', I(1), I(2)), P('Elt', I(3), I(4))], (1,)),
        ('Elt', T('big_map', nat, nat), [P('Elt', I(1), I(2))], (0,)),
        ('Some', T('list', T('option', nat)), [P('None'), P('Some', I(1))], (1,)),
        ('Unit', T('set', unit), [P('Unit')], (0,)),
        ('True', T('map', bool_, unit), [P('Elt', P('True'), P('Unit'))], (0, 0)),
        ('Unit', T('map', bool_, unit), [P('Elt', P('True'), P('Unit'))], (0, 1)),
        ('Left', T('option', T('or', unit, unit)), P('Some', P('Left', P('Unit'))), (0,)),
        ('Unit', T('option', T('or', unit, unit)), P('Some', P('Left', P('Unit'))), (0, 0)),
        ('Pair', T('ticket', nat), P('Pair', {'string': addr}, I(5), I(3)), ()),
        ('Pair', T('ticket', nat), P('Pair', {'string': addr}, P('Pair', I(5), I(3))), (1,)),
        ('Some', T('pair', nat, T('option', nat)), P('Pair', I(1), P('Some', I(2))), (1,)),
    ]
    for prim, t, m, path in fixed:
        out.append(('annotated-control', f'bare:{prim}', t, m, True))
        out.append(('annotated-control', f'empty-annots:{prim}', t, _annotate_at(m, path, []), True))
        for an in ANNOT_SETS:
            out.append(('annotated', f'annotated-constructor:{prim}', t, _annotate_at(m, path, an), False))
    # … and on a random constructor node of the values the render stream produced (no lambda below the type: the nodes of a
    # lambda body are instructions, which may carry annotations)
    pool = [(ci, mode, m) for ci, mode, m in rendered if '"lambda"' not in json.dumps(cases[ci][1]) and _prim_paths(m)]
    for ci, mode, m in (rng.sample(pool, min(len(pool), 250 if quick else 6000)) if pool else []):
        path = rng.choice(_prim_paths(m))
        an = rng.choice(ANNOT_SETS)
        out.append(('annotated', f'annotated-constructor:{_node_at(m, path)["prim"]}', cases[ci][1], _annotate_at(m, path, an), False))

    # ---- (2) three or more arguments over a right component that is not a pair class
    def rights():
        a, b, c, d = sorted(rng.sample(range(0, 1000), 4))
        return [
            ('list', T('list', int_), [I(-a), I(b), I(c)], [I(-a), I(b), I(c)]),
            ('list', T('list', nat), [I(a), I(b)], [I(a), I(b)]),
            ('set', T('set', nat), [I(a), I(b), I(c)], [I(a), I(b), I(c)]),
            ('map', T('map', nat, nat), [P('Elt', I(a), I(b)), P('Elt', I(c), I(d))], [P('Elt', I(a), I(b)), P('Elt', I(c), I(d))]),
            ('big_map', T('big_map', nat, nat), [P('Elt', I(a), I(b)), P('Elt', I(c), I(d))], [P('Elt', I(a), I(b)), P('Elt', I(c), I(d))]),
            ('option', T('option', nat), [I(a), I(b)], P('Some', I(a))),
            ('option', T('option', T('pair', nat, nat)), [I(a), I(b)], P('Some', P('Pair', I(a), I(b)))),
            ('or', T('or', nat, nat), [I(a), I(b)], P('Left', I(a))),
            ('nat', nat, [I(a), I(b)], I(a)),
            ('string', string, [{'string': 'x'}, {'string': 'y'}, {'string': 'z'}], {'string': 'x'}),
            ('unit', unit, [P('Unit'), P('Unit')], P('Unit')),
            ('lambda', T('lambda', unit, unit), [[], []], []),
            ('ticket', T('ticket', nat), [{'string': addr}, I(a), I(b)], P('Pair', {'string': addr}, I(a), I(b))),
            ('list', T('list', T('pair', nat, nat)), [P('Pair', I(a), I(b)), P('Pair', I(c), I(d))], [P('Pair', I(a), I(b)), P('Pair', I(c), I(d))]),
        ]
    for _ in range(2 if quick else 40):
        for name, rt, items, proper in rights():
            x = I(rng.randrange(0, 100))
            t = T('pair', nat, rt)
            out.append(('nary-control', f'two-args:{name}', t, P('Pair', x, proper), True))
            out.append(('nary-control', f'two-args-seq:{name}', t, [x, proper], True))
            out.append(('nary', f'nary-pair:{name}', t, P('Pair', x, *items), False))
            out.append(('nary', f'nary-seq:{name}', t, [x] + items, False))
            # below another constructor, and as the inner pair of a longer comb
            out.append(('nary', f'nary-pair:{name}', T('or', t, unit), P('Left', P('Pair', x, *items)), False))
            out.append(('nary', f'nary-pair:{name}', T('pair', t, nat), P('Pair', P('Pair', x, *items), I(7)), False))
            out.append(('nary', f'nary-seq:{name}', T('pair', nat, nat, rt), P('Pair', I(0), [x] + items), False))
            out.append(('nary', f'nary-pair:{name}', T('pair', nat, nat, rt), P('Pair', I(0), x, *items), False))
    # the n-ary forms over a pair class (annotated or not) stay values
    for rt in [T('pair', nat, nat), T('pair', nat, nat, annots=['%r']), T('pair', nat, nat, annots=[':r'])]:
        t = T('pair', nat, rt)
        for m in [P('Pair', I(1), I(2), I(3)), [I(1), I(2), I(3)], P('Pair', I(1), P('Pair', I(2), I(3))), P('Pair', I(1), [I(2), I(3)])]:
            out.append(('nary-control', 'nary-over-pair', t, m, True))
    out.append(('nary-control', 'nary-over-pair', T('pair', nat, nat, nat, T('list', nat)), P('Pair', I(1), I(2), I(3), [I(4), I(5)]), True))
    out.append(('nary', 'nary-pair:list', T('pair', nat, nat, nat, T('list', nat)), P('Pair', I(1), I(2), I(3), I(4), I(5)), False))
    out.append(('nary', 'nary-seq:list', T('pair', nat, nat, nat, T('list', nat)), [I(1), I(2), I(3), I(4), I(5)], False))

    # ---- (2b) sets / maps / big_map literals of 3..6 elements: strictly ascending keys only — the first element may well be the minimum
    # while a LATER neighbour pair is swapped or repeated
    for _ in range(8 if quick else 200):
        n = rng.choice([3, 3, 4, 5, 6])
        ks = sorted(rng.sample(range(0, 200), n))
        kind = rng.choice(['nat', 'string', 'pair'])
        key = {'nat': lambda k: I(k), 'string': lambda k: {'string': 'k%03d' % k}, 'pair': lambda k: P('Pair', I(k // 10), I(k % 10))}[kind]
        kt = {'nat': nat, 'string': string, 'pair': T('pair', nat, nat)}[kind]
        j = rng.randrange(1, n - 1)
        swapped = ks[:j] + [ks[j + 1], ks[j]] + ks[j + 2:]
        dup = ks[:j + 1] + [ks[j]] + ks[j + 1:]
        for label, seq, ok in (('sorted', ks, True), ('later-pair-swapped', swapped, False), ('later-element-repeated', dup, False),
                               ('reversed', ks[::-1], False)):
            grp = 'collection-order-control' if ok else 'collection-order'
            out.append((grp, f'set:{label}:{kind}', T('set', kt), [key(k) for k in seq], ok))
            out.append((grp, f'map:{label}:{kind}', T('map', kt, nat), [P('Elt', key(k), I(i)) for i, k in enumerate(seq)], ok))
            out.append((grp, f'big_map:{label}:{kind}', T('pair', nat, T('big_map', kt, nat)), P('Pair', I(0), [P('Elt', key(k), I(i)) for i, k in enumerate(seq)]), ok))

    # ---- (3) strings: printable ASCII and newlines only
    strs = ['a\tb', '\x01', '\x7f', 'a\nb', '\n', '\r\n', '\r', '\x00', 'ab\x00', '\x1f', '\x0b', '\x0c', '\x1b[0m', ' ', '~', ' ~', '', 'plain',
            'line 1\nline 2\n', '\t', 'é', '\x80', '\x7f\n', '\n\x1f', '"', '\\', '\u2028', '\x85']
    alphabet = [chr(c) for c in range(0, 0x80)] + ['\n'] * 6 + ['\x80', 'é', '\u2028']
    for _ in range(150 if quick else 4000):
        n = rng.choice([1, 1, 2, 3, 8])
        strs.append(''.join(rng.choice(alphabet) if rng.random() < 0.3 else rng.choice('abc XYZ~09\n') for _ in range(n)))
    for x in strs:
        cls = 'newline' if '\n' in x and printable(x) else 'printable' if printable(x) else 'non-ascii' if any(ord(ch) > 0x7f for ch in x) else 'control-char'
        grp = 'string' if not printable(x) else 'string-control'
        out.append((grp, f'string:{cls}', string, {'string': x}, printable(x)))
    for x in ['a\tb', '\x01', '\x7f', 'a\nb']:
        ok = printable(x)
        grp = 'string' if not ok else 'string-control'
        cls = 'newline' if ok else 'control-char'
        out.append((grp, f'string:{cls}', T('option', string), P('Some', {'string': x}), ok))
        out.append((grp, f'string:{cls}', T('list', string), [{'string': 'a'}, {'string': x}], ok))
        out.append((grp, f'string:{cls}', T('map', string, string), [P('Elt', {'string': x}, {'string': 'v'})], ok))
        out.append((grp, f'string:{cls}', T('map', string, string), [P('Elt', {'string': 'k'}, {'string': x})], ok))
        out.append((grp, f'string:{cls}', T('pair', nat, string, nat), P('Pair', I(1), {'string': x}, I(2)), ok))
        out.append((grp, f'string:{cls}', T('or', string, nat), P('Left', {'string': x}), ok))
    return out


def run_malformed(ctx, cases, rendered):
    """Micheline that is NOT a value (and look-alike controls that are): annotated data constructors of every class, three or
    more arguments over a right component that is not a pair class, strings with control characters.  The verdict of the real
    `from_micheline_value` must be the oracle's (the protocol's typed reader: rejected; a newline inside a string is fine) and
    its output must be the model's."""
    rows = malformed_cases(ctx, cases, rendered)
    lines, meta = [], []
    for grp, key, t, mm, accepted in rows:
        cls = g.type_class(t)
        try:
            impl = ' '.join(g.obj_tokens(cls.from_micheline_value(mm)))
        except Exception:
            impl = 'err'
        lines.append('parse ' + mich.to_line(t) + ' | ' + mich.to_line(g.to_placeholders(mich.normalize(mm))))
        meta.append((grp, key, t, mm, accepted, impl))
    model = ctx.model(lines)
    reported = set()
    for i, (grp, key, t, mm, accepted, impl) in enumerate(meta):
        desc = {'stream': 'malformed', 'group': grp, 'type': t if len(json.dumps(t)) < 200 else '<large>', 'micheline': json.dumps(mm)[:200]}
        ctx.case(desc, nontrivial=True)
        ctx.count('malformed_group', grp)
        ctx.count('malformed_verdict', ('accepted' if impl != 'err' else 'rejected') + ('' if (impl != 'err') == accepted else ' (oracle disagrees)'))
        if (impl != 'err') != accepted:
            k = 'malformed:' + key
            if k not in reported:
                reported.add(k)
                ctx.violation(k, f'{json.dumps(t)[:120]}.from_micheline_value({json.dumps(mm)[:160]}) is '
                                 + ('accepted' if impl != 'err' else 'rejected') + f' (read as {impl[:80]}); the protocol '
                                 + ('accepts' if accepted else 'rejects') + ' it',
                              {'type': t, 'micheline': mm, 'expected': 'accepted' if accepted else 'rejected', 'observed': impl[:300],
                               'python': f'MichelsonType.match({json.dumps(t)}).from_micheline_value({json.dumps(mm)})'})
            continue        # reported as a failing input, not again as a model mismatch
        if model is not None and unplaceholder(model[i]) != impl:
            ctx.mismatch('malformed', {'type': t, 'group': grp, 'micheline': json.dumps(mm)[:300]}, impl[:300], model[i][:300])


def run_clock(ctx, st):
    """`Civil.fmtTimestamp` / `Civil.parseTimestamp` / `civilFromDays` / `daysFromCivil` (the model the theorems are
    about) against the real `format_timestamp`, `TimestampType` and `strict_rfc3339`, and the property on the real code
    for every instant of the stream.  The real functions are called in stream order inside this one process."""
    import strict_rfc3339
    from pytezos.michelson.format import format_timestamp
    rng = ctx.rng
    quick = ctx.tier == 'quick'
    TS = g.type_class({'prim': 'timestamp'})
    instants = g.clock_instants(rng, 10000 if quick else 200000, 150 if quick else 3000)

    def real_parse(s):
        try:
            return str(TS.from_micheline_value({'string': s}).value)
        except Exception:
            return 'err'

    def lib_parse(s):
        try:
            return str(int(strict_rfc3339.rfc3339_to_timestamp(s)))
        except strict_rfc3339.InvalidRFC3339Error:
            return 'none'

    # ---- rendering, in stream order
    rows = []
    for label, t in instants:
        try:
            text = format_timestamp(t)
        except Exception:
            text = 'err'
        try:
            m = mich.normalize(TS.from_value(t).to_micheline_value(mode='readable'))
        except Exception as e:
            m = 'raises ' + type(e).__name__
        back = None
        if isinstance(m, dict):
            try:
                back = TS.from_micheline_value(m).value
            except Exception as e:
                back = 'raises ' + type(e).__name__
        rows.append((label, t, text, m, back))
    # one driver run for the whole stream (its start-up dominates on a busy machine)
    inside = [(label, t) for label, t in instants if RFC_LO <= t <= RFC_HI]
    n_rich = 220 if quick else 6000
    step = max(1, len(inside) // n_rich)
    strings = [('fixed', s) for s in TS_STRINGS]
    for i, (label, t) in enumerate(inside):
        strings += [(lab, s) for lab, s in g.clock_spellings(rng, t, i % step == 0)]
    zs = [z for _, t in instants[::7] for z in [t // 86400]] + [rng.randrange(-10 ** 7, 10 ** 7) for _ in range(500 if quick else 20000)] \
        + [rng.randrange(-10 ** 12, 10 ** 12) for _ in range(100 if quick else 2000)] + [-719468, -719469, -719467, 0, -1, 146097 - 719468, 146096 - 719468]
    dates = []
    for _ in range(600 if quick else 20000):
        y = rng.choice([rng.randrange(-5000, 15000), rng.choice(g.CLOCK_YEARS), rng.choice([0, -1, -4, -100, -400, 10000, 10400])])
        mth = rng.randrange(0, 14)
        d = rng.choice([0, 1, 2, 27, 28, 29, 30, 31, 32, rng.randrange(1, 29)])
        dates.append((y, mth, d))
    ty = mich.to_line({'prim': 'timestamp'})
    blocks = [[f'fmt {t}' for _, t, _, _, _ in rows],
              ['tsparse ' + (s.encode().hex() or '-') for _, s in strings],
              [f'parse {ty} | ' + mich.to_line({'string': s}) for _, s in strings],
              [f'civil {z}' for z in zs],
              [f'days {y} {mth} {d}' for y, mth, d in dates]]
    out = ctx.model([ln for b in blocks for ln in b])
    models, pos = [], 0
    for b in blocks:
        models.append(None if out is None else out[pos:pos + len(b)])
        pos += len(b)
    fmt_model, tsparse_model, parse_model, civil_model, days_model = models
    reported = set()
    for i, (label, t, text, m, back) in enumerate(rows):
        inside = RFC_LO <= t <= RFC_HI
        ctx.case({'stream': 'clock', 'instant': t}, nontrivial=not label.startswith('random'))
        ctx.count('clock_instants', label.split(':')[0] + (':' + label.split(':')[1] if label.split(':')[0] in ('random', 'outside', 'midnight', 'feb') else ''))
        want = {'string': g.canon_ts(t)} if inside else {'int': str(t)}
        bucket = ts_bucket(t)
        if m != want:
            key = f'timestamp-readable-form:{bucket}'
            if key not in reported:
                reported.add(key)
                prev = [x[1] for x in rows[max(0, i - 3):i]]
                ctx.violation(key, f'timestamp {t} renders in readable mode as {json.dumps(m)}, expected {json.dumps(want)} (instants rendered just before in this process: {prev})',
                              {'timestamp': t, 'rendered': m, 'expected': want, 'rendered_before': prev,
                               'python': f'[TimestampType.from_value(x).to_micheline_value("readable") for x in {prev + [t]}]'})
        elif back != t:
            key = f'timestamp-readable:{bucket}'
            if key not in reported:
                reported.add(key)
                ctx.violation(key, f'timestamp {t} renders as {json.dumps(m)} and parses back as {back}', {'timestamp': t, 'rendered': m, 'parsed_back': back})
        elif inside and text != want['string']:
            key = f'format_timestamp:{bucket}'
            if key not in reported:
                reported.add(key)
                ctx.violation(key, f'format_timestamp({t}) = {text!r}, expected {want["string"]!r}', {'timestamp': t, 'text': text, 'expected': want['string']})
        if fmt_model is not None and fmt_model[i] != text:
            ctx.mismatch('clock:fmt', {'instant': t, 'label': label}, text, fmt_model[i])

    # ---- parsing: canonical text of every instant, the other spellings for a part of them
    for i, (lab, s) in enumerate(strings):
        ctx.case({'stream': 'clock-parse', 'string': s}, nontrivial=lab != 'canonical')
        ctx.count('clock_spelling', lab)
        lib, real = lib_parse(s), real_parse(s)
        ctx.count('clock_parse_verdict', 'rfc3339' if lib != 'none' else ('int' if real != 'err' else 'rejected'))
        if tsparse_model is not None:
            if tsparse_model[i] != lib:
                ctx.mismatch('clock:tsparse', {'spelling': lab, 'string': s}, lib, tsparse_model[i])
            got = parse_model[i]
            got = got[1:] if got.startswith('m') else got
            if got != real:
                ctx.mismatch('clock:parse', {'spelling': lab, 'string': s}, real, got)

    # ---- the date algorithms themselves, also far outside the years `datetime` knows
    if civil_model is not None:
        for z, got in zip(zs, civil_model):
            ctx.case({'stream': 'clock-civil', 'day': z}, nontrivial=False)
            want = '%d %d %d' % g.civil_of_days(z)
            if got != want:
                ctx.mismatch('clock:civilFromDays', z, want, got)
        for (y, mth, d), got in zip(dates, days_model):
            ctx.case({'stream': 'clock-days', 'date': [y, mth, d]}, nontrivial=False)
            valid = 1 <= mth <= 12 and 1 <= d <= g.month_len(y, mth)
            want = str(g.days_of_any(y, mth, d)) if valid else 'invalid'
            ctx.count('clock_dates', 'valid' if valid else 'invalid')
            if got != want:
                ctx.mismatch('clock:daysFromCivil', [y, mth, d], want, got)
