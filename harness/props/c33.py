"""C33 — global constants (context/impl.py, contract/interface.py).

Registries of up to 6 constants are built bottom-up (constant i may refer to constants j < i, so the reference graph is
a random DAG; the key of each is computed here with hashlib + base58 + a small independent Micheline forger, NOT with
pytezos) and registered through the real `ExecutionContext.register_global_constant`.  Scripts (parameter / storage /
code, <= 60 nodes) carry references in type, code and data positions, also under annotated parents; some refer to
hashes that were never registered (directly, through a constant, or only from an unreachable constant).
Both public paths are driven: `ExecutionContext.resolve_global_constants(script)` and
`ContractInterface.from_micheline(script, context)`.

* oracle (the property's own statement): iterate one-step substitution until nothing changes; no `constant` node may
  remain; anything else must be untouched; unknown reachable hash => the call must raise.  Also: the registry key
  equals the independent `expr` hash, and neither the script object nor the registered expressions are mutated.
* model: the registrations are replayed in the model — `Impl.Constants.register` computes every key itself (C05 forger,
  executable Lean BLAKE2b-256, Base58Check with the Lean SHA-256: the full `expr…` text) — and `Impl.Constants.resolve` runs
  on THAT registry; outputs diffed (expanded tree, or which error / which hash the KeyError names).  A wrong key on either
  side shows as an `unknown …` on one side only.  A `K` stream compares the key of every distinct registered expression.
A few malformed `constant` nodes (annotated, extra or missing arguments) and a cyclic registry (made by writing into
`global_constants` directly) are mirror-only cases: the property does not speak about them.
"""
import copy
import hashlib
import re

from harness import mich
from translator import extract

PROP = 'C33'

EXPR_PREFIX = bytes([13, 44, 64, 27])   # base58check prefix of `expr…` (Tezos Script_expr_hash)

# expr hashes recorded outside this harness: Tezos documentation example (`999`) and the repository's own test
KNOWN_KEYS = [
    ({'int': '999'}, 'expruQN5r2umbZVHy6WynYM8f71F8zS4AERz9bugF8UkPBEqrHLuU8'),
    ({'prim': 'unit'}, 'exprvKFFbc7SnPjkPZgyhaHewQhmrouNjNae3DpsQ8KuADn9i2WuJ8'),
    ({'prim': 'int'}, 'expruu5BTdW7ajqJ9XPTF3kgcV78pRiaBW3Gq31mgp3WSYjjUBYxre'),
    ({'int': '12345'}, 'exprtrpoeDzM3su4bwEdzXewTxXjXbiCBu2bxtMKWk5k2eW2Rqod86'),
]


# ---- independent key computation --------------------------------------------------------------------------------------
def _zarith(v):
    sign, v = (0x40, -v) if v < 0 else (0, v)
    first = v & 0x3f
    v >>= 6
    out = [first | sign | (0x80 if v else 0)]
    while v:
        b = v & 0x7f
        v >>= 7
        out.append(b | (0x80 if v else 0))
    return bytes(out)


def _arr(b):
    return len(b).to_bytes(4, 'big') + b


def forge(m, tags):
    """binary Micheline (Tezos `Micheline_encoding`), written from the format description"""
    if isinstance(m, list):
        return b'\x02' + _arr(b''.join(forge(x, tags) for x in m))
    if 'int' in m:
        return b'\x00' + _zarith(int(m['int']))
    if 'string' in m:
        return b'\x01' + _arr(m['string'].encode())
    if 'bytes' in m:
        return b'\x0a' + _arr(bytes.fromhex(m['bytes']))
    args, annots = m.get('args', []), m.get('annots', [])
    body = bytes([tags[m['prim']]])
    ann = _arr(' '.join(annots).encode())
    if len(args) <= 2:
        tag = 3 + 2 * len(args) + (1 if annots else 0)
        return bytes([tag]) + body + b''.join(forge(a, tags) for a in args) + (ann if annots else b'')
    return b'\x09' + body + _arr(b''.join(forge(a, tags) for a in args)) + ann


def expr_key(m, tags):
    import base58
    return base58.b58encode_check(EXPR_PREFIX + hashlib.blake2b(forge(m, tags), digest_size=32).digest()).decode()


def prim_tag_table():
    from pytezos.michelson.tags import prim_tags
    return {k: (v[0] if isinstance(v, (bytes, bytearray)) else int(v)) for k, v in prim_tags.items()}


# ---- the property's own statement ---------------------------------------------------------------------------------------
def ref_hash(node):
    """hash named by a well-formed reference `constant "<hash>"`, else None"""
    if isinstance(node, dict) and node.get('prim') == 'constant' and not node.get('annots'):
        a = node.get('args', [])
        if len(a) == 1 and isinstance(a[0], dict) and set(a[0]) == {'string'}:
            return a[0]['string']
    return None


def subst1(reg, e):
    if isinstance(e, list):
        return [subst1(reg, x) for x in e]
    h = ref_hash(e)
    if h is not None:
        return copy.deepcopy(reg[h]) if h in reg else e
    if isinstance(e, dict) and e.get('args') and e.get('prim') != 'constant':
        return {**e, 'args': [subst1(reg, x) for x in e['args']]}
    return e


def has_constant(e):
    if isinstance(e, list):
        return any(has_constant(x) for x in e)
    return isinstance(e, dict) and 'prim' in e and (e['prim'] == 'constant' or any(has_constant(x) for x in e.get('args', [])))


def spec_expand(reg, e):
    """('ok', tree) after at most len(reg)+1 rounds of one-step substitution, ('error',) if a reference survives"""
    for _ in range(len(reg) + 1):
        e2 = subst1(reg, e)
        if e2 == e:
            break
        e = e2
    return ('error',) if has_constant(e) else ('ok', e)


# ---- the real code -------------------------------------------------------------------------------------------------------
def make_context(regs):
    """regs: list of (explicit_key | None, value); None = through register_global_constant"""
    from pytezos.context.impl import ExecutionContext
    ctx = ExecutionContext()
    pending = []
    for key, value in regs:
        if key is None:
            try:
                ctx.register_global_constant(value)
            except Exception:      # noqa: BLE001 — an implementation may insist on registering referenced constants first (the chain does)
                pending.append(value)
        else:
            ctx.global_constants[key] = value
    # the registered SET is what the property is about: retry in dependency order; what is refused even then (a reference to a
    # hash that is not registered at all) is left out and counted
    progress = True
    while pending and progress:
        progress, rest = False, []
        for value in pending:
            try:
                ctx.register_global_constant(value)
                progress = True
            except Exception:      # noqa: BLE001
                rest.append(value)
        pending = rest
    ctx.verif_refused = pending
    return ctx


def classify(exc):
    if isinstance(exc, KeyError):
        m = re.search(r'Constant (\S+) is not defined', str(exc.args[0]) if exc.args else '')
        return 'unknown ' + (m.group(1).encode().hex() if m else '?')
    if isinstance(exc, (ValueError, TypeError)):
        return 'bad-constant'
    if isinstance(exc, RecursionError):
        return 'recursion'
    raise exc


def run_direct(ctx, script):
    try:
        return 'ok ' + mich.to_line(ctx.resolve_global_constants(script))
    except (KeyError, ValueError, TypeError, RecursionError) as e:
        return classify(e)


def run_interface(ctx, script):
    """-> (line protocol result, to_micheline() or None)"""
    from pytezos.contract.interface import ContractInterface
    try:
        ci = ContractInterface.from_micheline(script, ctx)
    except (KeyError, ValueError, TypeError, RecursionError) as e:
        return classify(e), None
    except Exception as e:    # e.g. the matcher meeting a `constant` node that was left in place
        return f'raised {type(e).__name__}: {str(e.args[-1] if e.args else "")[:120]}', None
    return 'ok ' + mich.to_line(ci.context.script['code']), ci.to_micheline()


# ---- generators --------------------------------------------------------------------------------------------------------
SIMPLE = ['unit', 'nat', 'int', 'string', 'bytes', 'bool', 'mutez', 'address']


class Gen:
    def __init__(self, rng, consts, p_ref):
        self.rng, self.consts, self.p_ref = rng, consts, p_ref     # consts: list of dicts(kind, key, value)
        self.positions = set()

    def ref(self, kind, pos):
        cands = [c for c in self.consts if c['kind'] == kind]
        if cands and self.rng.random() < self.p_ref:
            self.positions.add(pos)
            return {'prim': 'constant', 'args': [{'string': self.rng.choice(cands)['key']}]}
        return None

    def typ(self, d, field=False):
        r = self.ref('type', 'type')
        if r is not None:
            return r
        rng = self.rng
        ann = []
        if rng.random() < 0.2:
            ann.append(':t%d' % rng.randrange(9))
        if field and rng.random() < 0.5:
            ann.append('%%f%d' % rng.randrange(9))
        if d <= 0 or rng.random() < 0.35:
            t = {'prim': rng.choice(SIMPLE)}
        else:
            k = rng.choice(['pair', 'pair', 'or', 'option', 'list', 'map', 'lambda'])
            if k in ('pair', 'or'):
                t = {'prim': k, 'args': [self.typ(d - 1, True), self.typ(d - 1, True)]}
            elif k in ('option', 'list'):
                t = {'prim': k, 'args': [self.typ(d - 1)]}
            elif k == 'map':
                t = {'prim': 'map', 'args': [{'prim': rng.choice(['nat', 'string', 'int'])}, self.typ(d - 1)]}
            else:
                t = {'prim': 'lambda', 'args': [self.typ(d - 1), self.typ(d - 1)]}
        if ann:
            t['annots'] = ann
        return t

    def data(self, d):
        r = self.ref('data', 'data')
        if r is not None:
            return r
        rng = self.rng
        k = rng.randrange(9 if d > 0 else 4)
        if k == 0:
            return {'int': str(rng.choice([0, 1, -1, 7, 2 ** 70, -64]))}
        if k == 1:
            return {'string': rng.choice(['', 'hello', 'tz1', 'héllo'])}
        if k == 2:
            return {'bytes': rng.choice(['', '00', 'deadbeef'])}
        if k == 3:
            return {'prim': rng.choice(['Unit', 'True', 'False', 'None'])}
        if k == 4:
            return {'prim': 'Pair', 'args': [self.data(d - 1), self.data(d - 1)]}
        if k == 5:
            return {'prim': rng.choice(['Left', 'Right', 'Some']), 'args': [self.data(d - 1)]}
        if k == 6:
            return [self.data(d - 1) for _ in range(rng.randrange(0, 3))]
        if k == 7:
            return [{'prim': 'Elt', 'args': [{'int': str(i)}, self.data(d - 1)]} for i in range(rng.randrange(0, 3))]
        return self.code(d - 1)

    def instr(self, d):
        r = self.ref('instr', 'code')
        if r is not None:
            return r
        rng = self.rng
        k = rng.randrange(15 if d > 0 else 6)
        if k == 12:
            # the rarely used instructions that carry types / code / a whole script of their own
            j = rng.randrange(6)
            if j == 0:
                return {'prim': 'CREATE_CONTRACT', 'args': [[{'prim': 'parameter', 'args': [self.typ(1)]}, {'prim': 'storage', 'args': [self.typ(1)]},
                                                             {'prim': 'code', 'args': [self.code(d - 1)]}]]}
            if j == 1:
                return {'prim': 'LAMBDA_REC', 'args': [self.typ(1), self.typ(1), self.code(d - 1)]}
            if j == 2:
                return {'prim': rng.choice(['EMPTY_MAP', 'EMPTY_BIG_MAP']), 'args': [{'prim': rng.choice(['nat', 'string'])}, self.typ(1)]}
            if j == 3:
                return {'prim': rng.choice(['CONTRACT', 'CAST', 'UNPACK', 'EMPTY_SET', 'EMIT']), 'args': [self.typ(1) if rng.random() < 0.8 else {'prim': 'nat'}]}
            if j == 4:
                return {'prim': 'VIEW', 'args': [{'string': 'v%d' % rng.randrange(5)}, self.typ(1)]}
            return {'prim': 'DIP', 'args': [{'int': str(rng.randrange(0, 3))}, self.code(d - 1)]}
        if k == 13:
            return {'prim': 'LOOP_LEFT', 'args': [self.code(d - 1)]}
        if k == 14:
            return {'prim': 'CREATE_CONTRACT', 'args': [[{'prim': 'parameter', 'args': [self.typ(1)]}, {'prim': 'storage', 'args': [self.typ(1)]},
                                                         {'prim': 'code', 'args': [self.code(d - 1)]}]]}
        if k < 3:
            i = {'prim': rng.choice(['DROP', 'DUP', 'SWAP', 'UNIT', 'PAIR', 'CAR', 'CDR', 'ADD', 'SOME'])}
            if rng.random() < 0.2 and i['prim'] in ('DUP', 'UNIT', 'PAIR', 'CAR', 'CDR', 'ADD', 'SOME'):
                i['annots'] = ['@v%d' % rng.randrange(9)]
            return i
        if k in (3, 4):
            return {'prim': 'PUSH', 'args': [self.typ(1), self.data(1)]}
        if k == 5:
            return {'prim': rng.choice(['NIL', 'NONE', 'LEFT', 'RIGHT']), 'args': [self.typ(1)]}
        if k == 6:
            return {'prim': 'DIP', 'args': [self.code(d - 1)]}
        if k == 7:
            return {'prim': rng.choice(['IF', 'IF_NONE', 'IF_LEFT', 'IF_CONS']), 'args': [self.code(d - 1), self.code(d - 1)]}
        if k == 8:
            return {'prim': rng.choice(['LOOP', 'ITER', 'MAP']), 'args': [self.code(d - 1)]}
        if k == 9:
            return {'prim': 'LAMBDA', 'args': [self.typ(1), self.typ(1), self.code(d - 1)], **({'annots': ['@l']} if rng.random() < 0.3 else {})}
        if k == 10:
            return {'prim': 'PUSH', 'args': [self.typ(2), self.data(2)], **({'annots': ['@p']} if rng.random() < 0.3 else {})}
        return self.code(d - 1)          # nested block

    def code(self, d):
        r = self.ref('seq', 'code')
        if r is not None:
            return r
        return [self.instr(d) for _ in range(self.rng.randrange(0, 4))]

    def script(self):
        rng = self.rng
        s = [{'prim': 'parameter', 'args': [self.typ(2)]}, {'prim': 'storage', 'args': [self.typ(2)]},
             {'prim': 'code', 'args': [self.code(3)]}]
        if rng.random() < 0.15:
            s.append({'prim': 'view', 'args': [{'string': 'v%d' % rng.randrange(9)}, self.typ(1), self.typ(1), self.code(2)]})
        return s


def matchable(expanded):
    """the generator only keeps scripts whose expected expansion is a program pytezos can match at all (e.g. no duplicate
    entrypoint names); a script that is expected to fail on an unknown hash cannot be pre-checked"""
    if expanded[0] != 'ok':
        return True
    from pytezos.contract.interface import ContractInterface
    try:
        ContractInterface.from_micheline(copy.deepcopy(expanded[1]))
        return True
    except Exception:
        return False


def size(m):
    if isinstance(m, list):
        return 1 + sum(size(x) for x in m)
    return 1 + sum(size(x) for x in m.get('args', [])) if 'prim' in m else 1


def subnodes(m):
    yield m
    for x in (m if isinstance(m, list) else m.get('args', []) if isinstance(m, dict) else []):
        yield from subnodes(x)


def ref_depth(reg, e, seen=()):
    """longest chain of references starting in e (registered hashes only)"""
    best = 0
    for n in subnodes(e):
        h = ref_hash(n)
        if h is not None and h in reg and h not in seen:
            best = max(best, 1 + ref_depth(reg, reg[h], seen + (h,)))
    return best


def build_registry(rng, tags, n, p_ref):
    consts = []
    for _ in range(n):
        g = Gen(rng, consts, p_ref)
        kind = rng.choice(['type', 'type', 'data', 'data', 'instr', 'seq'])
        value = {'type': lambda: g.typ(2), 'data': lambda: g.data(2), 'instr': lambda: g.instr(2), 'seq': lambda: g.code(2)}[kind]()
        if ref_hash(value) is not None:      # a constant that is nothing but a reference: legal, keep some
            if rng.random() < 0.5:
                value = {'type': {'prim': 'option', 'args': [value]}, 'data': {'prim': 'Some', 'args': [value]},
                         'instr': {'prim': 'DIP', 'args': [[value]]}, 'seq': [value]}[kind]
        consts.append({'kind': kind, 'key': expr_key(value, tags), 'value': value})
    return consts


def run(ctx):
    ctx.prepare_lean(extract.generate(PROP))
    rng = ctx.rng
    quick = ctx.tier == 'quick'
    tags = prim_tag_table()
    ctx.extra['rule'] = ('registries of 0..6 constants (types, data, instructions, code blocks) forming a random DAG; scripts '
                         'parameter/storage/code[/view] of at most 60 nodes with references in type, code and data positions, under annotated '
                         'parents too; ~20% of the cases involve a never-registered hash (in the script, in a reachable constant, or in an '
                         'unreachable one); every case goes through ExecutionContext.resolve_global_constants, the well-formed ones also through '
                         'ContractInterface.from_micheline; non-trivial = the script contains at least one reference')
    ctx.assumptions += [
        'the registration key is computed by the model itself (C05 mirror of forge_micheline, executable Lean BLAKE2b-256, C09 mirror of '
        'base58_encode with the Lean SHA-256) and compared with the key pytezos files the expression under; BLAKE2b / SHA-256 are tied to '
        'hashlib by that comparison and to recorded expr hashes by kernel-evaluated examples (nothing is proved about the hash functions '
        'beyond the digest length); the oracle still recomputes the key independently in Python (hashlib, base58, own forger)',
        'acyclicity is a hypothesis of the theorems (with real hashes a cycle needs a hash fixpoint); a cyclic registry written '
        'directly into global_constants is only compared with the model (RecursionError)',
        'malformed `constant` nodes (annotated / wrong arguments) are outside the property; the code is lenient there '
        '(theorem reference_leniency), compared with the model only',
    ]
    ok_known = all(expr_key(m, tags) == k for m, k in KNOWN_KEYS)
    ctx.obligation('reference key function reproduces recorded expr hashes', ok_known, '; '.join(k for _, k in KNOWN_KEYS))

    from pytezos.michelson.forge import forge_micheline

    cases = []      # dict(kind, regs, script, reg_ind (independent dict), desc)
    n_main = 800 if quick else 8000
    for i in range(n_main):
        unknown_mode = rng.choice(['none'] * 8 + ['script', 'constant'])
        n = rng.choice([0, 1, 2, 2, 3, 3, 4, 5, 6])
        if unknown_mode == 'constant':
            n = min(n, 5)                 # one more constant (the one that names the unregistered hash) is added below
        consts = build_registry(rng, tags, n, p_ref=rng.choice([0.15, 0.3, 0.5]))
        ghost = {'kind': rng.choice(['type', 'data', 'instr', 'seq']), 'key': expr_key({'string': 'never registered %d' % i}, tags)}
        if unknown_mode == 'constant' and consts:
            # one more constant whose value refers to the ghost; the script may or may not reach it
            g = Gen(rng, consts + [ghost], 0.6)
            kind = ghost['kind']
            for _ in range(20):
                value = {'type': lambda: g.typ(2), 'data': lambda: g.data(2), 'instr': lambda: g.instr(2), 'seq': lambda: g.code(2)}[kind]()
                if any(ref_hash(x) == ghost['key'] for x in subnodes(value)):
                    break
            consts.append({'kind': kind, 'key': expr_key(value, tags), 'value': value})
        pool = consts + ([ghost] if unknown_mode == 'script' else [])
        reg_ind = {c['key']: c['value'] for c in consts}
        for _ in range(60):
            g = Gen(rng, pool, rng.choice([0.1, 0.25, 0.4]))
            script = g.script()
            if size(script) <= 60 and matchable(spec_expand(reg_ind, script)):
                break
        else:
            continue
        rng.shuffle(consts) if rng.random() < 0.3 else None     # registration order is irrelevant (lazy expansion)
        cases.append({'kind': 'script', 'regs': [(None, c['value']) for c in consts], 'keys': [c['key'] for c in consts],
                      'script': script, 'positions': sorted(g.positions), 'unknown_mode': unknown_mode})

    # hand-made shapes: reference under annotated parents, whole sections, chains of pure references, sequences as constants
    def C(h):
        return {'prim': 'constant', 'args': [{'string': h}]}
    chain = []
    prev = {'prim': 'nat'}
    for _ in range(6):
        k = expr_key(prev, tags)
        chain.append((k, prev))
        prev = {'prim': 'option', 'args': [C(k)], 'annots': [':lvl']} if rng.random() < 0.5 else C(k)
    hand = [
        ([v for _, v in chain], [{'prim': 'parameter', 'args': [{'prim': 'pair', 'annots': [':p'], 'args': [{**C(chain[-1][0])}, {'prim': 'int', 'annots': ['%i']}]}]},
                                 {'prim': 'storage', 'args': [C(chain[2][0])]}, {'prim': 'code', 'args': [[{'prim': 'CDR'}, {'prim': 'NIL', 'args': [{'prim': 'operation'}]}, {'prim': 'PAIR'}]]}]),
        ([[{'prim': 'CDR'}, {'prim': 'NIL', 'args': [{'prim': 'operation'}]}, {'prim': 'PAIR'}]],
         [{'prim': 'parameter', 'args': [{'prim': 'unit'}]}, {'prim': 'storage', 'args': [{'prim': 'unit'}]},
          {'prim': 'code', 'args': [C(expr_key([{'prim': 'CDR'}, {'prim': 'NIL', 'args': [{'prim': 'operation'}]}, {'prim': 'PAIR'}], tags))]}]),
    ]
    for vals, script in hand:
        cases.append({'kind': 'script', 'regs': [(None, v) for v in vals], 'keys': [expr_key(v, tags) for v in vals], 'script': script,
                      'positions': ['hand'], 'unknown_mode': 'none'})
    # the same chain (and a diamond) registered in every order of its first four links — outermost first included: what a set of
    # registrations means does not depend on the order in which they were made
    import itertools as _it
    links = [v for _, v in chain[:4]]
    top_script = [{'prim': 'parameter', 'args': [{'prim': 'unit'}]}, {'prim': 'storage', 'args': [C(chain[3][0])]},
                  {'prim': 'code', 'args': [[{'prim': 'CDR'}, {'prim': 'NIL', 'args': [{'prim': 'operation'}]}, {'prim': 'PAIR'}]]}]
    orders = list(_it.permutations(range(4)))
    for order in (orders if not quick else [orders[-1], orders[9], orders[14], orders[5], orders[20]]):
        vals = [links[i] for i in order]
        cases.append({'kind': 'script', 'regs': [(None, v) for v in vals], 'keys': [expr_key(v, tags) for v in vals], 'script': top_script,
                      'positions': ['hand-order'], 'unknown_mode': 'none'})
    d0 = {'prim': 'string'}
    d1, d2 = {'prim': 'option', 'args': [C(expr_key(d0, tags))]}, {'prim': 'list', 'args': [C(expr_key(d0, tags))]}
    d3 = {'prim': 'pair', 'args': [C(expr_key(d1, tags)), C(expr_key(d2, tags))]}
    dia_script = [{'prim': 'parameter', 'args': [{'prim': 'unit'}]}, {'prim': 'storage', 'args': [C(expr_key(d3, tags))]},
                  {'prim': 'code', 'args': [[{'prim': 'CDR'}, {'prim': 'NIL', 'args': [{'prim': 'operation'}]}, {'prim': 'PAIR'}]]}]
    for vals in ([d3, d1, d2, d0], [d3, d2, d0, d1], [d1, d3, d0, d2], [d0, d1, d2, d3]):
        cases.append({'kind': 'script', 'regs': [(None, v) for v in vals], 'keys': [expr_key(v, tags) for v in vals], 'script': dia_script,
                      'positions': ['hand-order'], 'unknown_mode': 'none'})

    # mirror-only: malformed reference nodes and a cyclic registry
    k_int = expr_key({'prim': 'int'}, tags)
    for bad in [{'prim': 'constant', 'args': [{'string': k_int}], 'annots': ['%x']},
                {'prim': 'constant', 'args': [{'string': k_int}, {'prim': 'nat'}]},
                {'prim': 'constant'}, {'prim': 'constant', 'args': []}, {'prim': 'constant', 'args': [{'int': '1'}]},
                {'prim': 'constant', 'args': [[]]}, {'prim': 'constant', 'args': [{'prim': 'nat'}]},
                {'prim': 'constant', 'args': [{'bytes': '00'}]}]:
        cases.append({'kind': 'malformed', 'regs': [(None, {'prim': 'int'})], 'keys': [k_int],
                      'script': [{'prim': 'storage', 'args': [{'prim': 'pair', 'args': [bad, {'prim': 'nat'}]}]}], 'positions': ['malformed'],
                      'unknown_mode': 'none'})
    cases.append({'kind': 'cyclic', 'regs': [('exprA', {'prim': 'option', 'args': [C('exprB')]}), ('exprB', {'prim': 'list', 'args': [C('exprA')]})],
                  'keys': ['exprA', 'exprB'], 'script': [{'prim': 'storage', 'args': [C('exprA')]}], 'positions': ['cyclic'], 'unknown_mode': 'none'})
    cases.append({'kind': 'overwrite', 'regs': [('exprK', {'prim': 'nat'}), ('exprK', {'prim': 'int'})],
                  'keys': ['exprK'], 'script': [{'prim': 'storage', 'args': [C('exprK')]}], 'positions': ['overwrite'], 'unknown_mode': 'none'})

    # ---- run the real code
    lines, impl_direct, impl_iface = [], [], []
    contexts = []
    for c in cases:
        regs = [(k, copy.deepcopy(v)) for k, v in c['regs']]
        script = copy.deepcopy(c['script'])
        ectx = make_context(regs)
        stored = [(k, copy.deepcopy(v)) for k, v in ectx.global_constants.items()]
        c['stored_keys'] = [k for k, _ in stored]
        if ectx.verif_refused:
            # registrations the implementation refuses outright (unknown reference): not part of the registered set
            refused = [mich.to_line(v) for v in ectx.verif_refused]
            keep = [i for i, (k, v) in enumerate(c['regs']) if not (k is None and mich.to_line(v) in refused)]
            c['regs'], c['keys'] = [c['regs'][i] for i in keep], [c['keys'][i] for i in keep]
            ctx.count('registration-refused-unknown-reference', len(refused))
        # the model gets the registrations AS MADE: `*` = through register_global_constant (the model computes the key itself
        # with the Lean BLAKE2b-256 / SHA-256 and the C05 forger), an explicit key = written into global_constants directly
        lines.append(' '.join([str(len(c['regs']))] + [('*' if k is None else k.encode().hex()) + ' ' + mich.to_line(v) for k, v in c['regs']]
                              + [mich.to_line(c['script'])]))
        impl_direct.append(run_direct(ectx, script))
        c['mutated'] = script != c['script'] or list(ectx.global_constants.items()) != stored
        contexts.append(ectx)
    # registration-key stream: every distinct expression registered above + the recorded ones, real key vs the model's
    key_cases, seen_expr = [], set()
    for v in [m for m, _ in KNOWN_KEYS] + [v for c in cases for k, v in c['regs'] if k is None]:
        ln = mich.to_line(v)
        if ln not in seen_expr:
            seen_expr.add(ln)
            key_cases.append(v)
    key_real = []
    for v in key_cases:
        e1 = make_context([(None, copy.deepcopy(v))])
        key_real.append('ok ' + ' '.join(k.encode().hex() for k in e1.global_constants))
    out = ctx.model(lines + ['K ' + mich.to_line(v) for v in key_cases])
    model = out[:len(lines)] if out is not None else None
    if out is not None:
        for v, real, m in zip(key_cases, key_real, out[len(lines):]):
            if real != m:
                ctx.mismatch('registration-key', {'expression': mich.to_line(v)[:200]}, bytes.fromhex(real[3:].split(' ')[0]).decode() if real[3:] else real,
                             bytes.fromhex(m[3:]).decode() if m.startswith('ok ') else m)
    for v in key_cases:
        ctx.case({'op': 'register_global_constant', 'expr': hashlib.sha1(mich.to_line(v).encode()).hexdigest()[:16]}, nontrivial=False)
    ctx.extra['registration_keys_compared'] = len(key_cases)

    reported = set()

    per_category = {}

    def report(key, what, replay):
        """at most three failing inputs per category (the smallest sub-expressions come from the shrinking below)"""
        cat = key.split(':')[0].split(' of ')[0]
        ctx.count('violating-cases', cat)
        if key not in reported and per_category.get(cat, 0) < 3:
            reported.add(key)
            per_category[cat] = per_category.get(cat, 0) + 1
            ctx.violation(key, what, replay)

    for idx, c in enumerate(cases):
        got = impl_direct[idx]
        n_refs = sum(1 for x in subnodes(c['script']) if isinstance(x, dict) and x.get('prim') == 'constant')
        d = {'kind': c['kind'], 'registry': len(c['regs']), 'script': mich.to_line(c['script'])[:200], 'positions': c['positions']}
        ctx.case({**d, 'script': hashlib.sha1(lines[idx].encode()).hexdigest()[:16]}, nontrivial=n_refs > 0)
        ctx.count('kind', c['kind'])
        ctx.count('registry-size', len(c['regs']))
        ctx.count('refs-in-script', min(n_refs, 6))
        for p in c['positions']:
            ctx.count('ref-position', p)
        ctx.count('script-nodes', '%d-%d' % (size(c['script']) // 10 * 10, size(c['script']) // 10 * 10 + 9))
        ctx.count('impl', got.split(' ')[0])
        if model is not None and got != model[idx]:
            ctx.mismatch('resolve', d, got[:300], model[idx][:300])
        if c['kind'] not in ('script',):
            continue
        reg_ind = {k: v for k, (_, v) in zip(c['keys'], c['regs'])}
        ctx.count('chain-depth', ref_depth(reg_ind, c['script']))
        ctx.count('unknown', c['unknown_mode'])
        # the registration key
        for k_ind, (_, v) in zip(c['keys'], c['regs']):
            if forge(v, tags) != forge_micheline(v):
                raise RuntimeError(f'harness forger disagrees with forge_micheline on {v} (C05 territory): fix the harness')
        if sorted(set(c['stored_keys'])) != sorted(set(c['keys'])):
            bad = next((v for k, (_, v) in zip(c['keys'], c['regs']) if k not in c['stored_keys']), None)
            extra = sorted(set(c['stored_keys']) - set(c['keys']))
            if bad is None:
                # nothing is missing, but the context holds constants THIS context never registered (a table shared between contexts)
                report('registry-not-own', f'a context built by ExecutionContext() in which {len(c["keys"])} constants were registered holds {len(extra)} more, '
                       f'e.g. {extra[:2]} — registered in other contexts of the process; an unknown hash would expand instead of failing',
                       {'registered_here': c['keys'], 'foreign_keys': extra[:10]})
            else:
                report('registration-key', f'register_global_constant({mich.to_line(bad)}) filed under {sorted(set(c["stored_keys"]) - set(c["keys"]))}, '
                       f'expr hash is {expr_key(bad, tags)}', {'expression': bad, 'stored_keys': c['stored_keys'], 'expected': expr_key(bad, tags)})
        if c['mutated']:
            report('input-mutated', 'resolve_global_constants changed its argument or a registered expression in place',
                   {'registry': [v for _, v in c['regs']], 'script': c['script']})
        want = spec_expand(reg_ind, c['script'])
        ok = (got.startswith('unknown ') and want == ('error',)) or (want[0] == 'ok' and got == 'ok ' + mich.to_line(want[1]))
        if not ok:
            # smallest sub-expression (of the script or of a registered value) on which the disagreement shows
            best = None
            for sub in list(subnodes(c['script'])) + [x for _, v in c['regs'] for x in subnodes(v)]:
                if not any(isinstance(x, dict) and x.get('prim') == 'constant' for x in subnodes(sub)):
                    continue
                g1 = run_direct(make_context([(k, copy.deepcopy(v)) for k, v in c['regs']]), copy.deepcopy(sub))
                w1 = spec_expand(reg_ind, sub)
                if not ((g1.startswith('unknown ') and w1 == ('error',)) or (w1[0] == 'ok' and g1 == 'ok ' + mich.to_line(w1[1]))):
                    if best is None or size(sub) < size(best[0]):
                        best = (sub, g1, w1)
            sub, g1, w1 = best or (c['script'], got, want)
            exp = 'raise (unknown hash)' if w1 == ('error',) else mich.to_line(w1[1])
            report(f'expansion of {mich.to_line(sub)[:120]}', f'registry of {len(c["regs"])}: resolve_global_constants({mich.to_line(sub)[:200]}) -> {g1[:200]}, expected {exp[:200]}',
                   {'registry': [v for _, v in c['regs']], 'expression': sub, 'got': g1, 'expected': exp})
        # the ContractInterface path (needs a program pytezos can match, i.e. an expandable script)
        if want[0] == 'ok' or got.startswith('unknown '):
            ectx = make_context([(k, copy.deepcopy(v)) for k, v in c['regs']])
            r, tm = run_interface(ectx, copy.deepcopy(c['script']))
            ctx.count('interface', r.split(' ')[0])
            if want[0] == 'ok':
                from pytezos.contract.interface import ContractInterface
                exp_tm = ContractInterface.from_micheline(copy.deepcopy(want[1])).to_micheline()
                if r != 'ok ' + mich.to_line(want[1]) or tm is None or mich.normalize(tm) != mich.normalize(exp_tm):
                    report('from_micheline: ' + mich.to_line(c['script'])[:100], f'ContractInterface.from_micheline with {len(c["regs"])} constants: context script '
                           f'{r[:200]}, expected ok {mich.to_line(want[1])[:200]}', {'registry': [v for _, v in c['regs']], 'script': c['script'], 'got': r})
            elif not r.startswith('unknown '):
                report('from_micheline accepts unknown hash: ' + mich.to_line(c['script'])[:100], f'ContractInterface.from_micheline did not raise for an unregistered hash: {r[:200]}',
                       {'registry': [v for _, v in c['regs']], 'script': c['script'], 'got': r})
            if model is not None and r != model[idx]:
                ctx.mismatch('from_micheline', d, r[:300], model[idx][:300])
