"""C04 — PACK / UNPACK.

Streams (real pytezos vs the Lean mirror):
  pack      v.pack(), v.pack(legacy=True) and the PACK instruction on values of packable types
  unpack    T.unpack(b) and the UNPACK instruction on the packed bytes and on byte-level mutants of them
  ill-typed T.unpack(b) and UNPACK on well-formed binary Micheline that is not a value of the type (annotated data constructors,
            three or more arguments over a right component that is not a pair class, strings with control characters) and on
            look-alike controls that are; oracle: None (Some for the controls)
Property oracles on the real code:
  * PACK == an independent Python packer written from the Tezos serialisation rules (annotation-blind right-spine
    combs: Pair a b / Pair a (Pair b c) / sequence from 4 components; zarith ints; optimized domain encodings),
    cross-checked with the Lean `Spec.Pack.pack`;
  * UNPACK(PACK v) == Some v at the same type;
  * UNPACK == None for every byte string the independent strict Micheline decoder (harness/props/c05.py) rejects, and
    for a wrong `05` prefix; never an exception out of the instruction."""
import json

from harness import gen_c11 as g
from harness import mich
from harness.props import c05 as c05mod
from harness.props.c11 import canon_tokens, comb_types, comb_value, pair_order_is_lexicographic, children, malformed_cases
from translator import extract

PROP = 'C04'

VALUE_PRIM_TAGS = {'False': 3, 'Elt': 4, 'Left': 5, 'None': 6, 'Pair': 7, 'Right': 8, 'Some': 9, 'True': 10, 'Unit': 11}


# ------------------------------------------------------------------------------------------------ independent packer
def z_int(v):
    out = bytearray()
    n = abs(v)
    first = n & 0x3f
    n >>= 6
    if v < 0:
        first |= 0x40
    if n:
        first |= 0x80
    out.append(first)
    while n:
        b = n & 0x7f
        n >>= 7
        if n:
            b |= 0x80
        out.append(b)
    return bytes(out)


def arr(b):
    return len(b).to_bytes(4, 'big') + b


def node_int(v):
    return b'\x00' + z_int(v)


def node_bytes(b):
    return b'\x0a' + arr(b)


def node_string(s):
    return b'\x01' + arr(s.encode())


def node_seq(items):
    return b'\x02' + arr(b''.join(items))


def node_prim(name, args):
    tag = VALUE_PRIM_TAGS[name]
    if len(args) == 0:
        return bytes([3, tag])
    if len(args) == 1:
        return bytes([5, tag]) + args[0]
    if len(args) == 2:
        return bytes([7, tag]) + args[0] + args[1]
    return bytes([9, tag]) + arr(b''.join(args)) + arr(b'')


def dom_bytes(kind, tag, payload, ep):
    pref = g.DOM_PREFIXES[kind][tag]
    if kind in ('address', 'contract', 'txr'):
        head = {'tz1': b'\x00\x00', 'tz2': b'\x00\x01', 'tz3': b'\x00\x02', 'tz4': b'\x00\x03'}.get(pref)
        if head is not None:
            return head + payload + ep
        return {'KT1': b'\x01', 'txr1': b'\x02', 'sr1': b'\x03'}[pref] + payload + b'\x00' + ep
    if kind == 'key_hash':
        return bytes([tag]) + payload
    if kind == 'key':
        return bytes([tag]) + payload
    return payload


def spine(t, sv):
    """components of the right comb rooted at (t, sv): annotation-blind"""
    t = g.binarize(t)
    if t['prim'] == 'pair':
        return [(t['args'][0], sv[1])] + spine(t['args'][1], sv[2])
    return [(t, sv)]


def spec_pack_node(t, sv):
    from pytezos.michelson.forge import forge_micheline
    t = g.binarize(t)
    a = t.get('args', [])
    k = sv[0]
    if k == 'unit':
        return node_prim('Unit', [])
    if k == 'bool':
        return node_prim('True' if sv[1] else 'False', [])
    if k in ('int', 'ts'):
        return node_int(sv[1])
    if k == 'fr':
        return node_bytes(sv[1].to_bytes(32, 'little'))
    if k == 'str':
        return node_string(sv[1])
    if k == 'bytes':
        return node_bytes(sv[1])
    if k == 'dom':
        return node_bytes(dom_bytes(*sv[1:]))
    if k == 'none':
        return node_prim('None', [])
    if k == 'some':
        return node_prim('Some', [spec_pack_node(a[0], sv[1])])
    if k == 'left':
        return node_prim('Left', [spec_pack_node(a[0], sv[1])])
    if k == 'right':
        return node_prim('Right', [spec_pack_node(a[1], sv[1])])
    if k == 'pair':
        comps = [spec_pack_node(ct, cv) for ct, cv in spine(t, sv)]
        if len(comps) == 2:
            return node_prim('Pair', comps)
        if len(comps) == 3:
            return node_prim('Pair', [comps[0], node_prim('Pair', comps[1:])])
        return node_seq(comps)
    if k in ('list', 'set'):
        return node_seq([spec_pack_node(a[0], x) for x in sv[1]])
    if k == 'map':
        return node_seq([node_prim('Elt', [spec_pack_node(a[0], x), spec_pack_node(a[1], y)]) for x, y in sv[1]])
    if k == 'lambda':
        return forge_micheline(sv[1])          # instruction trees: C05's domain
    raise ValueError(k)


def spec_pack(t, sv):
    return b'\x05' + spec_pack_node(t, sv)


# ------------------------------------------------------------------------------------------------ helpers
def has_named_inner_pair(t, root=True):
    """is some pair that stands as the *right* component of a pair annotated (C17's defect area)?"""
    t = g.binarize(t)
    if t['prim'] == 'pair':
        r = g.binarize(t['args'][1])
        if r['prim'] == 'pair' and g._named(r):
            return True
    return any(has_named_inner_pair(a, False) for a in t.get('args', []) if isinstance(a, dict) and 'prim' in a)


def leaf_kinds(t, sv, acc):
    if sv[0] == 'dom':
        acc.add(sv[1])
    if sv[0] == 'unit':
        acc.add('unit')
    for ct, cv in children(t, sv):
        leaf_kinds(ct, cv, acc)
    return acc


def classify(t, sv, what):
    kinds = leaf_kinds(t, sv, set())
    if what == 'pack' and has_named_inner_pair(t):
        return 'dep-C17:annotated-comb-pack'
    if kinds & {'key_hash', 'signature', 'address', 'contract'} and what == 'unpack':
        return 'dep-C10:' + '+'.join(sorted(kinds & {'key_hash', 'signature', 'address', 'contract'})) + '-unpack'
    if 'unit' in kinds and what == 'unpack' and any(x in json.dumps(t) for x in ('"set"', '"map"')):
        return 'dep-C03:unit-unhashable-unpack'
    return f'{what}:{t["prim"]}'


def shrink_unpack(t, sv, check):
    for ct, cv in children(t, sv):
        if not check(ct, cv):
            return shrink_unpack(ct, cv, check)
    return t, sv


class Repl:
    """one interpreter, instructions built from Micheline (the text printer / parser are C18's business)"""

    def __init__(self):
        from pytezos.michelson.repl import Interpreter
        self.i = Interpreter()

    def run(self, instr, item):
        from pytezos.michelson.micheline import Micheline
        self.i.stack.clear()
        self.i.stack.push(item)
        seq = Micheline.match([instr])
        seq.execute(self.i.stack, [], self.i.context)
        return self.i.stack.peek()


def mutate(rng, bs):
    b = bytearray(bs)
    k = rng.randrange(10)
    if k == 0 and len(b) > 2:
        return bytes(b[:rng.randrange(1, len(b))]), 'truncate'
    if k == 1:
        return bytes(b) + rng.bytes_(rng.choice([1, 1, 2, 5])), 'extend'
    if k == 2:
        i = rng.randrange(len(b))
        b[i] ^= 1 << rng.randrange(8)
        return bytes(b), 'bitflip'
    if k == 3:
        i = rng.randrange(len(b))
        b[i] = rng.choice([0, 1, 2, 5, 9, 10, 11, 0x80, 0x9e, 0x9f, 0xee, 0xff])
        return bytes(b), 'byteset'
    if k in (4, 5):
        # re-encode the first integer node found non-minimally (… | 0x80, then 0x00)
        for i in range(1, len(b) - 1):
            if b[i] == 0 and b[i + 1] < 0x80 and (i == 1 or b[i - 1] in (2, 5, 7, 9, 0) or True):
                nb = bytearray(b)
                nb[i + 1] |= 0x80
                nb[i + 2:i + 2] = b'\x00' if k == 4 else b'\x80\x00'
                return bytes(nb), 'nonminimal-int'
        return b'\x05\x00\x81\x00', 'nonminimal-int'
    if k == 6 and len(b) >= 6:
        i = rng.randrange(1, len(b) - 3)
        n = int.from_bytes(b[i:i + 4], 'big')
        b[i:i + 4] = ((n + rng.choice([-1, 1, 2, 255])) % 2 ** 32).to_bytes(4, 'big')
        return bytes(b), 'length'
    if k == 7:
        b[0] = rng.choice([0, 4, 6, 0x50, 0xff])
        return bytes(b), 'prefix'
    if k == 8 and len(b) > 2:
        i = rng.randrange(1, len(b))
        del b[i]
        return bytes(b), 'delete'
    i = rng.randrange(1, len(b) + 1)
    b[i:i] = rng.bytes_(1)
    return bytes(b), 'insert'


CORPUS = ['05008100', '0500c100', '050080808000', '0500', '05', '', '0501', '0502000000', '050200000000', '05030b', '05030c', '0503ee',
          '0507070001', '050707000100020003', '05020000000400010002', '0509070000000400010002' + '00000000', '050a00000000',
          '050a00000015000102030405060708090a0b0c0d0e0f1011121314', '0500' + '40', '06030b', '05030b00']


def run(ctx):
    st = {}
    for p in ('C05', 'C11', PROP):
        for k, v in extract.generate(p).items():
            st[f'{p}:{k}'] = v
    ctx.prepare_lean(st)
    pairs_ok = pair_order_is_lexicographic()
    ctx.extra['rule'] = ('values of packable types (type-directed, depth <= 4: all leaf types incl. key hashes with forced leading 00..03 / trailing 00 digests, '
                         'binary and n-ary pairs with annotations on every node, or, option, list, set, map, lambda, contract) and right combs of 2..9 components in '
                         'every annotation pattern; PACK / PACK legacy / UNPACK through MichelsonType and through the interpreter instructions; byte-level mutants '
                         '(truncate, extend, bitflip, byteset, non-minimal ints, length prefixes, 05 prefix, delete, insert) of valid packed bytes + a corpus; '
                         'non-trivial = composite value or a mutant')
    ctx.assumptions += [
        'base58 text of domain values is abstract (C09); their optimized bytes are C10 (theorems take the round-trip laws as hypothesis, the driver mirrors the repaired length-dispatching unforge_address / unforge_signature)',
        'binary Micheline codec: C05 theorems are imported (unforge_forge, unforge_refines_spec); UTF-8 through Lean String (proved round trip on valid strings)',
        'lambda bodies are packed with the library forge_micheline in the oracle (instruction trees are C05); Micheline.match normalisation is abstract',
        'the independent packer and the strict decoder are my transcription of the Tezos serialisation rules (Octez is not available offline)',
        "don't-care inputs of the strict decoder (negative zero 0x40, non-UTF-8 strings) are not asserted either way",
    ]
    rng = ctx.rng
    n_rand = 350 if ctx.tier == 'quick' else 20000
    cases = []
    for n in range(2, 10):
        for pat, t in comb_types(n):
            if ctx.tier == 'thorough' or n <= 6 or sum(pat) in (0, 1, n - 1) or rng.random() < 0.2:
                cases.append((f'comb{n}', t, comb_value(n)))
        if n > 2:
            cases.append((f'comb{n}-nary', {'prim': 'pair', 'args': [{'prim': 'nat'}] * n, 'annots': ['%top']}, comb_value(n)))
    for kind_t in ['key_hash', 'address', 'signature', 'key', 'chain_id', 'contract']:
        for force in [0.1, 0.1, 0.3, 0.3, 0.47, 0.9]:
            t = {'prim': kind_t} if kind_t != 'contract' else {'prim': 'contract', 'args': [{'prim': 'unit'}]}
            cases.append(('dom', t, g.gen_dom(rng, g.TYPE_TO_KIND[kind_t], force)))
    for v in g.TS_BOUNDARIES:
        cases.append(('ts', {'prim': 'timestamp'}, ('ts', v)))
    # contents whose Micheline / Python form is "empty" (an empty sequence, zero, "", False) under every wrapper: `Some {}` is not `None`,
    # `Left {}` / `Pair {} {}` keep their empty components
    N, S_ = {'prim': 'nat'}, {'prim': 'string'}
    for inner, ev in [({'prim': 'list', 'args': [N]}, ('list', [])), ({'prim': 'set', 'args': [S_]}, ('set', [])),
                      ({'prim': 'map', 'args': [N, S_]}, ('map', [])), ({'prim': 'lambda', 'args': [N, N]}, ('lambda', g.LAMBDA_POOL[0])),
                      (N, ('int', 0)), (S_, ('str', '')), ({'prim': 'bytes'}, ('bytes', b'')), ({'prim': 'bool'}, ('bool', False)),
                      ({'prim': 'unit'}, ('unit',)), ({'prim': 'option', 'args': [N]}, ('none',))]:
        cases.append(('empty-some', {'prim': 'option', 'args': [inner]}, ('some', ev)))
        cases.append(('empty-left', {'prim': 'or', 'args': [inner, N]}, ('left', ev)))
        cases.append(('empty-right', {'prim': 'or', 'args': [N, inner]}, ('right', ev)))
        cases.append(('empty-pair', {'prim': 'pair', 'args': [inner, inner]}, ('pair', ev, ev)))
        cases.append(('empty-elem', {'prim': 'list', 'args': [inner]}, ('list', [ev, ev])))
        cases.append(('empty-mapval', {'prim': 'map', 'args': [N, inner]}, ('map', [(('int', 0), ev)])))
        cases.append(('empty-some-some', {'prim': 'option', 'args': [{'prim': 'option', 'args': [inner]}]}, ('some', ('some', ev))))
    for i in range(n_rand):
        t = g.gen_type(rng, rng.choice([1, 2, 2, 3, 3, 4]), packable=True, pairs_ok=pairs_ok)
        cases.append(('random', t, g.gen_value(rng, t, pairs_ok)))
    # type twins: right after a value, the SAME Python-level content at a sibling type (base58 texts as plain strings, nat <-> int):
    # the runtime objects of both compare and hash equal (StringType / IntType), their packed forms differ — a result remembered per
    # value instead of per (type, value) would hand one type the other's bytes
    DOMT = set(g.TYPE_TO_KIND)

    def twin_t(t):
        p = t['prim']
        if p in DOMT and p != 'contract':
            return {'prim': 'string'}
        if p == 'contract':
            return {'prim': 'string'}
        if p == 'nat':
            return {'prim': 'int'}
        d = {'prim': p}
        if 'args' in t:
            d['args'] = [twin_t(a) for a in t['args']]
        return d

    def twin_v(sv):
        k = sv[0]
        if k == 'dom':
            return ('str', g.dom_text(*sv[1:]))
        if k in ('some', 'left', 'right'):
            return (k, twin_v(sv[1]))
        if k == 'pair':
            return ('pair', twin_v(sv[1]), twin_v(sv[2]))
        return sv

    def twinnable(t):
        p = t['prim']
        if p in ('pair', 'option', 'or'):
            return all(twinnable(a) for a in t['args'])
        return p in DOMT or p in ('nat', 'int', 'string', 'bytes', 'unit', 'bool', 'mutez')

    def has_twin_leaf(t):
        return t['prim'] in DOMT or t['prim'] == 'nat' or any(has_twin_leaf(a) for a in t.get('args', []) if isinstance(a, dict))
    twins = []
    for _ in range(60 if ctx.tier == 'quick' else 3000):
        t = g.binarize(g.gen_type(rng, rng.choice([1, 2, 2, 3]), packable=True, pairs_ok=pairs_ok))
        if not (twinnable(t) and has_twin_leaf(t)):
            leaf = rng.choice(['address', 'key_hash', 'key', 'chain_id', 'signature', 'nat'])
            t = rng.choice([{'prim': 'pair', 'args': [{'prim': leaf}, {'prim': 'nat'}]}, {'prim': 'option', 'args': [{'prim': leaf}]},
                            {'prim': 'or', 'args': [{'prim': leaf}, {'prim': 'unit'}]}, {'prim': 'pair', 'args': [{'prim': 'string'}, {'prim': leaf}]}])
        sv = g.gen_value(rng, t, pairs_ok)
        a, b = ('twin', t, sv), ('twin', twin_t(t), twin_v(sv))
        twins += [a, b] if rng.random() < 0.5 else [b, a]
    cases += twins
    ctx.hist.setdefault('type_twins', {})['pairs'] = len(twins) // 2
    # a few unpackable types: PACK must raise
    for t in [{'prim': 'big_map', 'args': [{'prim': 'nat'}, {'prim': 'nat'}]}, {'prim': 'ticket', 'args': [{'prim': 'nat'}]},
              {'prim': 'pair', 'args': [{'prim': 'nat'}, {'prim': 'sapling_state', 'args': [{'int': '8'}]}]},
              {'prim': 'list', 'args': [{'prim': 'big_map', 'args': [{'prim': 'nat'}, {'prim': 'nat'}]}]},
              {'prim': 'contract', 'args': [{'prim': 'ticket', 'args': [{'prim': 'nat'}]}]}]:
        cases.append(('unpackable', t, g.gen_value(rng, t, pairs_ok)))

    repl = Repl()
    from pytezos.michelson.types import BytesType, OptionType

    # ---------------------------------------------------------------- pack stream
    lines, meta, packed = [], [], []
    for ci, (label, t, sv) in enumerate(cases):
        cls = g.type_class(t)
        v = g.build(cls, sv)
        toks = g.obj_tokens(v)
        outs = []
        for legacy in (False, True):
            try:
                outs.append(v.pack(legacy=legacy).hex())
            except Exception:
                outs.append('err')
        try:
            res = repl.run({'prim': 'PACK'}, v)
            instr = bytes(res).hex() if isinstance(res, BytesType) else 'not-bytes'
        except Exception:
            instr = 'err'
        lines += [f'pack 0 {mich.to_line(t)} | ' + ' '.join(toks), f'pack 1 {mich.to_line(t)} | ' + ' '.join(toks), 'spec ' + ' '.join(toks)]
        meta.append((ci, outs, instr))
        if outs[0] != 'err':
            packed.append((ci, bytes.fromhex(outs[0])))
    model = ctx.model(lines)
    for i, (ci, outs, instr) in enumerate(meta):
        label, t, sv = cases[ci]
        ctx.case({'stream': 'pack', 'label': label, 'type': t if len(json.dumps(t)) < 200 else '<large>', 'value': ' '.join(g.sv_tokens(t, sv))[:160]},
                 nontrivial=label != 'random' or sv[0] in ('pair', 'list', 'set', 'map', 'some', 'left', 'right', 'dom'))
        ctx.count('label', label)
        ctx.count('top_type', t['prim'])
        failing = False
        if instr != outs[0]:
            ctx.violation(f'pack-instruction-differs:{t["prim"]}', f'PACK instruction gives {instr[:80]}, MichelsonType.pack gives {outs[0][:80]}', {'type': t, 'value_tokens': g.sv_tokens(t, sv)})
            failing = True
        if label == 'unpackable':
            if outs != ['err', 'err']:
                ctx.violation(f'pack-accepts-unpackable:{t["prim"]}', f'pack() of a value of unpackable type {json.dumps(t)} returned bytes', {'type': t})
                failing = True
        else:
            try:
                want = spec_pack(t, sv).hex()
            except Exception as e:
                want = None
            if want is not None and outs[0] != want:
                key = classify(t, sv, 'pack')
                # shrink: the smallest sub-value whose packing deviates
                mt, msv = shrink_unpack(t, sv, lambda ct, cv: _pack_ok(ct, cv))
                ctx.violation(key, f'PACK of {" ".join(g.sv_tokens(mt, msv))[:100]} : {json.dumps(mt)[:160]} is {_real_pack(mt, msv)[:120]}, canonical Tezos bytes are {spec_pack(mt, msv).hex()[:120]}',
                              {'type': mt, 'value_tokens': g.sv_tokens(mt, msv), 'packed': _real_pack(mt, msv), 'expected': spec_pack(mt, msv).hex()})
                failing = True
            if model is not None and want is not None and model[3 * i + 2] != want:
                ctx.mismatch('spec-pack:lean-vs-python-oracle', {'type': t, 'value': ' '.join(g.sv_tokens(t, sv))[:200]}, want[:200], model[3 * i + 2][:200])
        if model is not None and not failing:
            if model[3 * i] != outs[0]:
                ctx.mismatch('pack', {'type': t, 'value': ' '.join(g.sv_tokens(t, sv))[:300]}, outs[0][:300], model[3 * i][:300])
            if model[3 * i + 1] != outs[1]:
                ctx.mismatch('pack-legacy', {'type': t, 'value': ' '.join(g.sv_tokens(t, sv))[:300]}, outs[1][:300], model[3 * i + 1][:300])

    # ---------------------------------------------------------------- unpack stream
    prim_of_tag = _prim_of_tag()
    inputs = []       # (ci, bytes, kind)
    n_mut = 3 if ctx.tier == 'quick' else 5
    for ci, b in packed:
        inputs.append((ci, b, 'valid'))
        label = cases[ci][0]
        for _ in range(n_mut if label != 'random' or True else 1):
            mb, kind = mutate(rng, b)
            inputs.append((ci, mb, kind))
    for h in CORPUS:
        for ci in (0, len(cases) - 10):
            inputs.append((ci, bytes.fromhex(h), 'corpus'))
    lines, meta = [], []
    for ci, b, kind in inputs:
        label, t, sv = cases[ci]
        cls = g.type_class(t)
        try:
            raw = 'ok ' + ' '.join(g.obj_tokens(cls.unpack(b)))
        except Exception:
            raw = 'err'
        # a field annotation on the instruction's own type argument is not Michelson (`option` arguments cannot
        # carry one); annotations below the root stay
        ti = g.nofield(t)
        try:
            res = repl.run({'prim': 'UNPACK', 'args': [ti]}, BytesType(b))
            if isinstance(res, OptionType):
                ins = 'none' if res.item is None else 'some ' + ' '.join(g.obj_tokens(res.item))
            else:
                ins = 'not-option'
        except Exception as e:
            ins = 'raise'
        hx = b.hex() or '-'
        lines += [f'unpack {mich.to_line(ti)} | {hx}', f'unpackraw {mich.to_line(t)} | {hx}', f'strict {hx}']
        meta.append((ci, b, kind, raw, ins))
    model = ctx.model(lines)
    for i, (ci, b, kind, raw, ins) in enumerate(meta):
        label, t, sv = cases[ci]
        ctx.case({'stream': 'unpack', 'kind': kind, 'type': t if len(json.dumps(t)) < 200 else '<large>', 'bytes': b.hex() if len(b) < 60 else f'<{len(b)} bytes>'}, nontrivial=True)
        ctx.count('mutation', kind)
        ctx.count('unpack_verdict', ins.split(' ')[0])
        failing = False
        if ins == 'raise' or ins == 'not-option':
            ctx.violation(f'unpack-instruction-raises:{kind}', f'UNPACK {json.dumps(t)[:100]} on {b.hex()[:80]} does not push an option ({ins})', {'type': t, 'bytes': b.hex()})
            failing = True
        if kind == 'valid':
            want = 'some ' + ' '.join(canon_tokens(g.sv_tokens(g.nofield(t), sv), 'optimized'))
            got = ' '.join(canon_tokens(ins.split(' '), 'optimized'))
            if got != want:
                mt, msv = shrink_unpack(t, sv, _unpack_ok)
                key = 'dep-C03:unit-unhashable-unpack' if "unhashable type: 'unit'" in _real_unpack(mt, msv) else classify(mt, msv, 'unpack')
                ctx.violation(key, f'UNPACK(PACK v) for v = {" ".join(g.sv_tokens(mt, msv))[:100]} : {json.dumps(mt)[:120]} gives {_real_unpack(mt, msv)[:100]} (packed {_real_pack(mt, msv)[:80]})',
                              {'type': mt, 'value_tokens': g.sv_tokens(mt, msv), 'packed': _real_pack(mt, msv), 'unpacked': _real_unpack(mt, msv)})
                failing = True
        # strictness oracle: independent strict decoder
        if b[:1] != b'\x05':
            verdict = 'reject'
            why = 'no 05 prefix'
        else:
            try:
                c05mod.spec_decode(b[1:], prim_of_tag)
                verdict, why = 'accept', ''
            except c05mod.Reject as e:
                verdict, why = 'reject', str(e)
            except c05mod.DontCare as e:
                verdict, why = 'dontcare', str(e)
        ctx.count('strict_verdict', verdict)
        if verdict == 'reject' and ins.startswith('some'):
            ctx.violation(f'unpack-accepts-invalid[{why}]', f'UNPACK {json.dumps(t)[:100]} accepts {b.hex()[:100]} ({why}) -> {ins[:100]}', {'type': t, 'bytes': b.hex(), 'why': why})
            failing = True
        if model is not None:
            if verdict != 'dontcare' and model[3 * i + 2] != ('valid' if verdict == 'accept' else 'invalid'):
                ctx.mismatch('strict:lean-spec-vs-python-oracle', b.hex(), verdict, model[3 * i + 2])
            if kind != 'valid' and '"lambda"' in json.dumps(t):
                ctx.count('not_compared', 'mutant at a lambda type (Micheline.match is abstract in the model)')
            elif not failing:
                if model[3 * i] != ins:
                    ctx.mismatch('unpack', {'type': t, 'bytes': b.hex(), 'kind': kind}, ins[:4000], model[3 * i][:4000])
                if model[3 * i + 1] != raw:
                    ctx.mismatch('unpack-raw', {'type': t, 'bytes': b.hex(), 'kind': kind}, raw[:4000], model[3 * i + 1][:4000])

    # ---------------------------------------------------------------- ill-typed stream
    # well-formed binary Micheline that is not a value of the type (C11's malformed-value cases, forged with the library):
    # annotated data constructors, three or more arguments over a right component that is not a pair class, strings with
    # control characters.  Oracle: the protocol's UNPACK gives None (Some for the look-alike controls); never an exception.
    from pytezos.michelson.forge import forge_micheline
    rows = []
    for grp, key, t, mm, accepted in malformed_cases(ctx, [], []):
        tj = json.dumps(t)
        if any(x in tj for x in ('"ticket"', '"big_map"', '"lambda"')) or '"annots": [""]' in json.dumps(mm):
            continue        # not packable / abstract in the model / an empty annotation does not survive the binary form
        try:
            b = b'\x05' + forge_micheline(mm)
        except Exception:
            continue
        rows.append((grp, key, t, mm, accepted, b))
    lines, meta = [], []
    for grp, key, t, mm, accepted, b in rows:
        cls = g.type_class(t)
        try:
            raw = 'ok ' + ' '.join(g.obj_tokens(cls.unpack(b)))
        except Exception:
            raw = 'err'
        ti = g.nofield(t)
        try:
            res = repl.run({'prim': 'UNPACK', 'args': [ti]}, BytesType(b))
            if isinstance(res, OptionType):
                ins = 'none' if res.item is None else 'some ' + ' '.join(g.obj_tokens(res.item))
            else:
                ins = 'not-option'
        except Exception:
            ins = 'raise'
        lines += [f'unpack {mich.to_line(ti)} | {b.hex()}', f'unpackraw {mich.to_line(t)} | {b.hex()}']
        meta.append((grp, key, t, mm, accepted, b, raw, ins))
    model = ctx.model(lines)
    reported = set()
    for i, (grp, key, t, mm, accepted, b, raw, ins) in enumerate(meta):
        ctx.case({'stream': 'ill-typed', 'group': grp, 'type': t, 'micheline': json.dumps(mm)[:200]}, nontrivial=True)
        ctx.count('ill_typed_group', grp)
        ctx.count('ill_typed_verdict', ins.split(' ')[0])
        want = 'some' if accepted else 'none'
        if ins.split(' ')[0] != want:
            k = ('unpack-instruction-raises:ill-typed' if ins in ('raise', 'not-option') else f'unpack-ill-typed:{key}')
            if k not in reported:
                reported.add(k)
                ctx.violation(k, f'UNPACK {json.dumps(t)[:100]} on {b.hex()[:80]} (= {json.dumps(mm)[:120]}) gives {ins[:80]}, the protocol gives {want}',
                              {'type': t, 'bytes': b.hex(), 'micheline': mm, 'expected': want, 'observed': ins[:300]})
            continue
        if model is not None:
            if model[2 * i] != ins:
                ctx.mismatch('unpack-ill-typed', {'type': t, 'bytes': b.hex(), 'group': grp}, ins[:400], model[2 * i][:400])
            if model[2 * i + 1] != raw:
                ctx.mismatch('unpack-raw-ill-typed', {'type': t, 'bytes': b.hex(), 'group': grp}, raw[:400], model[2 * i + 1][:400])


def _prim_of_tag():
    from pytezos.michelson.tags import prim_tags
    return {v[0]: k for k, v in prim_tags.items() if v != b'\xee'}


def _real_pack(t, sv):
    try:
        return g.build(g.type_class(t), sv).pack().hex()
    except Exception as e:
        return f'{type(e).__name__}: {e}'[:120]


def _pack_ok(t, sv):
    try:
        return _real_pack(t, sv) == spec_pack(t, sv).hex()
    except Exception:
        return True


def _real_unpack(t, sv):
    cls = g.type_class(t)
    try:
        b = g.build(cls, sv).pack()
    except Exception as e:
        return f'pack raises {type(e).__name__}'
    try:
        return 'some ' + ' '.join(g.obj_tokens(cls.unpack(b)))
    except Exception as e:
        return f'None ({type(e).__name__}: {e})'[:160]


def _unpack_ok(t, sv):
    r = _real_unpack(t, sv)
    if not r.startswith('some'):
        return not r.startswith('None')      # unpackable sub-type (pack raises): not a counterexample
    return ' '.join(canon_tokens(r.split(' ')[1:], 'optimized')) == ' '.join(canon_tokens(g.sv_tokens(t, sv), 'optimized'))
