"""C25 — injected operations carry the account's next counters.

Event histories (new group / fill / autofill / sign / inject ok|refused / bake) are executed on the real
`PyTezosClient` / `OperationGroup` / `ExecutionContext` objects against the simulated node (harness/stubnode.py)
and on the Lean state machine `Impl.Counters`; the per-event observables are compared.

Oracle (the property's own statement over the node's ground truth, independent of the mirror): every payload that
reaches `/injection/operation` is parsed by the stub's own binary reader; if the group is *fresh* — its counters were
computed (fill of the unfilled group, or a successful autofill) after the last accepted injection / baked block — it
must carry `c+p+1 … c+p+k` with `c`, `p` the node's counter of the account and the number of its contents pending
in the mempool at that moment."""
import itertools
import os

from translator import extract

PROP = 'C25'

SYMS = ('n1', 'n2', 'fT', 'fC', 'aT', 'aC', 's', 'iO', 'iF', 'b')
KEY_TWICE = 'fill()-continues-from-cached-counter-of-an-earlier-fill'
KEY_MEMPOOL = 'fill()-ignores-own-operations-pending-in-the-mempool'


# autofill with the documented keyword overrides; for the model (and for the property) each of them is an autofill
_KW = {'x': dict(fee=5000, gas_limit=4000, storage_limit=0), 'y': dict(gas_limit=4000, storage_limit=300), 'z': dict(fee=7000),
       'w': dict(fee=0, gas_limit=6000, storage_limit=0)}
KW_AUTOFILL = {k + t: v for k, v in _KW.items() for t in 'TC'}


def plain_events(evs):
    return ['a' + e[1] if e in KW_AUTOFILL else e for e in evs]


def _dest():
    from harness import stubnode as sn
    return sn.test_key('ed', 7).public_key_hash()


def run_history(c0, p0, events, curve='ed', rejected=None):
    """returns (tokens, violations) — tokens mirror Driver/C25.lean's answer; violations come from the oracle"""
    from harness import stubnode as sn
    from pytezos.rpc.node import RpcError
    key = sn.test_key(curve)
    pkh = key.public_key_hash()
    other = sn.test_key('ed', 9).public_key_hash()
    node = sn.make_stub_node()
    node.unprocessed_toggle = True
    node.add_account(pkh, counter=c0)
    node.add_account(other, counter=7)
    node.add_pending(other, 2)                    # somebody else's operations must not count
    if p0 >= 2:
        # own / foreign / own: the account's pending operations are not adjacent in the mempool listing
        node.add_pending(pkh, 1, where='applied')
        node.add_pending(other, 1, where='applied')
        node.add_pending(pkh, p0 - 1, where='unprocessed' if p0 % 2 else 'applied')
    elif p0:
        node.add_pending(pkh, p0, where='unprocessed' if p0 % 2 else 'applied')
    if rejected:
        # operations of this very account that the mempool has refused (fees too low …): noise, they take no counter
        section, shape, n = rejected
        node.add_rejected(pkh, n, section, shape)
        node.add_rejected(other, 1, 'branch_delayed', 'pair')
    cli = sn.make_client(node, key)
    dest = _dest()
    tmpl = cur = None
    toks, viol = [], []
    # the oracle's own bookkeeping of the definition of `fresh` (node side only)
    epoch = 0
    stamp = None          # epoch at which cur's counters were last computed against the node
    origin = None         # how cur's counters were computed: ('fill'|'autofill', earlier fills in this context, own pending then)
    fills_in_ctx = 0
    for ev in events:
        if ev[0] == 'n':
            k = int(ev[1:])
            ops = [cli.transaction(destination=dest, amount=1 + i) for i in range(k)]
            tmpl = cli.bulk(*ops) if k > 1 else ops[0]
            cur, stamp, origin, fills_in_ctx = None, None, None, 0
            toks.append('ok')
        elif ev in ('fT', 'fC', 'aT', 'aC') or ev in KW_AUTOFILL:
            kw = {}
            if ev in KW_AUTOFILL:      # autofill with explicit fee / limits: the counters are still the client's to choose
                kw, ev = KW_AUTOFILL[ev], 'a' + ev[1]
            target = tmpl if ev[1] == 'T' else cur
            if target is None:
                toks.append('nogroup')
                continue
            pend = node.pending_count(pkh)
            try:
                g = target.fill() if ev[0] == 'f' else target.autofill(**kw)
            except RpcError as e:
                if ev[0] == 'a' and 'counter_in_the' in str(e):
                    if ev[1] == 'T':
                        fills_in_ctx += 1
                    toks.append('simerr')
                    continue
                raise
            if ev[1] == 'T' or ev[0] == 'a':
                stamp = epoch
                origin = ('fill' if ev[0] == 'f' else 'autofill', fills_in_ctx if ev[1] == 'T' else 0, pend)
            if ev[1] == 'T':
                fills_in_ctx += 1
            cur = g
            toks.append('ctrs:' + ','.join(c['counter'] for c in cur.contents))
        elif ev == 's':
            if cur is None:
                toks.append('nogroup')
                continue
            cur = cur.sign()
            toks.append('ctrs:' + ','.join(c['counter'] for c in cur.contents))
        elif ev in ('iO', 'iF'):
            if cur is None:
                toks.append('nogroup')
                continue
            node.refuse_next_injection = ev == 'iF'
            n_posted = len(node.posted)
            try:
                cur.inject()
                accepted = True
            except RpcError:
                accepted = False
            except ValueError as e:
                node.refuse_next_injection = False
                if 'Not signed' in str(e):
                    toks.append('notsigned')
                    fills_in_ctx = 0     # inject() reset the context first (observable through the next fill)
                    continue
                raise
            node.refuse_next_injection = False
            fills_in_ctx = 0
            assert len(node.posted) == n_posted + 1
            rec = node.posted[-1]
            sent = [c['counter'] for c in rec['parsed']['contents']]
            want = [rec['node_counter'] + rec['node_pending'] + 1 + i for i in range(len(sent))]
            fresh = stamp == epoch
            toks.append(f"sent:{','.join(map(str, sent))}:{'accepted' if accepted else 'refused'}:"
                        f"{'fresh' if fresh else 'stale'}:{','.join(map(str, want))}")
            assert accepted == rec['accepted']
            if fresh and sent != want:
                viol.append({'event_index': len(toks) - 1, 'sent': sent, 'expected': want, 'origin': origin,
                             'node_counter': rec['node_counter'], 'node_pending': rec['node_pending']})
            if accepted:
                epoch += 1
        elif ev == 'b':
            node.bake()
            epoch += 1
            toks.append('ok')
        else:
            raise AssertionError(ev)
    return toks, viol


def classify(v):
    """known defect regions are recognised by how the offending group got its counters (not by property id)"""
    o = v['origin']
    if o is None:
        return None
    how, earlier_fills, pending = o
    if how == 'fill' and earlier_fills > 0:
        return KEY_TWICE
    if how == 'fill' and pending > 0:
        return KEY_MEMPOOL
    return None


def shrink(c0, p0, events, key, rej=None):
    """greedy: drop events while a violation of the same class remains; then simplify the initial state"""
    def bad(c, p, evs):
        try:
            _, vs = run_history(c, p, evs, 'ed', rej)
        except Exception:
            return False
        return any(classify(v) == key for v in vs)   # key None: any violation outside the recorded regions
    evs = list(events)
    changed = True
    while changed:
        changed = False
        for i in range(len(evs)):
            cand = evs[:i] + evs[i + 1:]
            if bad(c0, p0, cand):
                evs, changed = cand, True
                break
    for c in (100,):
        if bad(c, p0, evs):
            c0 = c
    for p in (0, 1):
        if p < p0 and bad(c0, p, evs):
            p0 = p
            break
    evs = ['n1' if e == 'n2' and bad(c0, p0, ['n1' if x == 'n2' else x for x in evs]) else e for e in evs]
    return c0, p0, evs


def gen_random(rng, max_len):
    ln = rng.randrange(1, max_len + 1)
    evs = ['n%d' % rng.choice([1, 1, 2, 3])]
    w = {'n1': 2, 'n2': 1, 'n3': 1, 'fT': 5, 'fC': 2, 'aT': 5, 'aC': 2, 's': 6, 'iO': 6, 'iF': 2, 'b': 3}
    syms, weights = list(w), list(w.values())
    # bias towards "fill-ish, sign, inject" rounds so that long histories keep injecting
    while len(evs) < ln:
        if rng.random() < 0.35:
            evs += [rng.choice(['fT', 'aT', 'aT', 'aC', 'fC']), 's', rng.choice(['iO', 'iO', 'iF'])]
        else:
            evs.append(rng.choices(syms, weights)[0])
    evs = evs[:max_len]
    if rng.random() < 0.3:      # the same history with explicit fee / limits on (some of) the autofill calls
        evs = [rng.choice('xyzw') + e[1] if e in ('aT', 'aC') and rng.random() < 0.7 else e for e in evs]
    c0 = rng.choice([0, 100, 100, 127, 16383, 2 ** 32, 2 ** 64 - 1, rng.getrandbits(rng.randrange(1, 65))])
    p0 = rng.choice([0, 0, 0, 1, 2, 5])
    return c0, p0, evs


def run(ctx):
    ctx.prepare_lean(extract.generate(PROP))
    ctx.extra['rule'] = ('histories over {new group of k contents, fill/autofill of the unfilled or of the current group, sign, inject '
                         '(node applies its rule | refuses), bake}; initial node counter up to 2^64, 0..5 own contents already pending, '
                         'foreign pending operations as noise; random histories (<= 12 events quick, <= 40 thorough) plus DESIGN\'s probe '
                         'histories; thorough: exhaustive over 10 symbols up to 5 events after the first `new`; non-trivial = at least '
                         'one payload reached the injection RPC')
    ctx.assumptions += [
        'node rules are my transcription of Octez: injection demands counter+pending+1.., run_operation (head context) demands counter+1.., '
        'bake moves pending contents into the counter; the mempool RPC answers in the `applied`/`unprocessed` format pytezos reads',
        'one account, one context lineage at a time (`new` drops the previous group); explicit counter= arguments are not exercised; autofill(fee=/gas_limit=/storage_limit=) is exercised and is an autofill for the model',
        '`fresh` = counters computed (fill of the unfilled group / successful autofill) after the last accepted injection or bake; '
        'a fill() of an already filled group computes nothing (API contract: only unfilled fields are filled) and does not refresh',
    ]
    cases = []
    # DESIGN's probes + the counter-histories proved in Props/C25.lean
    cases += [(100, 0, ['n1', 'fT', 'fT', 's', 'iO']), (100, 0, ['n1', 'aT', 'aT']), (100, 1, ['n1', 'fT', 's', 'iO']),
              (100, 1, ['n1', 'aT', 's', 'iO']), (100, 0, ['n1', 'fT', 's', 'iO', 'fT', 's', 'iO']),
              (100, 0, ['n2', 'aT', 's', 'iF', 'iO', 'b', 'n1', 'aT', 's', 'iO']), (100, 1, ['n1', 'fT', 'aC', 's', 'iO']),
              (100, 0, ['n1', 'fT', 'iO', 'fT', 's', 'iO'])]
    n_random = 3000 if ctx.tier == 'quick' else 100000
    max_len = 12 if ctx.tier == 'quick' else 40
    for _ in range(n_random):
        cases.append(gen_random(ctx.rng, max_len))
    if ctx.tier == 'thorough':
        depth = 5
        for first in ('n1', 'n2'):
            for ln in range(0, depth + 1):
                for tail in itertools.product(SYMS, repeat=ln):
                    cases.append((100, 0, [first, *tail]))
        for p0 in (1, 2):
            for ln in range(0, 5):
                for tail in itertools.product(SYMS, repeat=ln):
                    cases.append((100, p0, ['n1', *tail]))
        ctx.extra['exhaustive_subspace'] = 'all histories of <= 6 events (first event n1|n2, then <= 5 of 10 symbols) from (c=100,p=0); <= 5 events from p=1,2'
    for kw in 'xyzw':
        cases += [(100, 1, ['n1', kw + 'T', 's', 'iO']), (100, 0, ['n1', 'aT', 's', 'iO', 'n1', kw + 'T', 's', 'iO']),
                  (100, 2, ['n2', 'fT', kw + 'C', 's', 'iO'])]
    lines = [f'{c} {p} ' + ' '.join(plain_events(evs)) for c, p, evs in cases]
    model = ctx.model(lines)
    shrunk = {}
    REJ = [None, ('refused', 'object', 1), None, ('branch_delayed', 'pair', 2), None, ('outdated', 'object', 2), ('branch_refused', 'object', 1), None]
    jobs = [(c0, p0, evs, ('ed', 'sp', 'p2')[idx % 3] if idx % 7 == 0 else 'ed', REJ[idx % len(REJ)]) for idx, (c0, p0, evs) in enumerate(cases)]
    if ctx.tier == 'thorough' and len(jobs) > 20000:
        import multiprocessing as mp
        with mp.get_context('fork').Pool(min(16, os.cpu_count() or 1)) as pool:   # results keep the case order: seed-deterministic
            results = pool.starmap(run_history, jobs, chunksize=500)
    else:
        results = [run_history(*j) for j in jobs]
    for idx, ((c0, p0, evs), (toks, viol)) in enumerate(zip(cases, results)):
        n_sent = sum(1 for t in toks if t.startswith('sent:'))
        ctx.case({'c': c0, 'p': p0, 'events': ' '.join(evs)}, nontrivial=n_sent > 0)
        ctx.count('length', min(len(evs), 40) // 4 * 4)
        ctx.count('rejected_own_operations_in_mempool', '-' if REJ[idx % len(REJ)] is None else '/'.join(map(str, REJ[idx % len(REJ)])))
        ctx.count('payloads_posted', min(n_sent, 5))
        for e in evs:
            if e in KW_AUTOFILL:
                ctx.count('autofill_keywords', '+'.join(sorted(KW_AUTOFILL[e])))
        for t in toks:
            ctx.count('outcome', t.split(':')[0] + (':' + ':'.join(t.split(':')[2:4]) if t.startswith('sent:') else ''))
        for v in viol:
            key = classify(v)
            known_class = key is not None
            if key is None:     # not one of the recorded defect regions: name the circumstances, show a minimal history
                how, earlier, pend = v['origin'] if v['origin'] else ('?', 0, 0)
                key = f"unlisted:{how}:earlier-fills-in-context={min(earlier, 1)}:own-pending={min(pend, 1)}"
            shrunk[key] = shrunk.get(key, 0) + 1
            if shrunk[key] <= 2:
                sc, sp, se = shrink(c0, p0, evs[:v['event_index'] + 1], key if known_class else None, REJ[idx % len(REJ)])
            else:
                sc, sp, se = c0, p0, evs[:v['event_index'] + 1]
            if (sc, sp, se) != (c0, p0, evs[:v['event_index'] + 1]):
                _, vs2 = run_history(sc, sp, se, 'ed', REJ[idx % len(REJ)])
                v = next(x for x in vs2 if classify(x) == (key if known_class else None))
            rj = REJ[idx % len(REJ)]
            if rj is not None and not known_class:
                # does the failure need the rejected entries?
                try:
                    _, vs3 = run_history(sc, sp, se)
                except Exception:
                    vs3 = []
                if not any(classify(x) is None for x in vs3):
                    key += f':with-{rj[2]}-own-operation(s)-listed-under-{rj[0]}-as-{rj[1]}'
            ctx.violation(key, f"node counter {sc}, {sp} own contents pending" + (f", {rj[2]} own operation(s) rejected by the mempool ({rj[0]}, {rj[1]} shape)" if rj else '') + f", history [{' '.join(se)}]: injected counters {v['sent']} "
                               f"expected {v['expected']} (node counter {v['node_counter']} + pending {v['node_pending']} at injection)",
                          {'counter': sc, 'pending': sp, 'events': se, 'sent': v['sent'], 'expected': v['expected']})
        if model is not None:
            got = ';'.join(toks)
            if got != model[idx]:
                ctx.mismatch('history', {'c': c0, 'p': p0, 'events': ' '.join(evs)}, got, model[idx])
