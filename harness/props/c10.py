"""C10 — optimized binary forms of addresses, key hashes, public keys, signatures, chain ids.

Real `forge_address / unforge_address / forge_contract / unforge_contract / forge_public_key / unforge_public_key /
unforge_chain_id / unforge_signature / forge_base58`, the domain types (`from_micheline_value` ∘ `to_micheline_value` in
optimized and readable mode) and `blind_unpack` against the Lean mirror; plus the property's own predicate, stated
with a reference table of the Tezos binary layouts kept here (independent of pytezos' tables): value -> bytes is the
reference layout, bytes -> value gives the value back (entrypoints `default`/`` dropped, signatures as `sig`/`BLsig`
with the same bytes), and whatever a reader accepts is the layout of what it returns (no kind confusion).
The Lean driver computes the Base58Check checksums itself (executable double SHA-256); nothing is handed over."""
from translator import extract

PROP = 'C10'

# reference layouts (Tezos): human prefix -> (base58 binary prefix, bytes in front, bytes behind)
ADDR = {
    'tz1': (bytes([6, 161, 159]), b'\x00\x00', b''),
    'tz2': (bytes([6, 161, 161]), b'\x00\x01', b''),
    'tz3': (bytes([6, 161, 164]), b'\x00\x02', b''),
    'tz4': (bytes([6, 161, 166]), b'\x00\x03', b''),
    'KT1': (bytes([2, 90, 121]), b'\x01', b'\x00'),
    'txr1': (bytes([1, 128, 120, 31]), b'\x02', b'\x00'),
    'sr1': (bytes([6, 124, 117]), b'\x03', b'\x00'),
}
KEYS = {
    'edpk': (bytes([13, 15, 37, 217]), 32, 0),
    'sppk': (bytes([3, 254, 226, 86]), 33, 1),
    'p2pk': (bytes([3, 178, 139, 127]), 33, 2),
    'BLpk': (bytes([6, 149, 135, 204]), 48, 3),
}
SIGS = {
    'edsig': (bytes([9, 245, 205, 134, 18]), 64),
    'spsig': (bytes([13, 115, 101, 19, 63]), 64),
    'p2sig': (bytes([54, 240, 44, 52]), 64),
    'sig': (bytes([4, 130, 43]), 64),
    'BLsig': (bytes([40, 171, 64, 207]), 96),
}
NET = bytes([87, 82, 0])
EP_FIRST = 'abcdefghijklmnopqrstuvwxyzABCDEFGHIJKLMNOPQRSTUVWXYZ0123456789_'
EP_REST = EP_FIRST + '.%@'


def hx(b):
    return b.hex() if b else '-'


def shx(s):
    return hx(s.encode('latin1'))


def run(ctx):
    import base58
    from pytezos.crypto import encoding as enc
    from pytezos.michelson import forge as F
    from pytezos.michelson.micheline import blind_unpack
    from pytezos.michelson.parse import michelson_to_micheline
    from pytezos.michelson.types.base import MichelsonType

    ctx.prepare_lean(extract.generate(PROP))
    quick = ctx.tier == 'quick'
    rng = ctx.rng
    ctx.extra['rule'] = (
        'values: every address kind (tz1-tz4, KT1, txr1, sr1) x digests whose first byte is forced to 00/01/02/03/other and '
        'whose last byte is forced to 00/other, x entrypoints of length 0..31 over [A-Za-z0-9_.%@] plus `default`; keys of the '
        'four curves (32/33/33/48 bytes), signatures of the five kinds (64/96 bytes), 4-byte chain ids. Each value goes through '
        'the bare forge/unforge functions (both directions), the domain types in optimized and readable mode, and blind_unpack; '
        'the unforge direction additionally sees random and near-miss byte strings (wrong tag, wrong padding, wrong length). '
        'non-trivial = digest starts with 00..03 or ends with 00, or an entrypoint is present, or the input is a near miss')
    ctx.assumptions += [
        'SHA-256: abstract 4-byte checksum in the general theorems; the driver and the `…_sha256` corollaries use the executable Lean '
        'SHA-256 (tied to hashlib by this run: every string read back from bytes carries a model-computed checksum; and by C09)',
        'entrypoint names are ASCII: bytes.decode()/str.encode() are the identity there; non-ASCII entrypoint bytes are outside the model',
        'str.rstrip() of the base58 library strips more characters on str than on bytes (\\x1c-\\x1f, \\x85, \\xa0): values with '
        'such trailing characters are not generated',
        'the domain types wrap every exception in MichelsonRuntimeError: typed streams compare success/value only',
    ]

    table = [tuple(r[:4]) for r in enc.base58_encodings]

    def call(fn, *a, out_str=False):
        try:
            r = fn(*a)
        except ValueError:
            return 'err ValueError'
        except KeyError:
            return 'err KeyError'
        except Exception as e:  # anything else is reported as such (the model has no counterpart)
            return f'err {type(e).__name__}'
        return 'ok ' + (shx(r) if out_str else hx(r))

    lines, checks = [], []

    def add(stream, line, desc, real):
        lines.append(line)
        checks.append((stream, desc, real))

    def b58c(binp, payload):
        return base58.b58encode_check(binp + payload).decode()

    # ---- bare functions -----------------------------------------------------------------------
    def f_fa(v, tz):
        real = call(F.forge_address, v, tz)
        add('forge_address', f'fa {int(tz)} {shx(v)}', {'op': 'forge_address', 'value': v, 'tz_only': tz}, real)
        return real

    def f_ua(d):
        real = call(F.unforge_address, d, out_str=True)
        add('unforge_address', f'ua {hx(d)}', {'op': 'unforge_address', 'data': d.hex()}, real)
        return real

    def f_fc(v):
        real = call(F.forge_contract, v)
        add('forge_contract', f'fc {shx(v)}', {'op': 'forge_contract', 'value': v}, real)
        return real

    def f_uc(d):
        real = call(F.unforge_contract, d, out_str=True)
        add('unforge_contract', f'uc {hx(d)}', {'op': 'unforge_contract', 'data': d.hex()}, real)
        return real

    def f_fpk(v):
        real = call(F.forge_public_key, v)
        add('forge_public_key', f'fpk {shx(v)}', {'op': 'forge_public_key', 'value': v}, real)
        return real

    def f_upk(d):
        real = call(F.unforge_public_key, d, out_str=True)
        add('unforge_public_key', f'upk {hx(d)}', {'op': 'unforge_public_key', 'data': d.hex()}, real)
        return real

    def f_fb58(v):
        real = call(F.forge_base58, v)
        add('forge_base58', f'fb58 {shx(v)}', {'op': 'forge_base58', 'value': v}, real)
        return real

    def f_uci(d):
        real = call(F.unforge_chain_id, d, out_str=True)
        add('unforge_chain_id', f'uci {hx(d)}', {'op': 'unforge_chain_id', 'data': d.hex()}, real)
        return real

    def f_usig(d):
        real = call(F.unforge_signature, d, out_str=True)
        add('unforge_signature', f'usig {hx(d)}', {'op': 'unforge_signature', 'data': d.hex()}, real)
        return real

    def f_bu(d):
        try:
            r = blind_unpack(d)
        except Exception as e:
            r = e
        ok = False
        if isinstance(r, str):
            try:
                base58.b58decode_check(r)
                ok = True
            except Exception:
                ok = False
        real = 'ok ' + shx(r) if ok else 'other'
        add('blind_unpack', f'bu {hx(d)}', {'op': 'blind_unpack', 'data': d.hex()}, real)
        return real

    types = {name: MichelsonType.match(michelson_to_micheline(src)) for name, src in (
        ('address', 'address'), ('contract', 'contract unit'), ('txr', 'tx_rollup_l2_address'), ('key', 'key'),
        ('key_hash', 'key_hash'), ('signature', 'signature'), ('chain_id', 'chain_id'))}

    def t_write(ty, v):
        try:
            r = types[ty].from_micheline_value({'string': v}).to_micheline_value(mode='optimized')
            real = 'ok ' + hx(bytes.fromhex(r['bytes']))
        except Exception:
            real = 'err'
        add('type-optimized', f'tw {ty} {shx(v)}', {'op': 'to-optimized', 'type': ty, 'value': v}, real)
        return real

    def t_read(ty, d):
        try:
            r = types[ty].from_micheline_value({'bytes': d.hex()}).to_micheline_value(mode='readable')
            real = 'ok ' + shx(r['string'])
        except Exception:
            real = 'err'
        add('type-readable', f'tr {ty} {hx(d)}', {'op': 'from-optimized', 'type': ty, 'data': d.hex()}, real)
        return real

    def t_readable_roundtrip(ty, v, want):
        """readable form: from_micheline_value(to_micheline_value('readable')) keeps the value"""
        try:
            t = types[ty]
            got = t.from_micheline_value(t.from_micheline_value({'string': v}).to_micheline_value(mode='readable')).to_micheline_value(mode='readable')['string']
        except Exception as e:
            got = f'<{type(e).__name__}>'
        if got != want:
            ctx.violation(f'readable-roundtrip:{ty}', f'{ty} {v!r} in readable form reads back as {got!r}, expected {want!r}',
                          {'op': 'readable-roundtrip', 'type': ty, 'value': v, 'got': got, 'expected': want})

    def pretty(r, as_str):
        if as_str and r.startswith('ok ') and r != 'ok -':
            return 'ok ' + bytes.fromhex(r[3:]).decode('latin1')
        return r

    def expect(key, what, got, want, replay, as_str=False):
        if got != want:
            ctx.violation(key, f'{what}: got {pretty(got, as_str)}, expected {pretty(want, as_str)}',
                          dict(replay, got=pretty(got, as_str), expected=pretty(want, as_str)))

    def shrink_keyhash(kind, d):
        """which feature of the digest makes the 21-byte form of (kind, d) unreadable, and a minimal digest with it"""
        binp, pre, _ = ADDR[kind]

        def fails(dd):
            try:
                return F.unforge_address((pre + dd)[1:]) != b58c(binp, dd)
            except Exception:
                return True
        for cause, dd in ((f'starts-{d[0]:02x}', bytes([d[0]]) + b'\x01' * 19), ('ends-00', b'\x01' * 19 + b'\x00')):
            if (cause != 'ends-00' or d[-1] == 0) and fails(dd):
                return cause, dd
        return 'other', d

    def digest_class(d):
        a = f'starts-{d[0]:02x}' if d[0] < 4 else 'starts-other'
        z = 'ends-00' if d[-1] == 0 else 'ends-other'
        return a, z

    def entrypoint():
        r = rng.random()
        if r < 0.08:
            return 'default'
        if r < 0.20:    # names around the reserved word: only the exact name `default` is the default entrypoint
            return rng.choice(['default_admin', 'defaultOwner', 'default0', 'default_', 'set_default', 'xdefault', 'defaul', 'Default', 'default.default',
                               'defaultdefault', 'root', 'do', 'remove_delegate', 'set_delegate', 'set%default', 'a%default', 'default%default', 'x%y%default'])
        n = rng.randrange(0, 32)
        if n == 0:
            return ''
        s = rng.choice(EP_FIRST) + ''.join(rng.choice(EP_REST) for _ in range(n - 1))
        return s

    # ---- addresses / key hashes / contracts ---------------------------------------------------
    reps = 8 if quick else 60
    for kind, (binp, pre, post) in ADDR.items():
        for first in (0, 1, 2, 3, None):
            for last in (0, None):
                for _ in range(reps):
                    d = bytearray(rng.bytes_(20))
                    d[0] = first if first is not None else rng.randrange(4, 256)
                    d[-1] = last if last is not None else rng.randrange(1, 256)
                    d = bytes(d)
                    v = b58c(binp, d)
                    a, z = digest_class(d)
                    spec22 = pre + d + post
                    desc = {'kind': kind, 'digest': d.hex()}
                    ctx.case({'op': 'address', **desc}, nontrivial=(first is not None or last is not None))
                    ctx.count('kind', kind)
                    ctx.count('digest-first', a)
                    ctx.count('digest-last', z)
                    rp = {'kind': kind, 'digest': d.hex(), 'value': v}
                    expect(f'forge-address:{kind}', f'forge_address({v})', f_fa(v, False), 'ok ' + spec22.hex(), {'op': 'forge_address', **rp})
                    expect(f'unforge-address-22:{kind}:{a}:{z}', f'unforge_address({spec22.hex()})', f_ua(spec22), 'ok ' + shx(v), {'op': 'unforge_address', 'data': spec22.hex(), **rp}, as_str=True)
                    if len(pre) == 2:
                        spec21 = spec22[1:]
                        expect(f'forge-keyhash:{kind}', f'forge_address({v}, tz_only=True)', f_fa(v, True), 'ok ' + spec21.hex(), {'op': 'forge_address', 'tz_only': True, **rp})
                        got21 = f_ua(spec21)
                        key = f'keyhash-21-byte:{kind}'
                        if got21 != 'ok ' + shx(v):
                            cause, dmin = shrink_keyhash(kind, d)
                            key = f'keyhash-21-byte:{kind}:digest-{cause}'
                            vmin, smin = b58c(binp, dmin), (pre + dmin)[1:]
                            expect(key, f'unforge_address({smin.hex()}) (21-byte key hash form of {vmin})', call(F.unforge_address, smin, out_str=True),
                                   'ok ' + shx(vmin), {'op': 'unforge_address', 'data': smin.hex(), 'kind': kind, 'digest': dmin.hex(), 'value': vmin}, as_str=True)
                        expect(key, f'KeyHashType optimized round trip of {v}', t_read('key_hash', spec21), 'ok ' + shx(v), {'op': 'key_hash-from-optimized', 'data': spec21.hex(), **rp}, as_str=True)
                        expect(f'forge-keyhash:{kind}', f'KeyHashType({v}) optimized', t_write('key_hash', v), 'ok ' + spec21.hex(), {'op': 'key_hash-to-optimized', **rp})
                        expect(key, f'blind_unpack({spec21.hex()})', f_bu(spec21), 'ok ' + shx(v), {'op': 'blind_unpack', 'data': spec21.hex(), **rp}, as_str=True)
                        t_readable_roundtrip('key_hash', v, v)
                    expect(f'blind-unpack-22:{kind}:{a}:{z}', f'blind_unpack({spec22.hex()})', f_bu(spec22), 'ok ' + shx(v), {'op': 'blind_unpack', 'data': spec22.hex(), **rp}, as_str=True)
                    # with entrypoints
                    for ep in ((None, 'a%b', entrypoint()) if (first, last) == (0, 0) else (None, entrypoint(), entrypoint())):
                        val = v if ep is None else f'{v}%{ep}'
                        epn = '' if ep in (None, '', 'default') else ep
                        want_bytes = spec22 + epn.encode()
                        want_val = v + ('%' + epn if epn else '')
                        ctx.case({'op': 'contract', 'kind': kind, 'digest': d.hex(), 'ep': ep}, nontrivial=ep is not None)
                        ctx.count('entrypoint-len', 'none' if ep is None else len(ep))
                        epkey = 'entrypoint-with-percent' if ep and '%' in ep else f'contract:{kind}'
                        rpe = dict(rp, value=val)
                        expect(epkey, f'forge_contract({val})', f_fc(val), 'ok ' + want_bytes.hex(), {'op': 'forge_contract', **rpe})
                        expect(f'unforge-contract:{kind}', f'unforge_contract({want_bytes.hex()})', f_uc(want_bytes), 'ok ' + shx(want_val), {'op': 'unforge_contract', 'data': want_bytes.hex(), **rpe}, as_str=True)
                        tys = ('txr',) if kind == 'txr1' else ('address', 'contract')
                        for ty in tys:
                            expect(epkey, f'{ty} {val} to optimized', t_write(ty, val), 'ok ' + want_bytes.hex(), {'op': ty + '-to-optimized', **rpe})
                            expect(f'unforge-contract:{kind}', f'{ty} from optimized {want_bytes.hex()}', t_read(ty, want_bytes), 'ok ' + shx(want_val), {'op': ty + '-from-optimized', 'data': want_bytes.hex(), **rpe}, as_str=True)
                        if ep is not None and ep != 'default':
                            t_readable_roundtrip(tys[0], val, val)

    # ---- public keys ---------------------------------------------------------------------------
    reps_k = 30 if quick else 400
    for kind, (binp, n, tag) in KEYS.items():
        for i in range(reps_k):
            k = bytes(n) if i == 0 else b'\xff' * n if i == 1 else rng.bytes_(n)
            v = b58c(binp, k)
            spec = bytes([tag]) + k
            rp = {'kind': kind, 'key': k.hex(), 'value': v}
            ctx.case({'op': 'key', **rp}, nontrivial=False)
            ctx.count('kind', kind)
            expect(f'forge-key:{kind}', f'forge_public_key({v})', f_fpk(v), 'ok ' + spec.hex(), {'op': 'forge_public_key', **rp})
            expect(f'unforge-key:{kind}', f'unforge_public_key({spec.hex()})', f_upk(spec), 'ok ' + shx(v), {'op': 'unforge_public_key', 'data': spec.hex(), **rp}, as_str=True)
            expect(f'forge-key:{kind}', f'KeyType({v}) optimized', t_write('key', v), 'ok ' + spec.hex(), {'op': 'key-to-optimized', **rp})
            expect(f'unforge-key:{kind}', f'KeyType from optimized {spec.hex()}', t_read('key', spec), 'ok ' + shx(v), {'op': 'key-from-optimized', 'data': spec.hex(), **rp}, as_str=True)
            expect(f'unforge-key:{kind}', f'blind_unpack({spec.hex()})', f_bu(spec), 'ok ' + shx(v), {'op': 'blind_unpack', 'data': spec.hex(), **rp}, as_str=True)
            t_readable_roundtrip('key', v, v)

    # ---- signatures ------------------------------------------------------------------------------
    for kind, (binp, n) in SIGS.items():
        generic = 'BLsig' if n == 96 else 'sig'
        for i in range(reps_k):
            d = bytes(n) if i == 0 else b'\xff' * n if i == 1 else rng.bytes_(n)
            if i in (2, 3):      # a signature that also reads as PACKed data: 05, then a bytes / string literal filling the rest
                d = b'\x05' + (b'\x0a' if i == 2 else b'\x01') + (n - 6).to_bytes(4, 'big') + (rng.bytes_(n - 6) if i == 2 else b'a' * (n - 6))
            v = b58c(binp, d)
            g = b58c(SIGS[generic][0], d)
            rp = {'kind': kind, 'signature': d.hex(), 'value': v}
            ctx.case({'op': 'signature', **rp}, nontrivial=(n == 96))
            ctx.count('kind', kind)
            key = f'signature-{n}-bytes'
            expect(f'forge-signature:{kind}', f'forge_base58({v})', f_fb58(v), 'ok ' + d.hex(), {'op': 'forge_base58', **rp})
            expect(key, f'unforge_signature({n} bytes {d.hex()[:16]}…)', f_usig(d), 'ok ' + shx(g), {'op': 'unforge_signature', 'data': d.hex(), **rp}, as_str=True)
            expect(f'forge-signature:{kind}', f'SignatureType({v}) optimized', t_write('signature', v), 'ok ' + d.hex(), {'op': 'signature-to-optimized', **rp})
            expect(key, f'SignatureType from optimized ({n} bytes, written for {v[:12]}…)', t_read('signature', d), 'ok ' + shx(g), {'op': 'signature-from-optimized', 'data': d.hex(), **rp}, as_str=True)
            expect(key, f'blind_unpack({n} bytes)', f_bu(d), 'ok ' + shx(g), {'op': 'blind_unpack', 'data': d.hex(), **rp}, as_str=True)
            t_readable_roundtrip('signature', v, v)

    # ---- chain ids -------------------------------------------------------------------------------
    for i in range(reps_k * 2):
        d = bytes(4) if i == 0 else b'\xff' * 4 if i == 1 else rng.bytes_(4)
        if i in (2, 3, 4):      # a chain id that also reads as PACKed data: 05 00 <two-byte zarith integer>
            d = b'\x05\x00' + bytes([0x80 | rng.randrange(0x80), rng.randrange(1, 0x80)])
        v = b58c(NET, d)
        rp = {'chain_id': d.hex(), 'value': v}
        ctx.case({'op': 'chain_id', **rp}, nontrivial=False)
        expect('chain-id', f'forge_base58({v})', f_fb58(v), 'ok ' + d.hex(), {'op': 'forge_base58', **rp})
        expect('chain-id', f'unforge_chain_id({d.hex()})', f_uci(d), 'ok ' + shx(v), {'op': 'unforge_chain_id', 'data': d.hex(), **rp}, as_str=True)
        expect('chain-id', f'ChainIdType({v}) optimized', t_write('chain_id', v), 'ok ' + d.hex(), {'op': 'chain_id-to-optimized', **rp})
        expect('chain-id', f'ChainIdType from optimized {d.hex()}', t_read('chain_id', d), 'ok ' + shx(v), {'op': 'chain_id-from-optimized', 'data': d.hex(), **rp}, as_str=True)
        expect('chain-id', f'blind_unpack({d.hex()})', f_bu(d), 'ok ' + shx(v), {'op': 'blind_unpack', 'data': d.hex(), **rp}, as_str=True)
        t_readable_roundtrip('chain_id', v, v)

    # ---- near misses and random bytes in the reading direction: no kind confusion --------------
    def spec_forms(v):
        """the byte strings the reference layout assigns to address string v (None if v is no address)"""
        try:
            raw = base58.b58decode_check(v)
        except Exception:
            return None
        for kind, (binp, pre, post) in ADDR.items():
            if raw.startswith(binp) and len(raw) == len(binp) + 20 and v.startswith(kind):
                h = raw[len(binp):]
                return [pre + h + post] + ([(pre + h)[1:]] if len(pre) == 2 else [])
        return None

    n_miss = 2500 if quick else 40000
    for i in range(n_miss):
        r = rng.random()
        if r < 0.3:
            ln = rng.choice([0, 1, 2, 4, 20, 21, 22, 23, 33, 34, 49, 64, 96]) if rng.random() < 0.7 else rng.randrange(0, 100)
            d = rng.bytes_(ln)
        elif r < 0.55:   # 22-byte forms with unusual tag / padding
            d = bytes([rng.choice([0, 1, 2, 3, 4, 255])]) + bytes([rng.choice([0, 1, 2, 3, 4, 200])]) + rng.bytes_(19) + bytes([rng.choice([0, 0, 1, 255])])
        elif r < 0.8:    # 21-byte forms with any tag
            d = bytes([rng.choice([0, 1, 2, 3, 4, 5, 255])]) + bytes([rng.choice([0, 1, 2, 3, 9])]) + rng.bytes_(18) + bytes([rng.choice([0, 0, 7])])
        else:            # tag + key with wrong tag / length
            d = bytes([rng.choice([0, 1, 2, 3, 4])]) + rng.bytes_(rng.choice([31, 32, 33, 34, 47, 48, 49]))
        d = d[:22] + bytes(b & 0x7f for b in d[22:])   # entrypoint part stays ASCII (see assumptions)
        ctx.case({'op': 'read-near-miss', 'data': d.hex()})
        ctx.count('near-miss-len', len(d) if len(d) in (0, 1, 2, 4, 20, 21, 22, 23, 33, 34, 49, 64, 96) else 'other')
        got = f_ua(d)
        if got.startswith('ok '):
            v = bytes.fromhex(got[3:]).decode('latin1')
            forms = spec_forms(v)
            if forms is None or d not in forms:
                ctx.violation('unforge-address-kind-confusion', f'unforge_address({d.hex()}) = {v}, whose binary forms are {[f.hex() for f in forms or []]}',
                              {'op': 'unforge_address', 'data': d.hex(), 'got': v})
        f_uc(d[:22] + (b'' if rng.random() < 0.5 or len(d) < 22 else entrypoint().encode()))
        f_upk(d)
        f_bu(d)
        if i % 4 == 0:
            f_usig(d)
            f_uci(d)
            for ty in ('address', 'key_hash', 'key', 'signature', 'chain_id'):
                t_read(ty, d)

    # ---- forge direction on strings that are not values of the expected kind ---------------------
    others = []
    for (h, ln, p, n) in table:
        others.append(base58.b58encode_check(p + rng.bytes_(n)).decode())
    some_addr = b58c(ADDR['tz1'][0], rng.bytes_(20))
    others += [some_addr[:-1] + ('1' if some_addr[-1] != '1' else '2'), some_addr[:-1], 'tz1', '', some_addr + '%', some_addr + '%a%default',
               some_addr + '%default%a', '%' + some_addr, some_addr.replace('1', 'l', 1)]
    for v in others:
        ctx.case({'op': 'forge-foreign', 'value': v}, nontrivial=False)
        f_fa(v, False)
        f_fa(v, True)
        f_fc(v)
        f_fpk(v)
        f_fb58(v)
        for ty in types:
            t_write(ty, v)

    model = ctx.model(lines)
    if model is not None:
        for (stream, desc, real), m in zip(checks, model):
            if real != m:
                ctx.mismatch(stream, desc, real, m)
    ctx.extra['lines'] = len(lines)
